#!/bin/sh
# Builds /verif/.venv offline: Python 3.12 venv from /venv's interpreter + z3/cvc5/crosshair/icontract
# wheels from the offline wheelhouse, plus a .pth so the same interpreter sees /venv's site-packages
# (numpy, scipy, pandas, the editable forsys install pointing at /repo). Idempotent.
set -e
cd "$(dirname "$0")"
if [ -x .venv/bin/python ] && .venv/bin/python -c "import z3, numpy, forsys" >/dev/null 2>&1; then
  exit 0
fi
rm -rf .venv
/venv/bin/python -m venv .venv
PIP_NO_INDEX=1 .venv/bin/pip install -q --no-index --find-links /opt/veriftools/wheels z3-solver cvc5 jsonschema icontract crosshair-tool >/dev/null 2>&1 || \
PIP_NO_INDEX=1 .venv/bin/pip install -q --no-index --find-links /opt/veriftools/wheels z3-solver jsonschema
SP=$(.venv/bin/python -c "import sysconfig; print(sysconfig.get_paths()['purelib'])")
echo "import site; site.addsitedir('/venv/lib/python3.12/site-packages')" > "$SP/zz_repo_venv.pth"
.venv/bin/python -c "import z3, numpy, forsys; print('venv ok', z3.get_version_string())"
