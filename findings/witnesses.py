"""Native witnesses for the defects found in /repo by the obligations (run: .venv/bin/python findings/witnesses.py).

Each function runs the *real* code on a concrete input and returns (ok, detail); ok=False means the
defect is present on the tree under test.  Used to adjudicate refuted obligations (genuine defect vs
false alarm), and re-run after each `fix:` commit.
"""
import math
import os
import sys
import warnings

warnings.filterwarnings("ignore")
if os.environ.get("FVC_REPO"):
    sys.path.insert(0, os.environ["FVC_REPO"])

import numpy as np                      # noqa: E402
import forsys as fs                     # noqa: E402
from forsys.vertex import Vertex        # noqa: E402
from forsys.edge import SmallEdge, BigEdge   # noqa: E402
from forsys.cell import Cell            # noqa: E402

KEEP = []


def arc(points, first_id=0):
    vs = [Vertex(first_id + i, float(x), float(y)) for i, (x, y) in enumerate(points)]
    es = [SmallEdge(first_id + i, vs[i], vs[i + 1]) for i in range(len(vs) - 1)]
    KEEP.extend(es)
    return BigEdge(0, vs), vs


def w_two_point_versor():
    """F1 (C02/C01/C06): two-point interface from P=(0,0) to Q=(3,1): coefficient pair must be (3,1)/sqrt(10)"""
    be, vs = arc([(0, 0), (3, 1)])
    got = be.get_versor_from_vertex(0)
    want = np.array([3, 1]) / math.sqrt(10)
    return bool(np.allclose(got, want, atol=1e-6)), f"got {got}, want {want}"


def w_sign_forcing():
    """F2 (C02/C01/C06): arc on the circle centre (1,-1/2) r^2=5/4 from P=(0,0) through Q=(0,-1): the
    tangent at P is rot90(P-C) oriented towards Q, i.e. parallel to (1,-2)... per-component sign forcing mirrors it"""
    C = np.array([1.0, -0.5])
    r = math.sqrt(1.25)
    a0 = math.atan2(0.5, -1.0)           # angle of P=(0,0) seen from C
    a1 = math.atan2(-0.5, -1.0)          # angle of Q=(0,-1)
    # go from a0 to a1 the short way and continue with the same step for two more points
    step = (a1 - a0)
    if step > math.pi:
        step -= 2 * math.pi
    if step < -math.pi:
        step += 2 * math.pi
    pts = [C + r * np.array([math.cos(a0 + k * step), math.sin(a0 + k * step)]) for k in range(4)]
    # rotate by +5 degrees about the origin: the first chord (0,-1) gets a small positive x-component while the
    # tangent keeps a negative one, so the axis lies between chord and tangent
    e = math.radians(5.0)
    R = np.array([[math.cos(e), -math.sin(e)], [math.sin(e), math.cos(e)]])
    pts = [R @ p for p in pts]
    C = R @ C
    res = []
    ok = True
    for method in ("dlite", "taubinSVD"):
        be, vs = arc(pts)
        got = be.get_versor_from_vertex(0, fit_method=method)
        P, Q = pts[0], pts[1]
        t = np.array([-(P[1] - C[1]), P[0] - C[0]])
        t = t / np.linalg.norm(t)
        if np.dot(t, Q - P) < 0:
            t = -t
        ok = ok and bool(np.allclose(got, t, atol=1e-5))
        res.append((method, got.tolist(), t.tolist()))
    return ok, str(res)


def _tissue_square_lattice(n=3):
    """n x n unit squares, junctions on integer points, interfaces = single mesh edges (two-point)"""
    vertices, edges, cells = {}, {}, {}
    vid = {}
    for i in range(n + 1):
        for j in range(n + 1):
            vid[(i, j)] = len(vertices)
            vertices[vid[(i, j)]] = Vertex(vid[(i, j)], float(i), float(j))
    eid = 0
    for i in range(n + 1):
        for j in range(n + 1):
            if i < n:
                edges[eid] = SmallEdge(eid, vertices[vid[(i, j)]], vertices[vid[(i + 1, j)]]); eid += 1
            if j < n:
                edges[eid] = SmallEdge(eid, vertices[vid[(i, j)]], vertices[vid[(i, j + 1)]]); eid += 1
    cid = 0
    for i in range(n):
        for j in range(n):
            cyc = [vertices[vid[p]] for p in [(i, j), (i + 1, j), (i + 1, j + 1), (i, j + 1)]]
            cells[cid] = Cell(cid, cyc); cid += 1
    return vertices, edges, cells


def w_zero_component_junctions():
    """F3 (C02/C01): 3x3 square lattice: the 4 interior junctions are shared by 4 cells and 4 internal
    interfaces; each must get its two equations (ignore_four off).  count_nonzero per row sees only 2 non-zeros"""
    v, e, c = _tissue_square_lattice(3)
    fr = fs.frames.Frame(0, v, e, c, time=0)
    F = fs.ForSys({0: fr}, cm=False)
    F.build_force_matrix(when=0)
    m = F.force_matrices[0]
    want_rows = 2 * 4
    return m.matrix.shape[0] == want_rows, f"matrix shape {m.matrix.shape}, expected {want_rows} rows; map_vid_to_row={m.map_vid_to_row}"


def w_midpoint_abs():
    """F4 (C11/C06): join_two_vertices on the edge (-4,-2)-(-2,-2) must give the midpoint (-3,-2)"""
    v0, v1, v2 = Vertex(0, -4.0, -2.0), Vertex(1, -2.0, -2.0), Vertex(2, -3.0, -5.0)
    vertices = {0: v0, 1: v1, 2: v2}
    edges = {0: SmallEdge(0, v0, v1), 1: SmallEdge(1, v1, v2), 2: SmallEdge(2, v2, v0)}
    cells = {0: Cell(0, [v0, v1, v2], center_method="mean")}
    vertices, edges, cells, mapper = fs.virtual_edges.join_two_vertices([0, 1], vertices, edges, cells, {})
    nv = vertices[mapper[0]]
    return (abs(nv.x + 3) < 1e-12 and abs(nv.y + 2) < 1e-12), f"merged vertex at ({nv.x},{nv.y}), expected (-3,-2)"


def _furrow(k=2):
    frames = {}
    base = os.path.join(os.path.dirname(fs.__file__), "..", "tests", "data", "furrow_gauss_velocity")
    for ii in range(k):
        se = fs.surface_evolver.SurfaceEvolver(os.path.join(base, f"stage{ii}.dmp"))
        frames[ii] = fs.frames.Frame(ii, se.vertices, se.edges, se.cells, time=ii, gt=True)
    return fs.ForSys(frames, cm=False)


def w_pressure_store():
    """F5 (C10): after solve_pressure(when=1) the per-frame store must still be keyed by frame and hold frame 1's pressures under key 1"""
    F = _furrow(2)
    for t in (0, 1):
        F.build_force_matrix(when=t); F.solve_stress(when=t)
        F.build_pressure_matrix(when=t); F.solve_pressure(when=t, method="lagrange_pressure")
    ok = isinstance(F.pressures, dict) and F.pressures.get(0) is not None and F.pressures.get(1) is not None
    return ok, f"type(ForSys.pressures)={type(F.pressures).__name__}"


def w_myosin_repeated():
    """F6 (C17): the same interface listed twice: both positions must be reported (keys 0 and 1)"""
    from PIL import Image
    img = Image.fromarray((np.arange(400).reshape(20, 20) % 251).astype(np.uint8))
    be, vs = arc([(2, 2), (5, 3), (8, 3)])
    try:
        r = fs.myosin.get_intensities([be, be], img, integrate=False, normalize=None, layers=1)
    except Exception as ex:      # noqa
        return False, f"raised {type(ex).__name__}: {ex}"
    return sorted(r.keys()) == [0, 1], f"keys {sorted(r.keys())}"


def w_vertical_ridge():
    """F7 (C19): exactly square centre grid: vertical Voronoi ridges must not raise"""
    centres = [(float(i), float(j)) for i in range(5) for j in range(5)]
    try:
        v, e, c = fs.tessellation.create_lattice_elements(centres)
    except Exception as ex:      # noqa
        return False, f"raised {type(ex).__name__}: {ex}"
    return len(c) == 9, f"{len(c)} cells, expected 9"


def w_se_three_token_edge():
    """F8 (C14): an edge record without any attribute ('<id> <v1> <v2>') must parse with reference tension 1"""
    import tempfile
    txt = ("vertices  \n1 0.0 0.0\n2 1.0 0.0\n3 0.0 1.0\n\nedges  \n1 1 2\n2 2 3 density 0.5\n3 3 1 density 0.25\n\n"
           "faces  \n1 1 2 3 /*area 0.5*/\n\nbodies  \n1 1 volume 0.5 /*actual: 0.5*/ lagrange_multiplier 0.125 centerofmass\n\nread\n")
    with tempfile.NamedTemporaryFile("w", suffix=".dmp", delete=False) as f:
        f.write(txt)
    try:
        se = fs.surface_evolver.SurfaceEvolver(f.name)
        ok = se.edges[1].gt == 1
        return ok, f"edge 1 gt={se.edges[1].gt}"
    except Exception as ex:      # noqa
        return False, f"raised {type(ex).__name__}: {ex}"
    finally:
        os.unlink(f.name)


ALL = [w_two_point_versor, w_sign_forcing, w_zero_component_junctions, w_midpoint_abs, w_pressure_store,
       w_myosin_repeated, w_vertical_ridge, w_se_three_token_edge]

if __name__ == "__main__":
    names = sys.argv[1:]
    for w in ALL:
        if names and w.__name__ not in names:
            continue
        try:
            ok, detail = w()
        except Exception as ex:      # noqa
            import traceback
            ok, detail = False, "witness crashed: " + traceback.format_exc()[-400:]
        print(("OK      " if ok else "DEFECT  ") + w.__name__ + ": " + str(detail)[:400])
