#!/bin/sh
# usage: tools/seedall.sh [dir...]  : every seeded change must be reported (exit 1 + VIOLATION line) by the check of its property
cd /verif
for d in ${@:-seeded/C*}; do
  id=$(basename $d); p=$(echo $id | cut -c1-3)
  W=$(mktemp -d /tmp/seedall.XXXXXX); rmdir $W
  git -C /repo worktree add -q --detach $W HEAD || exit 9
  if ! git -C $W apply /verif/$d/patch.diff 2>/dev/null; then echo "$id PATCH-DOES-NOT-APPLY"; git -C /repo worktree remove --force $W; continue; fi
  out=$(FVC_REPO=$W timeout 1500 ./fvcheck check $p 2>&1); rc=$?
  echo "$id exit=$rc violations=$(echo "$out" | grep -c '^VIOLATION') deductive=$(echo "$out" | grep '^VIOLATION' | grep -vc 'obligation=B[0-9]') $(echo "$out" | grep '^VIOLATION' | head -1 | sed 's/.*obligation=//' | cut -c1-90)"
  git -C /repo worktree remove --force $W
done
