"""edit a repo file in place, keeping its CRLF line endings: crlf_edit.py FILE OLDFILE NEWFILE (texts with LF)"""
import sys
p, old, new = sys.argv[1], open(sys.argv[2]).read(), open(sys.argv[3]).read()
raw = open(p, newline="").read()
crlf = "\r\n" in raw
if crlf:
    old, new = old.replace("\n", "\r\n"), new.replace("\n", "\r\n")
assert raw.count(old) == 1, f"pattern occurs {raw.count(old)} times"
open(p, "w", newline="").write(raw.replace(old, new))
