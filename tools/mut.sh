#!/bin/sh
# usage: tools/mut.sh <relative file under forsys/> <sed expression> <property> : runs the property check on a mutated scratch copy
D=$(mktemp -d /tmp/fvcmut.XXXXXX); cp -r /repo/forsys $D/; sed -i "$2" $D/forsys/$1
if cmp -s /repo/forsys/$1 $D/forsys/$1; then echo "MUTATION DID NOT APPLY"; rm -rf $D; exit 9; fi
FVC_REPO=$D timeout 900 /verif/fvcheck check $3 2>&1 | grep -E "VIOLATION|UNDECIDED|ENGINE|^C[0-9]+:" | cut -c1-260 | head -${4:-6}
rm -rf $D
