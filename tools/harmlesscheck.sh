#!/bin/sh
# usage: tools/harmlesscheck.sh <patch.diff> <property>...   : runs the quick checks against a scratch worktree with a behaviour-preserving patch applied
P=$1; shift
W=$(mktemp -d /tmp/harmchk.XXXXXX); rmdir $W
git -C /repo worktree add -q --detach $W HEAD || exit 9
if ! git -C $W apply $P; then echo "PATCH DOES NOT APPLY"; git -C /repo worktree remove --force $W; exit 8; fi
for p in "$@"; do
  out=$(FVC_REPO=$W timeout 1200 /verif/fvcheck check $p 2>&1); rc=$?
  echo "$p exit=$rc $(echo "$out" | grep -E "^C[0-9]+:" | cut -c1-140)"
  echo "$out" | grep -E "VIOLATION|UNDECIDED|ENGINE" | cut -c1-260 | head -4
done
git -C /repo worktree remove --force $W
