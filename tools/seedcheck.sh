#!/bin/sh
# usage: tools/seedcheck.sh <seed dir with patch.diff, demo.py, meta.json> <property> [more properties...]
# 1. confirms the seeded change in a scratch worktree of /repo HEAD: patch applies, demo exits 0 without / 1 with it, suite passes with it
# 2. runs the quick checks of the given properties against the patched scratch copy (FVC_REPO) and prints their verdict lines
# The scratch worktree is removed afterwards.  Nothing is written to /repo.
SD=$(cd "$1" && pwd); shift
W=$(mktemp -d /tmp/seedchk.XXXXXX); rmdir $W
git -C /repo worktree add -q --detach $W HEAD || exit 9
cd $W
/venv/bin/python $SD/demo.py >/dev/null 2>&1; echo "demo without patch: exit $?"
if ! git apply $SD/patch.diff; then echo "PATCH DOES NOT APPLY to /repo HEAD"; git -C /repo worktree remove --force $W; exit 8; fi
/venv/bin/python $SD/demo.py >/tmp/seed_demo.out 2>&1; echo "demo with patch: exit $?  ($(tail -n 1 /tmp/seed_demo.out | cut -c1-160))"
if [ -z "$SKIP_SUITE" ]; then
  echo "suite with patch: $(timeout 1500 /venv/bin/python -m pytest -q -p no:cacheprovider --timeout=900 2>&1 | tail -n 1)"
fi
for p in "$@"; do
  FVC_REPO=$W timeout 1200 /verif/fvcheck check $p 2>&1 | grep -E "VIOLATION|UNDECIDED|ENGINE|^C[0-9]+:" | cut -c1-250 | head -${LINES_PER:-4}
done
cd /; git -C /repo worktree remove --force $W
