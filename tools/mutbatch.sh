#!/bin/sh
# usage: tools/mutbatch.sh LISTFILE  (lines: <file under forsys/>|<sed expr>|<property>) ; prints one verdict line per mutant
while IFS='|' read -r f e p; do
  [ -z "$f" ] && continue
  out=$(/verif/tools/mut.sh "$f" "$e" "$p" 3 2>&1)
  if echo "$out" | grep -q "VIOLATION"; then v=CAUGHT; elif echo "$out" | grep -q "DID NOT APPLY"; then v=NOAPPLY; elif echo "$out" | grep -q "UNDECIDED\|ENGINE"; then v=UNDECIDED; else v=MISSED; fi
  echo "$v $p $f $e :: $(echo "$out" | grep -m1 -o 'obligation=[^ ]*')"
done < "$1"
