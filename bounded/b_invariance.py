"""Bounded stand-ins for the invariance / pressure properties of the static inference:
B06 (C06) similarity invariance (translation, rotation, reflection, scale) of tensions, pressures, coefficient pairs
B07 (C07) independence of labels, cycle start and cell orientation
B04 (C04) pressure step: row structure, turning estimate, zero-sum least squares, linearity, correlation

Cases are small JSON-able specs (see b_static.make_tissue); `replay` re-runs one.  The spawn pool, the forsys driver `Run`
and the ground-truth helpers are shared with b_static.  FVC_REPO selects a scratch copy of forsys.
"""
import itertools
import math
import os
import sys
from collections import Counter, defaultdict

if os.environ.get("FVC_REPO"):
    sys.path.insert(0, os.environ["FVC_REPO"])

import numpy as np

from fvc.registry import bounded
from bounded import gen
from bounded import b_static as S
from bounded.b_static import (KF_SIGN, KF_MULT, TOL_FLAT, FLAT_TURN, Truth, Run, canon, make_tissue, tissue_hash, _fail,
                              try_run, sf_predicate, first_chord, certificate, svals, _np_default)

# pose / labelling dependence allowed per coefficient.  'loose-fit' = >= 3 points that do not lie on one circle (noisy
# tissues) fitted with 'dlite': scipy leastsq stops at ftol 1.5e-8 of a non-zero cost, the centre is reproducible to ~1e-4
C_TOL = {"two-point": 1e-9, "arc": 1e-6, "loose-fit": 2e-3, "flat": 2 * TOL_FLAT}
T_TOL_MAX = 0.05


# ======================================================================================================
# shared helpers
# ======================================================================================================
def geom_class(pos, ids, noisy=False, fit="dlite"):
    """class of an interface from its points alone (works for noisy tissues)"""
    if len(ids) == 2:
        return "two-point"
    if noisy and fit == "dlite":
        return "loose-fit"
    tot = 0.0
    P = [pos[v] for v in ids]
    for a, b, c in zip(P, P[1:], P[2:]):
        ux, uy, vx, vy = b[0] - a[0], b[1] - a[1], c[0] - b[0], c[1] - b[1]
        tot += math.atan2(ux * vy - uy * vx, ux * vx + uy * vy)
    return "arc" if abs(tot) >= FLAT_TURN else "flat"


def fitted_tangent(run, ids, j, fit):
    """tangent of the circle fitted by the code under test at end j, oriented along the first chord (used only for the
    sign-forcing predicate on tissues without analytic tangents)"""
    fs = gen.forsys_modules()
    d = first_chord(run.pos, ids, j)
    if len(ids) == 2:
        n = math.hypot(*d)
        return (d[0] / n, d[1] / n)
    with np.errstate(all="ignore"):
        xc, yc = fs.virtual_edges.calculate_circle_center([run.frame.vertices[v] for v in ids], method=fit)
    v = (-(run.pos[j][1] - yc), run.pos[j][0] - xc)
    n = math.hypot(*v)
    if not (n > 0 and math.isfinite(n)):
        return None
    v = (v[0] / n, v[1] / n)
    return v if v[0] * d[0] + v[1] * d[1] >= 0 else (-v[0], -v[1])


def predicate_ends(run, t, fit):
    """number of (inferred interface, kept junction) ends satisfying the KF-C02-sign-forcing predicate; analytic tangents
    when the tissue has them, else the fitted circle's tangent"""
    tr = None if t.meta.get("noisy") else Truth(t)
    n = 0
    for p in run.cols:
        if len(p) == 2:
            continue
        itf = tr.find(p) if tr is not None else None
        for j in (p[0], p[-1]):
            if j not in run.rows:
                continue
            tg = tr.tangent(itf, p, j) if itf is not None and itf["kind"] in ("arc", "straight") else fitted_tangent(run, p, j, fit)
            if tg is not None and sf_predicate(first_chord(run.pos, p, j), tg) is not None:
                n += 1
    return n


def fb_residual(M):
    """optimal residual of the force-balance rows plus the row 'sum = n' over non-negative tensions WITHOUT the multiplier"""
    A = np.vstack([M, np.ones((1, M.shape[1]))])
    b = np.zeros(A.shape[0])
    b[-1] = M.shape[1]
    with np.errstate(all="ignore"):
        return float(S._sco.nnls(A, b, maxiter=50 * A.shape[1] + 200)[1])


def solve_pressures(run):
    try:
        return run.solve_pressures(), None
    except Exception as e:      # noqa
        _np_default()
        return None, f"{type(e).__name__}: {str(e)[:160]}"


def coef_pairs(run, vmap=None):
    """(junction, canonical column path) -> coefficient pair, ids mapped back through vmap (new -> old)"""
    f = (lambda v: v) if vmap is None else (lambda v: vmap[v])
    out = {}
    for j, r in run.rows.items():
        for k, p in enumerate(run.cols):
            if p[0] == j or p[-1] == j:
                out[(f(j), canon([f(v) for v in p]))] = (float(run.M[r, k]), float(run.M[r + 1, k]))
    return out


def structure(run, vmap=None):
    f = (lambda v: v) if vmap is None else (lambda v: vmap[v])
    return (sorted(canon([f(v) for v in p]) for p in run.ibe), sorted(canon([f(v) for v in p]) for p in run.cols),
            sorted(f(j) for j in run.rows))


def zero_pattern_ok(run):
    """coefficients of interfaces not ending at the junction are exactly zero"""
    for j, r in run.rows.items():
        for k, p in enumerate(run.cols):
            if p[0] != j and p[-1] != j and (run.M[r, k] != 0 or run.M[r + 1, k] != 0):
                return False
    return True


def compare_runs(spec, run0, run1, t0, fit, lin, vmap, cmap, fails, info, kind, noisy):
    """common comparison of an original (run0) and a transformed / relabelled (run1) inference.
    lin: 2x2 matrix the coefficient pairs must transform with; vmap / cmap: new id -> old id (None = identity)."""
    chk = spec["check"]
    s0, s1 = structure(run0), structure(run1, vmap)
    if s0[0] != s1[0]:
        fails.append(_fail(spec, f"interfaces:{kind}", f"different sets of internal interfaces: {len(s0[0])} vs {len(s1[0])}, e.g. "
                                                       f"{(set(s0[0]) ^ set(s1[0])) and sorted(set(s0[0]) ^ set(s1[0]))[0][:6]}"))
        return
    pe = predicate_ends(run0, t0, fit) + (predicate_ends(run1, run1.tissue, fit) if chk == "B06" else 0)
    excluded = pe > 0
    info["count"]["excluded_sign_forcing" if excluded else "evaluated"] += 1

    def emit(name, detail, mult=False):
        if excluded:
            fails.append(_fail(spec, name + ":sign-forcing", detail + f"  [{pe} interface ends satisfy the sign-forcing predicate]", key=KF_SIGN))
        elif mult:
            fails.append(_fail(spec, name + ":multiplier", detail, key=KF_MULT))
        else:
            fails.append(_fail(spec, name, detail))

    if s0[1] != s1[1] or s0[2] != s1[2]:
        emit(f"equations:{kind}", f"different unknowns / junction sets: columns {len(s0[1])} vs {len(s1[1])}, junctions {len(s0[2])} vs "
                                  f"{len(s1[2])} (only in one: {sorted(set(s0[2]) ^ set(s1[2]))[:5]})")
        return
    if not zero_pattern_ok(run1):
        emit(f"equations-zero-pattern:{kind}", "an interface not ending at a junction has a non-zero coefficient there")
    c0, c1 = coef_pairs(run0), coef_pairs(run1, vmap)
    worst_cls = "two-point"
    worst = None
    for key, a in c0.items():
        j, path = key
        ids = next(p for p in run0.cols if canon(p) == path)
        cls = geom_class(run0.pos, ids, noisy, fit)
        if list(C_TOL).index(cls) > list(C_TOL).index(worst_cls):
            worst_cls = cls
        b = c1[key]
        ea = (lin[0][0] * a[0] + lin[0][1] * a[1], lin[1][0] * a[0] + lin[1][1] * a[1])
        err = max(abs(ea[0] - b[0]), abs(ea[1] - b[1]))
        info["count"]["pairs_" + cls] += 1
        # the transformed tissue is handed over in floating point: its coordinates carry a rounding of 1 ulp of their magnitude, which
        # turns the direction of a chord of length c by up to ~2 ulp(|coordinate|) / c whatever forsys does (far translations, tiny units)
        tol_c = C_TOL[cls]
        try:
            vm_inv = {o: nw for nw, o in vmap.items()} if vmap else None
            pj = run1.pos[vm_inv[j] if vm_inv else j]
            other = ids[1] if ids[0] == j else ids[-2]
            po = run1.pos[vm_inv[other] if vm_inv else other]
            chord = math.hypot(pj[0] - po[0], pj[1] - po[1])
            mag = max(abs(pj[0]), abs(pj[1]), abs(po[0]), abs(po[1]))
            if chord > 0:
                tol_c = max(tol_c, 8 * 2.220446049250313e-16 * mag / chord)
        except Exception:      # noqa
            pass
        if err > tol_c and (worst is None or err > worst[0]):
            worst = (err, cls, f"junction {j}, interface {path[:3]}..{path[-1]} ({len(path)} points, {cls}): pair ({a[0]:.9g}, {a[1]:.9g}) "
                               f"should map to ({ea[0]:.9g}, {ea[1]:.9g}), found ({b[0]:.9g}, {b[1]:.9g}); |diff| {err:.3g} > {tol_c:.3g}")
    if worst is not None:
        if worst[1] == "flat" and worst[0] > 0.05:
            emit(f"coefficient-pairs:flat-fit-breakdown:{fit}", worst[2] + f"  [{kind}]")     # e.g. fitted centre on the line in one presentation
        elif kind.endswith("-far"):
            # the known loss of accuracy of the dlite fit far from the origin stays below 0.05 (2.5e-2 at 1e4 tissue sizes);
            # anything larger is a different failure and gets its own key, so the known finding cannot hide it
            # measured on the unchanged tree over 3473 far cases (thorough tier, seeds 0..5): 145 exceed the tolerance (4.2 %), typically by
            # 3e-6 per tissue size of shift, at worst 3.2e-5 per tissue size (0.0235 at 730) and 0.058 in absolute terms (at 9462).  The first
            # boundary (0.05 / 1e-5 per size, calibrated on the quick sample only) raised a false alarm in the thorough tier; the boundary of
            # the known finding is now twice the worst observed value
            xf = spec.get("xf") or {}
            sr = math.hypot(*[float(v) for v in xf.get("shift_rel", (0.0, 0.0))])
            gross = "-gross" if (worst[0] > 0.12 or worst[0] > 7e-5 * max(sr, 100.0)) else ""
            emit(f"coefficient-pairs:far-translation{gross}:{fit}", worst[2] + f"  [{kind}, {worst[1]}]")
        else:
            emit(f"coefficient-pairs:{kind}:{worst[1]}:{fit}", worst[2])
        return                                            # tensions / pressures would only repeat this
    info["nontrivial"] = not excluded
    # ---- tensions and pressures: only where the optimum is unique and well conditioned
    x0 = np.array([float(run0.forces[i]) for i in range(len(run0.ibe))])
    if len(run0.cols) != len(run0.ibe) or not np.all(np.isfinite(x0)):
        return
    c = certificate(run0.M, x0, None)
    if c is None or not c["unique"]:
        info["count"]["tension_not_compared_optimum_not_unique"] += 1
        return
    tol = 2.0 * C_TOL[worst_cls] * max(1.0, c["cond"])
    # far translations (up to 1e4 tissue sizes) lose ~log10(shift/size) digits of every coordinate difference in floating point:
    # the coefficient tolerance of the class is an absolute bound at the origin, scale it with the relative size of the shift
    if "far" in kind:
        tol *= 100.0
    if tol > T_TOL_MAX:
        info["count"]["tension_not_compared_ill_conditioned"] += 1
        return
    r_fb = fb_residual(run0.M)
    info["r_fb"] = r_fb
    mult = bool(r_fb > 1e-8 * len(x0) and chk == "B06" and spec.get("linear_part"))
    info["count"]["tensions_compared"] += 1
    T0 = run0.tension_by_path()
    T1 = {canon([(v if vmap is None else vmap[v]) for v in p]): val for p, val in run1.tension_by_path().items()}
    dmax, at = 0.0, None
    for p, v in T0.items():
        d = abs(v - T1.get(p, float("nan")))
        if not d <= dmax:
            dmax, at = d, p
    info["dT"] = dmax
    if not dmax <= tol:
        emit(f"tension:{kind}:{worst_cls}:{fit}", f"interface {at[:3]}..{at[-1]}: tension {T0[at]:.9g} vs {T1.get(at):.9g} (|diff| {dmax:.3g} > "
                                                  f"{tol:.3g} = 2 x {C_TOL[worst_cls]:g} x cond {c['cond']:.3g}); optimal residual {c['r_opt']:.3g}",
             mult=mult)
        return
    p0, e0 = solve_pressures(run0)
    p1, e1 = solve_pressures(run1)
    if (p0 is None) != (p1 is None):
        emit(f"pressure-raises-in-one:{kind}", f"solve_pressure: original {e0}, transformed {e1}")
        return
    if p0 is None:
        info["count"]["pressure_step_raises_in_both"] += 1
        return
    p1 = {(cc if cmap is None else cmap[cc]): v for cc, v in p1.items()}
    ptol = 10.0 * tol * max(1.0, max(abs(v) for v in p0.values()))
    info["count"]["pressures_compared"] += 1
    bad = [(abs(p0[cc] - p1.get(cc, float("nan"))), cc) for cc in p0 if not abs(p0[cc] - p1.get(cc, float("nan"))) <= ptol]
    if bad:
        d, cc = max(bad, key=lambda z: (z[0] if z[0] == z[0] else float("inf")))
        emit(f"pressure:{kind}:{worst_cls}:{fit}", f"cell {cc}: pressure {p0[cc]:.9g} vs {p1.get(cc)} (|diff| {d:.3g} > {ptol:.3g})", mult=mult)
    info["nontrivial"] = not excluded


# ======================================================================================================
# B06
# ======================================================================================================
def _case_b06(spec):
    ts, fit, kind = spec["tissue"], spec["fit"], spec["kind"]
    t0 = make_tissue(ts)
    kw = S._resolve_xf(t0, spec["xf"])
    t1 = gen.transform(t0, **kw)
    info = dict(hash=tissue_hash(t0), nontrivial=False, count=Counter())
    fails = []
    run0 = try_run(spec, t0, fails, fit=fit)
    if run0 is None:
        return dict(spec=spec, info=info, fails=fails)
    if not run0.cols or not run0.rows:
        info["count"]["no_equations"] += 1
        return dict(spec=spec, info=info, fails=fails)
    f1 = []
    run1 = try_run(spec, t1, f1, fit=fit)
    if run1 is None:
        for f in f1:
            f["name"] += ":transformed-only"
            f["key"] = f"B06:{f['name']}:{kind}"
            f["detail"] = "the original pose is inferred without error; transformed: " + f["detail"]
        fails.extend(f1)
        return dict(spec=spec, info=info, fails=fails)
    run1.tissue = t1
    ca, sa = math.cos(kw["angle"]), math.sin(kw["angle"])
    r = -1.0 if kw["reflect"] else 1.0
    lin = ((ca, -sa * r), (sa, ca * r))
    compare_runs(spec, run0, run1, t0, fit, lin, None, None, fails, info, kind, bool(t0.meta.get("noisy")))
    return dict(spec=spec, info=info, fails=fails)


# ======================================================================================================
# B07
# ======================================================================================================
def apply_ops(t, ops):
    """shift -> flip -> renumber; returns (tissue, vmap new->old, cmap new->old)"""
    t1 = t
    if ops.get("shift") is not None:
        t1 = gen.shift_cycles(t1, int(ops["shift"]))
    if ops.get("flip"):
        t1 = gen.flip_cells(t1, [c for c in ops["flip"] if c in t1.cells])
    vmap = cmap = None
    if ops.get("renum") is not None:
        t1 = gen.renumber(t1, int(ops["renum"]), gaps=bool(ops.get("gaps", True)))
        vmap = {new: old for old, new in t1.meta["vmap"].items()}
        cmap = {new: old for old, new in t1.meta["cmap"].items()}
    return t1, vmap, cmap


def _case_b07(spec):
    ts, fit, ops = spec["tissue"], spec["fit"], spec["ops"]
    t0 = make_tissue(ts)
    t1, vmap, cmap = apply_ops(t0, ops)
    info = dict(hash=tissue_hash(t0), nontrivial=False, count=Counter())
    fails = []
    run0 = try_run(spec, t0, fails, fit=fit)
    if run0 is None:
        return dict(spec=spec, info=info, fails=fails)
    if not run0.cols or not run0.rows:
        info["count"]["no_equations"] += 1
        return dict(spec=spec, info=info, fails=fails)
    f1 = []
    run1 = try_run(spec, t1, f1, fit=fit)
    kind = "+".join(k for k in ("shift", "flip", "renum") if ops.get(k) not in (None, [], False)) or "identity"
    if run1 is None:
        for f in f1:
            f["name"] += ":relabelled-only"
            f["key"] = f"B07:{f['name']}:{kind}"
        fails.extend(f1)
        return dict(spec=spec, info=info, fails=fails)
    run1.tissue = t1
    compare_runs(spec, run0, run1, t0, fit, ((1.0, 0.0), (0.0, 1.0)), vmap, cmap, fails, info, kind, bool(t0.meta.get("noisy")))
    return dict(spec=spec, info=info, fails=fails)


# ======================================================================================================
# B04
# ======================================================================================================
def _turning_case(spec):
    """hand-built BigEdge on a uniformly sampled circular arc / straight segment"""
    fs = gen.forsys_modules()
    info = dict(hash=None, nontrivial=True, count=Counter())
    fails = []
    n, th, R, a0, ccw, sc = spec["n"], spec["theta"], spec["R"], spec["a0"], spec["ccw"], spec.get("scale", 1.0)
    arclen = R * (th if th else 1.0)
    c = [spec["c"][0] * arclen, spec["c"][1] * arclen]          # centre offset in units of the interface length

    def build(scale, reverse=False):
        vs, es = [], []
        for k in range(n):
            if th == 0:
                x, y = c[0] + R * k / (n - 1) * math.cos(a0), c[1] + R * k / (n - 1) * math.sin(a0)
            else:
                a = a0 + th * k / (n - 1) * (1 if ccw else -1)
                x, y = c[0] + R * math.cos(a), c[1] + R * math.sin(a)
            vs.append(fs.vertex.Vertex(k, scale * x, scale * y))
        if reverse:
            vs = vs[::-1]
        for k in range(n - 1):
            es.append(fs.edge.SmallEdge(k, vs[k], vs[k + 1]))
        be = fs.edge.BigEdge(0, vs)
        _np_default()
        val = float(be.calculate_total_curvature(normalized=False))
        return val, (vs, es, be)

    try:
        v1, keep1 = build(1.0)
        v2, keep2 = build(sc)
        v3, keep3 = build(1.0, reverse=True)
    except Exception as e:      # noqa
        fails.append(_fail(spec, "turning-raises", f"{type(e).__name__}: {str(e)[:200]}"))
        return dict(spec=spec, info=info, fails=fails)
    info["hash"] = f"turn-{n}-{th:.6g}-{R:.6g}-{a0:.6g}-{ccw}"
    if th == 0:
        info["count"]["turning_straight"] += 1
        if abs(v1) > 1e-8 or abs(v2) > 1e-8:
            fails.append(_fail(spec, "turning-straight-nonzero", f"straight {n}-point interface has turning estimate {v1:.3g} (scaled: {v2:.3g})"))
        return dict(spec=spec, info=info, fails=fails)
    want = th * (n - 2) / (n - 1)
    info["count"]["turning_arc"] += 1
    info["ratio"] = abs(v1) / want
    if abs(abs(v1) - want) > 0.03 * want:
        fails.append(_fail(spec, "turning-estimate", f"{n}-point arc turning by {th:.6g} rad: estimate {v1:.9g}, expected magnitude "
                                                     f"theta (n-2)/(n-1) = {want:.9g} within 3 % (ratio {abs(v1) / want:.4f})"))
    if abs(v2 - v1) > 1e-6 * abs(v1) + 1e-12:
        fails.append(_fail(spec, "turning-scale", f"estimate {v1:.12g} becomes {v2:.12g} after scaling all coordinates by {sc:g}"))
    if abs(v3 + v1) > 1e-9 * abs(v1) + 1e-12:
        fails.append(_fail(spec, "turning-reversal", f"estimate {v1:.12g} for the stored order, {v3:.12g} for the reversed order (must be opposite)"))
    return dict(spec=spec, info=info, fails=fails)


def pressure_system(run, tensions):
    """assign the given tensions (dict canonical path -> value) to the internal interfaces, rebuild the pressure system
    with the real code and return plain data: rows [(cells, {cell: coefficient}, rhs)], reported pressures, meta"""
    fr = run.frame
    for be in fr.internal_big_edges:
        be.tension = float(tensions[canon(be.get_vertices_ids())])
    _np_default()
    run.F.build_pressure_matrix(when=0)
    pm = run.F.pressure_matrices[0]
    L = np.array(pm.lhs_matrix, dtype=float)
    rhs = np.array(pm.rhs_matrix, dtype=float)
    order = {int(c): int(k) for c, k in pm.mapping_order.items()}
    removed = [int(k) for k in pm.removed_columns]
    full = np.zeros((L.shape[0], len(order)))
    keepcols = [k for k in range(len(order)) if k not in set(removed)]
    if L.shape[1] == len(keepcols):
        full[:, keepcols] = L
    cell_of = {k: c for c, k in order.items()}
    rows = []
    for i in range(full.shape[0]):
        rows.append(({cell_of[k]: float(full[i, k]) for k in np.nonzero(full[i])[0]}, float(rhs[i])))
    run.F.solve_pressure(when=0, method="lagrange_pressure")
    df = fr.get_pressures()
    p = {int(c): float(v) for c, v in zip(df["id"], df["pressure"])}
    _np_default()
    return rows, p, dict(L=L, rhs=rhs, removed=[cell_of[k] for k in removed], shape_ok=(L.shape[1] == len(keepcols)))


def normalised_equations(run, rows):
    """frozenset(cells) -> rhs with the sign convention '+1 on the smaller cell id'; None if a row is malformed"""
    out = {}
    for be, (coef, rhs) in zip(run.frame.internal_big_edges, rows):
        if sorted(coef.values()) != [-1.0, 1.0]:
            return None
        a = min(coef)
        out[(frozenset(coef), canon(be.get_vertices_ids()))] = rhs * coef[a]
    return out


def cells_connected(itfs):
    """(cells with an internal interface, do the internal interfaces link them into one group)"""
    cells = set()
    for i in itfs:
        cells.update(i["cells"])
    parent = {c: c for c in cells}

    def find(c):
        while parent[c] != c:
            parent[c] = parent[parent[c]]
            c = parent[c]
        return c
    for i in itfs:
        a, b = i["cells"]
        parent[find(a)] = find(b)
    return cells, len({find(c) for c in cells}) == 1


def _tissue_case_b04(spec):
    ts, fit = spec["tissue"], spec["fit"]
    t = make_tissue(ts)
    tr = Truth(t)
    info = dict(hash=tissue_hash(t), nontrivial=False, count=Counter())
    fails = []
    run = try_run(spec, t, fails, fit=fit, solve=False)
    if run is None:
        return dict(spec=spec, info=info, fails=fails)
    if not run.ibe:
        info["count"]["no_internal_interface"] += 1
        return dict(spec=spec, info=info, fails=fails)
    itfs = [tr.find(p) for p in run.ibe]
    want = sorted(canon(i["path"]) for i in tr.internal)
    if sorted(canon(p) for p in run.ibe) != want:
        fails.append(_fail(spec, "rows-not-the-internal-interfaces", f"the pressure step works on {len(run.ibe)} interfaces "
                                                                     f"(Frame.internal_big_edges), the tissue has {len(want)} internal interfaces"))
        return dict(spec=spec, info=info, fails=fails)
    if any(i is None or i["tension"] is None for i in itfs):
        info["rejected"] = True
        return dict(spec=spec, info=info, fails=fails)
    mean_t = float(np.mean([i["tension"] for i in itfs]))
    true_T = {canon(p): i["tension"] / mean_t for p, i in zip(run.ibe, itfs)}
    try:
        rows, p, meta = pressure_system(run, true_T)
    except Exception as e:      # noqa
        fails.append(_fail(spec, "pressure-step-raises", f"{type(e).__name__}: {str(e)[:200]}"))
        return dict(spec=spec, info=info, fails=fails)
    cells_with = set()
    # ---- row structure and right-hand side
    for ids, itf, (coef, rhs) in zip(run.ibe, itfs, rows):
        cells_with.update(itf["cells"])
        info["count"]["rows"] += 1
        if set(coef) != set(itf["cells"]) or sorted(coef.values()) != [-1.0, 1.0]:
            fails.append(_fail(spec, "row-structure", f"interface {ids[:3]}..{ids[-1]} separates cells {itf['cells']}; row has coefficients {coef}"))
            continue
        T = true_T[canon(ids)]
        n = len(ids)
        theta = S.arc_turning(t, itf)
        a, b = itf["cells"]
        dp = t.pressures[a] - t.pressures[b]
        if itf["kind"] == "straight" or n == 2:
            info["count"]["rows_straight"] += 1
            if abs(rhs) > 1e-8 * T:
                fails.append(_fail(spec, "rhs-straight-nonzero", f"straight / two-point interface {ids[:3]}..{ids[-1]} ({n} points): right-hand side {rhs:.3g}"))
            continue
        if itf["kind"] != "arc" or abs(dp) < 1e-12 * mean_t / max(S.tissue_size(t), 1e-300) or theta < 0.02:
            continue
        centre_side = a if dp > 0 else b
        val = rhs * coef[centre_side]                      # equation written as p(centre side) - p(other) = val
        info["count"]["rows_curved"] += 1
        if not val > 0:
            fails.append(_fail(spec, "rhs-sign", f"interface {ids[:3]}..{ids[-1]} ({n} points, turning {theta:.4g} rad): the equation reads "
                                                 f"p(cell {centre_side}, centre-of-curvature side) - p(other) = {val:.6g}, must be tension x turning > 0"))
            continue
        if ts.get("resample") is not None and theta <= 1.5:
            want = T * theta * (n - 2) / (n - 1)
            info["count"]["rows_uniform_arc"] += 1
            if abs(val - want) > 0.03 * want:
                fails.append(_fail(spec, "rhs-magnitude", f"uniformly sampled {n}-point arc turning {theta:.5g} rad, tension {T:.5g}: right-hand side "
                                                          f"{val:.6g}, expected tension x turning x (n-2)/(n-1) = {want:.6g} within 3 %"))
    if any(f["name"] in ("row-structure",) for f in fails):
        return dict(spec=spec, info=info, fails=fails)
    # ---- cells without internal interface
    lonely = [c for c in t.cells if c not in cells_with]
    if lonely:
        info["count"]["cells_without_internal_interface"] += len(lonely)
        badl = [c for c in lonely if not abs(p[c]) <= 1e-12]
        if badl:
            fails.append(_fail(spec, "lonely-cell-nonzero", f"cell {badl[0]} touches no internal interface but has pressure {p[badl[0]]!r}"))
    # ---- connectivity of the cells that have an internal interface
    _, connected = cells_connected(itfs)
    if not connected:
        info["count"]["not_connected_not_judged"] += 1
        return dict(spec=spec, info=info, fails=fails)
    cl = sorted(cells_with)
    pv = np.array([p[c] for c in cl])
    if not np.all(np.isfinite(pv)):
        fails.append(_fail(spec, "pressure-nonfinite", f"reported pressures {pv[:5]}"))
        return dict(spec=spec, info=info, fails=fails)
    scale = max(1.0, float(np.abs(pv).max()))
    # zero sum, least squares
    Lf = np.zeros((len(rows), len(cl)))
    rv = np.zeros(len(rows))
    for i, (coef, rhs) in enumerate(rows):
        for c, v in coef.items():
            Lf[i, cl.index(c)] = v
        rv[i] = rhs
    with np.errstate(all="ignore"):
        own = np.linalg.pinv(Lf) @ rv
        sv = svals(Lf)
    cond = float(sv[0] / sv[len(cl) - 2]) if len(cl) >= 2 and sv[len(cl) - 2] > 0 else 1.0
    info["count"]["zero_sum_ls_checked"] += 1
    if abs(pv.sum()) > 1e-8 * scale * len(cl):
        fails.append(_fail(spec, "zero-sum", f"sum of the reported pressures = {pv.sum():.3g} over {len(cl)} connected cells (max |p| {np.abs(pv).max():.3g})"))
    if np.abs(pv - own).max() > 1e-8 * scale * max(1.0, cond ** 2):
        k = int(np.abs(pv - own).argmax())
        fails.append(_fail(spec, "least-squares", f"cell {cl[k]}: reported {pv[k]:.9g}, zero-sum least-squares solution of the assembled rows {own[k]:.9g}"))
    # straight-edged tissue: all pressures vanish
    if all(i["kind"] == "straight" for i in itfs):
        info["count"]["straight_tissue"] += 1
        if np.abs(pv).max() > 1e-8:
            fails.append(_fail(spec, "straight-pressure-nonzero", f"straight-edged tissue: max |pressure| = {np.abs(pv).max():.3g} (mean tension 1)"))
    # linearity
    rng = np.random.default_rng(spec.get("lseed", 0))
    keys = list(true_T)
    T1 = {k: float(v) for k, v in zip(keys, rng.uniform(0.2, 3.0, len(keys)))}
    T2 = {k: float(v) for k, v in zip(keys, rng.uniform(0.2, 3.0, len(keys)))}
    ca, cb = float(rng.uniform(-2, 2)), float(rng.uniform(-2, 2))
    try:
        _, p1, _ = pressure_system(run, T1)
        _, p2, _ = pressure_system(run, T2)
        _, p3, _ = pressure_system(run, {k: ca * T1[k] + cb * T2[k] for k in keys})
        info["count"]["linearity_checked"] += 1
        sc = max(1.0, max(abs(v) for v in list(p1.values()) + list(p2.values())))
        badc = [c for c in p3 if not abs(p3[c] - (ca * p1[c] + cb * p2[c])) <= 1e-8 * sc * max(1.0, cond ** 2)]
        if badc:
            c = badc[0]
            fails.append(_fail(spec, "linearity", f"cell {c}: p(a T1 + b T2) = {p3[c]:.9g} but a p(T1) + b p(T2) = {ca * p1[c] + cb * p2[c]:.9g} (a={ca:.3g}, b={cb:.3g})"))
    except Exception as e:      # noqa
        fails.append(_fail(spec, "pressure-step-raises", f"with hand-assigned tensions: {type(e).__name__}: {str(e)[:200]}"))
    # correlation with the analytic pressures
    npts = min(len(pth) for pth in run.ibe)
    ap = np.array([t.pressures[c] for c in cl])
    curved = t.meta.get("kind") == "moebius" and t.pressures_consistent
    if curved and npts >= 5 and len(cl) >= 4 and ap.std() > 1e-9 * abs(ap).max() and pv.std() > 0:
        r_hand = float(np.corrcoef(pv, ap)[0, 1])
        info["count"]["correlation_hand_tensions"] += 1
        info["r_hand"] = r_hand
        if not r_hand >= 0.9:
            fails.append(_fail(spec, "correlation:true-tensions", f"Pearson r = {r_hand:.4f} < 0.9 between reported and analytic pressures over {len(cl)} "
                                                                  f"cells ({npts}+ points per interface, true tensions assigned)"))
        # the whole pipeline (inferred tensions), when the tensions are determined and no sign forcing interferes
        f2 = []
        run2 = try_run(spec, t, f2, fit=fit)
        if run2 is not None and run2.rows and len(run2.cols) == len(run2.ibe):
            A, ok = S.analytic_matrix(tr, run2)
            uniq = ok and S.uniqueness(A)[0] and svals(S.aug_system(A)[0])[-1] > 1e-9 and A.shape[0] >= A.shape[1]
            pe = S.sign_forcing_ends(tr, run2)
            if uniq:
                pp, err = solve_pressures(run2)
                if pp is None:
                    fails.append(_fail(spec, "pressure-step-raises", f"after solve_stress: {err}"))
                else:
                    qv = np.array([pp[c] for c in cl])
                    r_pipe = float(np.corrcoef(qv, ap)[0, 1]) if qv.std() > 0 else float("nan")
                    info["r_pipe"] = r_pipe
                    info["count"]["correlation_pipeline_excluded_sign_forcing" if pe else "correlation_pipeline"] += 1
                    if not r_hand >= 0.9:
                        fails[-1]["detail"] += f"; with the tensions inferred by solve_stress r = {r_pipe:.4f}"
                    elif not r_pipe >= 0.9:
                        if pe:
                            fails.append(_fail(spec, "correlation:pipeline:sign-forcing", f"Pearson r = {r_pipe:.4f} < 0.9 ({pe} ends satisfy the predicate)", key=KF_SIGN))
                        else:
                            fails.append(_fail(spec, "correlation:pipeline", f"Pearson r = {r_pipe:.4f} < 0.9 between inferred and analytic pressures "
                                                                             f"over {len(cl)} cells; with the true tensions r = {r_hand:.4f}"))
            else:
                info["count"]["correlation_pipeline_skipped_not_unique"] += 1
    info["nontrivial"] = True
    return dict(spec=spec, info=info, fails=fails)


def _orient_case_b04(spec):
    """the pressure equations of a tissue and of a variant (flipped cells / reversed construction order / shifted cycles)
    must be the same up to the overall sign of each row"""
    ts, fit, ops = spec["tissue"], spec["fit"], spec["ops"]
    t0 = make_tissue(ts)
    t1 = t0
    if ops.get("shift") is not None:
        t1 = gen.shift_cycles(t1, int(ops["shift"]))
    if ops.get("flip"):
        t1 = gen.flip_cells(t1, [c for c in ops["flip"] if c in t1.cells])
    if ops.get("cellorder") is not None:
        t1 = S.reorder_cells(t1, ops["cellorder"])
    info = dict(hash=tissue_hash(t0), nontrivial=False, count=Counter())
    fails = []
    tr = Truth(t0)
    eqs = []
    for t in (t0, t1):
        run = try_run(spec, t, fails, fit=fit, solve=False)
        if run is None:
            return dict(spec=spec, info=info, fails=fails)
        if not run.ibe:
            info["count"]["no_internal_interface"] += 1
            return dict(spec=spec, info=info, fails=fails)
        itfs = [tr.find(p) for p in run.ibe]
        if any(i is None or i["tension"] is None for i in itfs):
            info["rejected"] = True
            return dict(spec=spec, info=info, fails=fails)
        mt = float(np.mean([i["tension"] for i in itfs]))
        try:
            rows, p, meta = pressure_system(run, {canon(pp): i["tension"] / mt for pp, i in zip(run.ibe, itfs)})
        except Exception as e:      # noqa
            fails.append(_fail(spec, "pressure-step-raises", f"{type(e).__name__}: {str(e)[:200]}"))
            return dict(spec=spec, info=info, fails=fails)
        eqs.append((normalised_equations(run, rows), p, cells_connected(itfs)[1]))
    (e0, p0, conn), (e1, p1, _) = eqs
    kind = "+".join(k for k in ("shift", "flip", "cellorder") if ops.get(k) not in (None, [], False)) or "identity"
    if e0 is None or e1 is None:
        fails.append(_fail(spec, "row-structure", "a row does not consist of one +1 and one -1"))
        return dict(spec=spec, info=info, fails=fails)
    if set(e0) != set(e1):
        fails.append(_fail(spec, f"equation-set:{kind}", f"different (cell pair, interface) sets: {len(e0)} vs {len(e1)}"))
        return dict(spec=spec, info=info, fails=fails)
    info["count"]["equations_compared"] += len(e0)
    info["count"]["curved_equations_compared"] += sum(1 for k in e0 if abs(e0[k]) > 1e-6)
    bad = [(abs(e0[k] - e1[k]), k) for k in e0 if not abs(e0[k] - e1[k]) <= 1e-9 * max(1.0, abs(e0[k]))]
    if bad:
        d, k = max(bad, key=lambda z: z[0])
        fails.append(_fail(spec, f"equation-orientation:{kind}", f"interface {k[1][:3]}..{k[1][-1]} between cells {sorted(k[0])}: "
                                                                 f"p({min(k[0])}) - p({max(k[0])}) = {e0[k]:.9g} originally, {e1[k]:.9g} in the variant "
                                                                 f"({len(bad)} of {len(e0)} equations differ)"))
    elif not conn:
        info["count"]["pressures_not_compared_not_connected"] += 1
    else:
        info["count"]["variant_pressures_compared"] += 1
        dp = max(abs(p0[c] - p1[c]) for c in p0)
        if dp > 1e-8 * max(1.0, max(abs(v) for v in p0.values())):
            fails.append(_fail(spec, f"pressure-orientation:{kind}", f"same equations but pressures differ by {dp:.3g}"))
    info["nontrivial"] = any(abs(v) > 1e-6 for v in e0.values())
    return dict(spec=spec, info=info, fails=fails)


def _case_b04(spec):
    return dict(turning=_turning_case, tissue=_tissue_case_b04, orient=_orient_case_b04)[spec["kind"]](spec)


# ======================================================================================================
# case generation
# ======================================================================================================
_fit_for = S.pick_fit


def cases_b06(tier, seed):
    rng = np.random.default_rng(seed + 606)
    n = 600 if tier == "quick" else 5000
    out = []
    for i in range(n):
        u = rng.random()
        if u < 0.3:                                            # straight equilibrium
            ts = S.small_tissue_spec(rng, [0, 0, 0, 1, 3, 6], subset_p=0.15, vor_subset_p=0.4, vor_n=(25,))
        elif u < 0.6:                                          # curved equilibrium
            ts = S.small_tissue_spec(rng, [2, 4, 8, 15], moebius=float(rng.choice([0.3, 0.6, 0.9])), subset_p=0.15, vor_subset_p=0.4, vor_n=(25,))
        elif u < 0.8:                                          # noisy polygonal
            ts = S.small_tissue_spec(rng, [0], subset_p=0.15, vor_subset_p=0.4, vor_n=(25,))
            ts["noise"] = dict(sigma=float(rng.choice([0.02, 0.1, 0.25])), seed=int(rng.integers(1 << 30)))
        else:                                                  # noisy curved
            ts = S.small_tissue_spec(rng, [3, 5, 9], moebius=float(rng.choice([0.6, 0.9])), subset_p=0.15, vor_subset_p=0.4, vor_n=(25,))
            ts["noise"] = dict(sigma=float(rng.choice([0.01, 0.03])), seed=int(rng.integers(1 << 30)))
        if rng.random() < 0.5:
            ts["xf"] = dict(angle=float(rng.uniform(0, 2 * math.pi)))           # base pose
        kind = str(rng.choice(["translate", "rotate", "reflect", "scale", "mixed"]))
        x = {}
        if kind in ("translate", "mixed"):
            mag = 10 ** rng.uniform(-1, 4)
            a = rng.uniform(0, 2 * math.pi)
            x["shift_rel"] = [float(mag * math.cos(a)), float(mag * math.sin(a))]
        if kind in ("rotate", "mixed") or (kind == "reflect" and rng.random() < 0.5):
            if rng.random() < 0.25:
                x["align"] = dict(iface=int(rng.integers(40)), end=int(rng.integers(2)), axis=int(rng.integers(4)),
                                  delta=float(rng.choice([0.0, 1e-9, 1e-4, 2e-3]) * rng.choice([-1, 1])))
            else:
                x["angle"] = float(rng.uniform(0, 2 * math.pi))
        if kind == "reflect" or (kind == "mixed" and rng.random() < 0.5):
            x["reflect"] = True
        if kind in ("scale", "mixed"):
            x["scale"] = float(10 ** rng.uniform(-5, 3))
        far = "-far" if ("shift_rel" in x and math.hypot(*x["shift_rel"]) > 300) else ""
        out.append(dict(check="B06", tissue=ts, xf=x, kind=kind + far, fit=_fit_for(rng, ts),
                        linear_part=bool("angle" in x or "align" in x or x.get("reflect"))))
    # dedicated family: curved equilibrium tissues with the iterative (dlite) fit, translated by 1e3 .. 1e4 tissue sizes - the
    # circle fit works on absolute coordinates, so its accuracy far from the origin is what this family watches
    for i in range(80 if tier == "quick" else 400):
        ts = S.small_tissue_spec(rng, [2, 4, 8, 15], moebius=float(rng.choice([0.3, 0.6, 0.9])), subset_p=0.15, vor_subset_p=0.4, vor_n=(25,))
        mag, a = float(rng.choice([1e3, 3e3, 1e4])), rng.uniform(0, 2 * math.pi)
        out.append(dict(check="B06", tissue=ts, xf=dict(shift_rel=[float(mag * math.cos(a)), float(mag * math.sin(a))]), kind="translate-far",
                        fit="dlite", linear_part=False))
    return out


_SMALL = None


def small_tissues():
    """sub-tissues with <= 6 cells that have at least one equation pair: (base, subset)"""
    global _SMALL
    if _SMALL is None:
        _SMALL = [(b, s) for b in ("flower", "hex_patch") for s in S.base_subsets(b) if len(s) <= 6]
    return _SMALL


def cases_b07(tier, seed):
    rng = np.random.default_rng(seed + 707)
    n_rand, n_all = (600, 8) if tier == "quick" else (4500, 40)
    out = []

    def tissue(small=False):
        u = rng.random()
        if small:
            b, s = small_tissues()[int(rng.integers(len(small_tissues())))]
            ts = dict(base=b, seed=int(rng.integers(50)), subset=[int(c) for c in s], pts=int(rng.choice([0, 2, 5])))
            if rng.random() < 0.6 and ts["pts"] >= 2:
                ts["moebius"], ts["mseed"] = float(rng.choice([0.5, 0.9])), int(rng.integers(1000))
        elif u < 0.35:
            ts = S.small_tissue_spec(rng, [0, 0, 1, 3, 6], subset_p=0.2, vor_subset_p=0.4, vor_n=(25,))
        elif u < 0.75:
            ts = S.small_tissue_spec(rng, [2, 4, 8, 15], moebius=float(rng.choice([0.3, 0.6, 0.9])), subset_p=0.2, vor_subset_p=0.4, vor_n=(25,))
        else:
            ts = S.small_tissue_spec(rng, [0, 3], subset_p=0.2, vor_subset_p=0.4, vor_n=(25,))
            ts["noise"] = dict(sigma=float(rng.choice([0.02, 0.1])), seed=int(rng.integers(1 << 30)))
            if ts["pts"]:
                ts["moebius"], ts["mseed"] = 0.8, int(rng.integers(1000))
        if rng.random() < 0.5:
            ts["xf"] = dict(angle=float(rng.uniform(0, 2 * math.pi)))
        return ts
    for _ in range(n_all):                                    # every orientation pattern of a small tissue
        ts = tissue(small=True)
        cells = ts["subset"]
        fit = _fit_for(rng, ts)
        for k in range(1, 2 ** len(cells)):
            flip = [c for i, c in enumerate(cells) if (k >> i) & 1]
            out.append(dict(check="B07", tissue=ts, fit=fit, ops=dict(flip=flip)))
    for _ in range(n_rand):
        ts = tissue()
        ops = {}
        u = rng.random()
        if u < 0.25 or u >= 0.75:
            ops["renum"], ops["gaps"] = int(rng.integers(1 << 30)), bool(rng.random() < 0.7)
        if 0.25 <= u < 0.5 or u >= 0.75:
            ops["shift"] = int(rng.integers(1 << 30))
        if 0.5 <= u:
            t = make_tissue(dict(ts, pts=0, moebius=None, noise=None, xf=None))
            ids = list(t.cells)
            ops["flip"] = [int(c) for c in ids if rng.random() < 0.5] or [int(ids[0])]
        out.append(dict(check="B07", tissue=ts, fit=_fit_for(rng, ts), ops=ops))
    return out


def cases_b04(tier, seed):
    rng = np.random.default_rng(seed + 404)
    n_turn, n_tis, n_or = (400, 500, 400) if tier == "quick" else (3000, 3800, 2800)
    out = []
    for n in range(3, 18):                                     # grid: every n, turning up to 1.5
        for th in (0.0, 1e-3, 0.05, 0.4, 1.0, 1.5):
            out.append(dict(check="B04", kind="turning", n=n, theta=th, R=1.0, a0=0.3, c=[0.0, 0.0], ccw=True, scale=1000.0))
    for _ in range(n_turn):
        out.append(dict(check="B04", kind="turning", n=int(rng.integers(3, 18)),
                        theta=float(0.0 if rng.random() < 0.15 else 10 ** rng.uniform(-3, math.log10(1.5))),
                        R=float(10 ** rng.uniform(-2, 3)), a0=float(rng.uniform(0, 2 * math.pi)),
                        c=[float(v) for v in rng.uniform(-30, 30, 2)], ccw=bool(rng.random() < 0.5),
                        scale=float(10 ** rng.uniform(-3, 3))))
    for _ in range(n_tis):
        u = rng.random()
        if u < 0.55:
            ts = S.small_tissue_spec(rng, [3, 4, 6, 9, 15], moebius=float(rng.choice([0.3, 0.5, 0.7, 0.9])), subset_p=0.45)
            if rng.random() < 0.4:
                ts["resample"] = int(rng.integers(1, 16))
        elif u < 0.75:
            ts = S.small_tissue_spec(rng, [1, 2], moebius=float(rng.choice([0.5, 0.9])), subset_p=0.45)
            ts["resample"] = int(rng.integers(1, 16))
        else:
            ts = S.small_tissue_spec(rng, [0, 1, 2, 5, 15], subset_p=0.5)
        if rng.random() < 0.6:
            ts["xf"] = dict(angle=float(rng.uniform(0, 2 * math.pi)), reflect=bool(rng.random() < 0.3), scale=float(10 ** rng.uniform(-3, 3)))
        if rng.random() < 0.4:
            t = make_tissue(dict(ts, pts=0, moebius=None, resample=None, xf=None))
            ts["flip"] = [int(c) for c in t.cells if rng.random() < 0.5]
        out.append(dict(check="B04", kind="tissue", tissue=ts, fit="dlite", lseed=int(rng.integers(1 << 30))))
    for _ in range(n_or):
        ts = S.small_tissue_spec(rng, [1, 3, 6, 12], moebius=float(rng.choice([0.4, 0.7, 0.9])), subset_p=0.5)
        if rng.random() < 0.3:
            ts["xf"] = dict(angle=float(rng.uniform(0, 2 * math.pi)), reflect=bool(rng.random() < 0.5))
        t = make_tissue(dict(ts, pts=0, moebius=None, xf=None))
        ops = {}
        u = rng.random()
        if u < 0.6:
            ids = list(t.cells)
            ops["flip"] = [int(c) for c in ids if rng.random() < 0.5] or [int(ids[0])]
        if u >= 0.4:
            ops["cellorder"] = "reverse" if rng.random() < 0.5 else int(rng.integers(1 << 30))
        if rng.random() < 0.3:
            ops["shift"] = int(rng.integers(1 << 30))
        out.append(dict(check="B04", kind="orient", tissue=ts, fit="dlite", ops=ops))
    return out


# ======================================================================================================
# registration
# ======================================================================================================
_CASE = dict(B06=_case_b06, B07=_case_b07, B04=_case_b04)


def _run_case(spec):
    return S.guarded(_CASE[spec["check"]], spec)


@bounded("B06", ["C06"], "similarity invariance of tensions, pressures and coefficient pairs",
         bound="straight and Moebius equilibrium tissues and noisy tissues (two-point interfaces with noise 0.02..0.25, arcs with "
               "noise 0.01..0.03 mesh-edge lengths), whole and sub-tissues of the hexagonal patch / flower / 25-40-site Voronoi; "
               "transformation kinds translate (0.1..1e4 tissue sizes, any direction), rotate (uniform or a tangent 0..2e-3 rad "
               "from an axis), reflect (with/without rotation), scale (1e-3..1e3), mixed; quick 600 pairs, thorough 5000")
def run_b06(tier, seed):
    res, nr = S.run_all(cases_b06(tier, seed), _run_case, S._budget(tier, 3))
    out = _run_b06_aggregate(res, nr)
    # The known loss of accuracy of the dlite fit far from the origin is a RARE event on the unchanged tree (1-2 % of the far
    # cases, error <= 2.5e-2).  A frequency above 6 % is a different failure and gets its own key, so that the known finding
    # cannot hide a fit that has become inaccurate far from the origin in general.
    far = [r for r in res if str(r["spec"].get("kind", "")).endswith("-far") and r["spec"].get("fit") == "dlite"]
    bad = [r for r in far if any("far-translation" in f["key"] for f in r["fails"])]
    out.setdefault("far_translation_cases", len(far))
    out["far_translation_failing"] = len(bad)
    if len(far) >= 40 and len(bad) >= 5 and len(bad) > 0.06 * len(far):      # needs a sample large enough for a frequency statement
        out["failures"].append(dict(key="B06:coefficient-pairs:far-translation-frequent:dlite", name="far-translation-frequent",
                                    input=bad[0]["spec"], detail=f"{len(bad)} of {len(far)} far-translated dlite cases have a coefficient error above tolerance "
                                                                 f"(unchanged tree: 1-2 %)"))
    return out


def _run_b06_aggregate(res, nr):
    return S.aggregate(res, nr,
                       "case = (tissue, transformation): inference on both poses with the default back-end. Same internal interfaces, "
                       "unknowns and junctions; every coefficient pair maps with the linear part of the transformation within "
                       f"{C_TOL} per interface class (two-point / arc / flat = >=3 points turning < {FLAT_TURN:g} rad); tensions per "
                       "interface (matched by vertex path) within 2 x (tolerance of the worst class present) x cond, cond = "
                       "sigma_max/sigma_min of the augmented system of the original pose, compared only if that system has full column "
                       f"rank (sigma_min >= 1e-6 sigma_max) and the tolerance is <= {T_TOL_MAX:g}; pressures per cell within 10 x that. "
                       f"Cases with a sign-forcing predicate end in either pose are excluded ({KF_SIGN} if they fail); tension / pressure "
                       f"differences under rotation / reflection of systems with optimal residual > 1e-8 are keyed {KF_MULT}. "
                       "non-trivial = compared and not excluded")


@bounded("B07", ["C07"], "independence of vertex / edge / cell ids, cycle start and cell orientation",
         bound="every non-empty orientation pattern (2^cells - 1) of 8 (quick) / 40 (thorough) random sub-tissues with <= 6 cells; "
               "random tissues (straight, Moebius, noisy; hexagonal patch / flower / Voronoi, whole and subsets) with random "
               "renumbering (with and without gaps), cycle shifts, random flips and their combinations; quick ~900, thorough ~6000")
def run_b07(tier, seed):
    res, nr = S.run_all(cases_b07(tier, seed), _run_case, S._budget(tier, 3))
    return S.aggregate(res, nr,
                       "case = (tissue, shift / flip / renumber): inference on both presentations; ids of the second are mapped back. "
                       "Same internal interfaces (vertex paths), same unknowns and junctions, coefficient pairs equal within "
                       f"{C_TOL} per class, tensions per interface and pressures per cell as in B06 (only for a unique, well "
                       "conditioned optimum). non-trivial = compared and no sign-forcing predicate end")


@bounded("B04", ["C04"], "pressure step: rows, turning estimate, zero-sum least squares, linearity, correlation",
         bound="turning estimate: hand-built interfaces, n = 3..17 points x turning {0, 1e-3, 0.05, 0.4, 1, 1.5} plus random (n, "
               "turning 1e-3..1.5, radius 1e-2..1e3, position, sense, scale 1e-3..1e3); tissues: Moebius images (3..15 points, "
               "optionally resampled uniformly to 1..15 points) and straight tissues, whole / sub-tissues, random pose, random "
               "flipped cells, true tensions assigned by hand; orientation variants: flipped cells, reversed / permuted "
               "construction order, shifted cycles; quick ~1390 cases, thorough ~9700")
def run_b04(tier, seed):
    res, nr = S.run_all(cases_b04(tier, seed), _run_case, S._budget(tier, 3))
    return S.aggregate(res, nr,
                       "turning: |estimate| = theta (n-2)/(n-1) within 3 %, 0 (<= 1e-8) for straight, unchanged (1e-6) by scaling, "
                       "opposite for the reversed point order. tissue (true tensions / mean assigned to BigEdge.tension): every row has "
                       "+1/-1 exactly on the interface's two cells; written as p(centre-of-curvature side) - p(other) the right-hand side "
                       "is > 0 for arcs turning >= 0.02 rad (side from the analytic pressures) and = tension x theta (n-2)/(n-1) within "
                       "3 % on uniformly resampled arcs; 0 (1e-8) for straight / two-point interfaces; cells without internal interface "
                       "report 0; if the internal interfaces connect their cells: |sum p| <= 1e-8, p = pinv(L) r within 1e-8 cond^2, "
                       "linear in the tensions (1e-8 cond^2), all ~0 (1e-8) on straight tissues; Pearson r >= 0.9 with the analytic "
                       "pressures on Moebius tissues with >= 5 points per interface and >= 4 cells, with the true tensions and (if "
                       f"force balance determines the tensions and no sign-forcing end exists; else keyed {KF_SIGN}) with the inferred "
                       "ones. orient: equations p(a) - p(b) = rhs per (cell pair, interface) identical (1e-9) between a tissue and "
                       "its flipped / reordered / shifted variant. non-trivial = at least one curved equation or turning case")


def replay(failure):
    spec = failure["input"]
    r = _run_case(spec)
    for f in r["fails"]:
        print("still failing:", f["key"], "-", f["detail"][:600])
    return not r["fails"]
