"""Bounded stand-ins for the dynamic / history properties:
B13 (C13 velocities), B12 (C12 vertex tracking), B03 (C03 dynamic recovery with an exactly known answer),
B10 (C10 results are a pure function of frame data and the last call's arguments).

Every case is a small JSON-able `spec`; `_run_case(spec)` regenerates the time series from it (synthetic tissues of
bounded/gen.py, every frame built from its own Tissue, independently renumbered), drives the REAL forsys code and
compares with expectations computed here from plain data.  `replay(failure)` re-runs the spec stored in a failure.
Set FVC_REPO to test a scratch copy of forsys.
"""
import contextlib
import io
import json
import math
import multiprocessing as mp
import os
import signal
import sys
import time
import traceback
import warnings
from collections import Counter, defaultdict

if os.environ.get("FVC_REPO"):
    sys.path.insert(0, os.environ["FVC_REPO"])

import numpy as np

from fvc.registry import bounded
from bounded import gen

NPROC = 16
CASE_CAP = 150                     # seconds per case (hard cap through SIGALRM inside the worker)
_NP_ERR = dict(divide="warn", over="warn", under="ignore", invalid="warn")     # numpy defaults (forsys sets 'raise')

# tracking premise of C12 / C13 ("inside the tracking bounds"); generated fields keep a margin below these
LIM_SPACING = 0.5                  # junction displacement < 0.5 * smallest junction spacing
LIM_EXTENT = 0.08                  # ... and < 8 % of the tissue extent
LIM_SHAPE = 0.10                   # bounding box shape change < 10 % of the extent
MARGIN = 0.9

KF_SIGN = "KF-C02-sign-forcing"
KF_FIX = "KF-C05-fix-stress"
K_STALE = "stale-tension-on-excluded-interface"
K_LSQX = "lsq-with-exclusion-raises"
K_LSQLIN = "lsq_linear-underflow-raises"          # forsys' np.seterr(all='raise') + scipy lsq_linear touching the bound 0
K_PNONE = "solve_pressure-without-method-raises"


def _fs():
    return gen.forsys_modules()


def _fsenv():
    """numpy error state in which forsys code runs in a normal process: `import forsys` (and every solve) executes
    np.seterr(all='raise').  The harness' own numerics run under numpy's defaults (see _run_case)."""
    return np.errstate(all="raise")


class _Timeout(Exception):
    pass


def _alarm(signum, frame):
    raise _Timeout()


# ======================================================================================================
# tissues and series
# ======================================================================================================
def make_base(ts):
    """base tissue of a spec: dict(kind='voronoi', n, seed, pts) | dict(kind in hex_patch/flower/strip, seed, pts),
    optional moebius=dict(strength, seed), rot=angle"""
    kind = ts["kind"]
    pts = int(ts.get("pts", 0))
    if kind == "voronoi":
        t = gen.voronoi_tissue(int(ts["n"]), int(ts["seed"]), pts)
    elif kind in gen.BASE_TISSUES:
        t = gen.BASE_TISSUES[kind](seed=int(ts["seed"]), pts=pts)
    else:
        raise ValueError(kind)
    if ts.get("moebius"):
        t = gen.moebius_image(t, float(ts["moebius"]["strength"]), int(ts["moebius"]["seed"]))
    if ts.get("rot"):
        t = gen.transform(t, angle=float(ts["rot"]))
    return t


def cells_of_vertex(t):
    out = defaultdict(set)
    for c, cyc in t.cells.items():
        for v in cyc:
            out[v].add(c)
    return out


def border_cells(t):
    """cells having a mesh edge that belongs to no other cell"""
    out = []
    ec = t.edge_cells()
    for c, cyc in t.cells.items():
        n = len(cyc)
        if any(len(ec[frozenset((cyc[i], cyc[(i + 1) % n]))]) == 1 for i in range(n)):
            out.append(c)
    return out


def with_positions(t, P):
    out = t.copy()
    out.vertices = {v: (float(P[v][0]), float(P[v][1])) for v in t.vertices}
    out._derived = None
    return out


def reorder_vertices(t, seed):
    """same tissue, vertex dictionary in a random order (forsys iterates dictionaries)"""
    rng = np.random.default_rng(seed)
    ids = list(t.vertices)
    perm = [ids[i] for i in rng.permutation(len(ids))]
    out = t.copy()
    out.vertices = {v: t.vertices[v] for v in perm}
    out._derived = None
    return out


def unit_field(kind, seed, ids, P, J):
    """displacement field (dict id -> np.array(2)) scaled so that the largest JUNCTION displacement is 1"""
    rng = np.random.default_rng(seed)
    X = np.array([P[v] for v in ids], dtype=float)
    c = X.mean(0)
    ext = max(float(np.ptp(X[:, 0])), float(np.ptp(X[:, 1])), 1e-300)
    if kind == "zero":
        U = np.zeros_like(X)
    elif kind == "random":
        ang = rng.uniform(0, 2 * math.pi, len(ids))
        rad = np.sqrt(rng.uniform(0, 1, len(ids)))
        U = np.column_stack([rad * np.cos(ang), rad * np.sin(ang)])
    elif kind == "affine":
        B = rng.normal(0, 1, (2, 2))
        s = rng.normal(0, 0.3, 2)
        U = (X - c) @ B.T / ext + s
    elif kind == "shift":
        a = rng.uniform(0, 2 * math.pi)
        U = np.tile([math.cos(a), math.sin(a)], (len(ids), 1))
    elif kind == "flow":
        k = rng.uniform(1.0, 3.0, 2) * 2 * math.pi / ext
        ph = rng.uniform(0, 2 * math.pi, 2)
        a = rng.uniform(0, 2 * math.pi)
        d = np.array([math.cos(a), math.sin(a)])
        n = np.array([-d[1], d[0]])
        s = (X - c) @ d
        r = (X - c) @ n
        U = np.outer(np.sin(k[0] * r + ph[0]), d) + 0.5 * np.outer(np.sin(k[1] * s + ph[1]), n)
    else:
        raise ValueError(kind)
    jj = [i for i, v in enumerate(ids) if v in J]
    m = max((float(np.hypot(*U[i])) for i in jj), default=0.0)
    if m > 0:
        U = U / m
    return {v: U[i] for i, v in enumerate(ids)}


def _pairwise_min(X):
    if len(X) < 2:
        return float("inf")
    X = np.asarray(X, dtype=float)
    d = np.sqrt(((X[:, None, :] - X[None, :, :]) ** 2).sum(-1))
    d[np.diag_indices(len(X))] = np.inf
    return float(d.min())


def premise(P0, J0, P1, J1, cm=False):
    """the quantities of the tracking premise for the transition frame (P0, junctions J0) -> (P1, J1), all in base ids.
    cm=True: measured after the recentring forsys applies (mean of ALL vertices rounded to 3 decimals)"""
    def rec(P):
        if not cm:
            return P
        A = np.array(list(P.values()), dtype=float)
        c = np.around(A.mean(0), 3)
        return {v: np.asarray(p, dtype=float) - c for v, p in P.items()}
    P0, P1 = rec(P0), rec(P1)
    X0 = np.array([P0[v] for v in J0], dtype=float)
    X1 = np.array([P1[v] for v in J1], dtype=float)
    both = np.vstack([X0, X1])
    ext = max(float(np.ptp(both[:, 0])), float(np.ptp(both[:, 1])))
    shape = math.hypot(float(np.ptp(X1[:, 0]) - np.ptp(X0[:, 0])), float(np.ptp(X1[:, 1]) - np.ptp(X0[:, 1])))
    common = [v for v in J0 if v in J1]
    disp = max((float(np.hypot(*(np.asarray(P1[v]) - np.asarray(P0[v])))) for v in common), default=0.0)
    dmin = min(_pairwise_min(X0), _pairwise_min(X1))
    return dict(ext=ext, shape=shape / ext if ext > 0 else 0.0, disp=disp, dmin=dmin,
                ok=bool(disp < LIM_SPACING * dmin and disp < LIM_EXTENT * ext and shape < LIM_SHAPE * ext),
                safe=bool(disp < MARGIN * LIM_SPACING * dmin and disp < MARGIN * LIM_EXTENT * ext
                          and shape < MARGIN * LIM_SHAPE * ext))


class Series:
    """frames of one tissue: positions per frame in BASE ids, per-frame Tissue (dropped cells, reordered, renumbered)
    and the id maps base id -> id in frame k"""
    pass


def make_series(spec, base=None, prescribed=None):
    """spec keys: tissue, n, times, fields [n-1 dicts kind/frac/seed, frac relative to the tracking limit (>1 = wild)],
    renum [n seeds|None], vorder [n seeds|None], anchor (frame that carries the base geometry, default 0),
    drop=dict(frame, cell) | None, stretch=dict(frame, fx, fy) | None, cm (premise measured after recentring; fields
    get zero mean over all vertices).
    prescribed: dict(transition k, disp {base id: vector}) forced displacement of some vertices for the step between
    frames k and k+1 (vector = position of the OTHER frame minus position of the anchor-side frame)."""
    base = base if base is not None else make_base(spec["tissue"])
    n = int(spec["n"])
    anchor = int(spec.get("anchor", 0))
    cm = bool(spec.get("cm", False))
    drop = spec.get("drop")
    stretch = spec.get("stretch")
    ids = list(base.vertices)
    topo = {}
    for k in range(n):
        topo[k] = gen.subtissue(base, [c for c in base.cells if c != drop["cell"]]) if (drop and k >= drop["frame"]) else base
    Jk = {k: set(topo[k].junctions) for k in range(n)}
    P = {anchor: {v: np.array(base.vertices[v], dtype=float) for v in ids}}
    prem = {}

    def step(k_from, k_to):
        tr = min(k_from, k_to)                                # transition index
        f = spec["fields"][tr]
        src = P[k_from]
        U = unit_field(f["kind"], f["seed"], ids, src, Jk[k_from] | Jk[k_to])
        if cm:
            mean = np.mean(list(U.values()), axis=0)
            U = {v: u - mean for v, u in U.items()}
        forced = (prescribed or {}).get(tr)
        pr0 = premise(src, Jk[k_from], src, Jk[k_from], cm)
        limit = min(LIM_SPACING * pr0["dmin"], LIM_EXTENT * pr0["ext"])
        a = float(f["frac"]) * limit
        lo, hi = (k_from, k_to) if k_from < k_to else (k_to, k_from)
        for it in range(41):
            if it == 40:
                a = 0.0                                           # generic part switched off
            new = {v: src[v] + a * U[v] for v in ids}
            if forced:
                for v, d in forced.items():
                    new[v] = src[v] + np.asarray(d, dtype=float)
            pr = premise(src if lo == k_from else new, Jk[lo], new if lo == k_from else src, Jk[hi], cm)
            if f["frac"] > 1 or pr["safe"] or a == 0:
                break
            a *= 0.5
        P[k_to] = new
        prem[tr] = pr

    for k in range(anchor, n - 1):
        step(k, k + 1)
        if stretch and stretch["frame"] == k + 1:
            A = np.array(list(P[k + 1].values()))
            c = A.mean(0)
            P[k + 1] = {v: c + (p - c) * np.array([stretch["fx"], stretch["fy"]]) for v, p in P[k + 1].items()}
            prem[k] = premise(P[k], Jk[k], P[k + 1], Jk[k + 1], cm)
    for k in range(anchor, 0, -1):
        step(k, k - 1)
    S = Series()
    S.base, S.n, S.P, S.J, S.prem = base, n, P, Jk, prem
    S.times = [float(x) for x in spec["times"]]
    S.tissues, S.vmap = {}, {}
    for k in range(n):
        t = with_positions(topo[k], P[k])
        if k != anchor or (drop and k >= drop["frame"]):
            t.edge_center = {e: None for e in t.edges}        # only the anchor frame has analytic arcs
        vo = (spec.get("vorder") or [None] * n)[k]
        if vo is not None:
            t = reorder_vertices(t, vo)
        rs = (spec.get("renum") or [None] * n)[k]
        if rs is not None:
            t = gen.renumber(t, rs)
            S.vmap[k] = dict(t.meta["vmap"])
        else:
            S.vmap[k] = {v: v for v in t.vertices}
        S.tissues[k] = t
    return S


def series_frames(S):
    return {k: gen.to_frame(S.tissues[k], k, S.times[k]) for k in range(S.n)}


def true_successor(S, k):
    """dict id in frame k -> id in frame k+1 of the same (base) vertex, for junctions of frame k that are still junctions"""
    return {S.vmap[k][v]: S.vmap[k + 1][v] for v in S.J[k] if v in S.J[k + 1]}


def positions_by_frame_id(S, k):
    inv = {fid: b for b, fid in S.vmap[k].items()}
    return {fid: S.P[k][b] for fid, b in inv.items()}


def _jsonable(x):
    if isinstance(x, dict):
        return {str(k): _jsonable(v) for k, v in x.items()}
    if isinstance(x, (list, tuple, set)):
        return [_jsonable(v) for v in x]
    if isinstance(x, (np.floating,)):
        return float(x)
    if isinstance(x, (np.integer,)):
        return int(x)
    if isinstance(x, np.ndarray):
        return x.tolist()
    return x


def _key(spec):
    return json.dumps(spec, sort_keys=True, default=str)


def _fail(spec, name, detail, key=None):
    return dict(key=key or f"{spec['check']}:{name}", name=name, input=_jsonable(spec), detail=str(detail)[:1500])


def _new_forsys(S, cm=False, guess=None):
    fs = _fs()
    with _fsenv():
        frames = series_frames(S)
        F = fs.ForSys(frames, cm=cm, initial_guess=guess if guess else {})
    return F, frames


# ======================================================================================================
# B13  velocities
# ======================================================================================================
def expected_velocity(S, mapping, vid, t):
    """(expected velocity, has partner) of vertex `vid` (id in frame t) from the plain mapping dictionaries"""
    n = S.n
    if t < n - 1:
        tt = t + 1
        m = mapping[t]
        partner = m.get(vid) if m is not None else None
    else:
        tt = t - 1
        m = mapping[t - 1]
        pre = [u for u, w in m.items() if w == vid and w is not None]
        if len(pre) > 1:
            return None, None                                   # not injective: C12's business
        partner = pre[0] if pre else None
    pos_t = positions_by_frame_id(S, t)
    pos_tt = positions_by_frame_id(S, tt)
    if partner is None or partner not in pos_tt:
        return np.zeros(2), False
    return (np.asarray(pos_tt[partner]) - np.asarray(pos_t[vid])) / (S.times[tt] - S.times[t]), True


def _close(a, b, rel, scale=0.0):
    a, b = np.asarray(a, dtype=float), np.asarray(b, dtype=float)
    if a.shape != b.shape:
        return False
    tol = rel * max(scale, float(np.max(np.abs(b))) if b.size else 0.0, 1e-300)
    return bool(np.all(np.abs(a - b) <= tol))


def _case_b13(spec):
    fails, info = [], dict(obs=[])
    S = make_series(spec)
    F, frames = _new_forsys(S, cm=False)
    mapping = F.mesh.mapping
    info["hash"] = S.base.shape_hash()
    info["premise"] = {k: dict(disp=round(p["disp"], 4), dmin=round(p["dmin"], 4), ext=round(p["ext"], 2),
                               shape=round(p["shape"], 4), ok=p["ok"]) for k, p in S.prem.items()}
    if any(mapping[k] is None for k in range(S.n - 1)):
        info["rejected"] = "a transition was declared incompatible"
        if all(p["ok"] for p in S.prem.values()):
            fails.append(_fail(spec, "premise: mapping is None inside the tracking bounds", info["premise"]))
        return dict(spec=spec, info=info, fails=fails)
    rng = np.random.default_rng(spec.get("pick", 0))
    n_part = n_nopart = 0
    vscale = 0.0
    exp_v = {}
    for t in range(S.n):
        tis = S.tissues[t]
        junc = sorted(tis.junctions)
        others = sorted(set(tis.vertices) - set(junc))
        if len(others) > 12:
            others = [others[i] for i in rng.choice(len(others), 12, replace=False)]
        exp_v[t] = {}
        for vid in junc + others:
            ev, has = expected_velocity(S, mapping, vid, t)
            if ev is None:
                info["obs"].append("mapping not injective: vertex skipped")
                continue
            exp_v[t][vid] = ev
            n_part += bool(has)
            n_nopart += (not has)
            try:
                with _fsenv():
                    got = np.asarray(F.mesh.calculate_velocity(vid, t), dtype=float)
            except Exception as e:                                    # noqa
                fails.append(_fail(spec, "calculate_velocity raises", f"vertex {vid} frame {t}: {type(e).__name__}: {e}"))
                continue
            vscale = max(vscale, float(np.max(np.abs(ev))))
            if not _close(got, ev, 1e-9, vscale):
                which = ("last frame (backward difference)" if t == S.n - 1 else "forward difference") if has \
                    else "vertex without tracked partner"
                fails.append(_fail(spec, f"calculate_velocity: {which}",
                                   f"frame {t} (times {S.times}) vertex {vid}: got {got.tolist()} expected {ev.tolist()}"))
    # velocity term of the system
    sysv_exp = []
    used_total = 0
    for t in range(S.n):
        try:
            with _fsenv():
                F.build_force_matrix(when=t)
        except Exception as e:                                        # noqa
            fails.append(_fail(spec, "build_force_matrix raises", f"frame {t}: {type(e).__name__}: {e}"))
            sysv_exp.append(None)
            continue
        fm = F.force_matrices[t]
        rows = dict(fm.map_vid_to_row)
        nrow = fm.matrix.shape[0]
        if sorted(rows.values()) != list(range(0, nrow, 2)):
            fails.append(_fail(spec, "map_vid_to_row is not a bijection onto the even rows",
                               f"frame {t}: rows {sorted(rows.values())} matrix rows {nrow}"))
            sysv_exp.append(None)
            continue
        used_total += len(rows)
        vel = {}
        for vid in rows:
            ev = exp_v[t].get(vid)
            if ev is None:
                ev, _ = expected_velocity(S, mapping, vid, t)
            vel[vid] = ev
        speeds = [float(np.hypot(*v)) for v in vel.values()]
        s_mean = float(np.mean(speeds)) if speeds else 1.0
        sysv_exp.append(s_mean if speeds else 1)
        for kw in spec["configs"]:
            kw = dict(kw)
            exp_b = np.zeros((nrow, 1))
            avg = 1.0
            if kw.get("b_matrix") == "velocity":
                for vid, r in rows.items():
                    exp_b[r, 0], exp_b[r + 1, 0] = vel[vid]
                if kw.get("adimensional_velocity") and speeds:
                    avg = s_mean
            if avg == 0:
                continue
            exp_b = exp_b / avg * kw.get("velocity_normalization", 1)
            try:
                with _fsenv():
                    b, got_avg = fm.set_velocity_matrix(F.mesh, **kw)
            except Exception as e:                                    # noqa
                fails.append(_fail(spec, "set_velocity_matrix raises", f"frame {t} {kw}: {type(e).__name__}: {e}"))
                continue
            b = np.asarray(b, dtype=float)
            mode = "static" if kw.get("b_matrix") is None else ("adimensional" if kw.get("adimensional_velocity") else "dimensional")
            if b.shape != exp_b.shape or not _close(b, exp_b, 1e-9, float(np.max(np.abs(exp_b))) if exp_b.size else 0):
                bad = [int(i) for i in np.argwhere(np.abs(b - exp_b).ravel() > 1e-9 * max(1e-300, np.abs(exp_b).max()))[:6].ravel()] \
                    if b.shape == exp_b.shape else "shape"
                fails.append(_fail(spec, f"set_velocity_matrix right-hand side ({mode})",
                                   f"frame {t} {kw}: rows {bad} differ; got {b.ravel()[:8].round(6).tolist()} "
                                   f"expected {exp_b.ravel()[:8].round(6).tolist()}"))
            if not _close([got_avg], [avg], 1e-9):
                fails.append(_fail(spec, f"set_velocity_matrix mean speed ({mode})",
                                   f"frame {t} {kw}: returned {got_avg}, mean junction speed of the used junctions {avg}"))
    try:
        with _fsenv():
            sysv = list(F.get_system_velocity_per_frame())
        for t, (g, e) in enumerate(zip(sysv, sysv_exp)):
            if e is None or e == 0:
                continue
            if not _close([g], [e], 1e-9):
                fails.append(_fail(spec, "get_system_velocity_per_frame", f"frame {t}: reported {g}, mean junction speed {e}"))
        if len(sysv) != S.n:
            fails.append(_fail(spec, "get_system_velocity_per_frame length", f"{len(sysv)} entries for {S.n} frames"))
    except Exception as e:                                            # noqa
        if all(x not in (None, 0) for x in sysv_exp):
            fails.append(_fail(spec, "get_system_velocity_per_frame raises", f"{type(e).__name__}: {e}"))
    dts = np.diff(S.times)
    info.update(frames=S.n, tracked=n_part, untracked=n_nopart, used_junction_rows=used_total,
                unequal_steps=bool(len(dts) > 1 and np.ptp(dts) > 1e-9 * dts.max()),
                nontrivial=bool(n_part > 0 and vscale > 0))
    return dict(spec=spec, info=info, fails=fails)


# ======================================================================================================
# B12  tracking
# ======================================================================================================
def _make_guess(S, g):
    """initial_guess dictionaries (frame -> {id: id}) from spec g = dict(kind none|partial|swap, frac, seed)"""
    if not g or g.get("kind", "none") == "none":
        return {}, {}
    rng = np.random.default_rng(g["seed"])
    guess, swapped = {k: {} for k in range(S.n)}, {}
    for k in range(S.n - 1):
        succ = true_successor(S, k)
        keys = sorted(succ)
        if not keys:
            continue
        if g["kind"] == "partial":
            m = max(1, int(round(g.get("frac", 0.3) * len(keys))))
            for i in rng.choice(len(keys), min(m, len(keys)), replace=False):
                guess[k][keys[i]] = succ[keys[i]]
        elif g["kind"] == "swap" and len(keys) >= 2:
            i, j = rng.choice(len(keys), 2, replace=False)
            a, b = keys[i], keys[j]
            guess[k][a], guess[k][b] = succ[b], succ[a]
            swapped[k] = {a, b}
    return guess, swapped


def _case_b12(spec):
    fails, info = [], dict(obs=[])
    S = make_series(spec)
    cm = bool(spec.get("cm", False))
    guess, swapped = _make_guess(S, spec.get("guess"))
    F, frames = _new_forsys(S, cm=cm, guess=guess)
    mapping = F.mesh.mapping
    info["hash"] = S.base.shape_hash()
    info["premise"] = {k: dict(disp=round(p["disp"], 4), dmin=round(p["dmin"], 4), ext=round(p["ext"], 2),
                               shape=round(p["shape"], 4), ok=p["ok"]) for k, p in S.prem.items()}
    if sorted(mapping) != list(range(S.n - 1)):
        fails.append(_fail(spec, "mapping keys", f"mapping has keys {sorted(mapping)} for {S.n} frames"))
        return dict(spec=spec, info=info, fails=fails)
    drop = spec.get("drop")
    stretch = spec.get("stretch")
    checked_true = 0
    all_tracked = True
    for k in range(S.n - 1):
        m = mapping[k]
        pr = S.prem[k]
        ends0 = {S.vmap[k][v] for v in S.J[k]}
        ends1 = {S.vmap[k + 1][v] for v in S.J[k + 1]}
        if stretch and stretch["frame"] == k + 1:
            if pr["shape"] > 0.25:
                if m is not None:
                    fails.append(_fail(spec, "incompatible frames are not flagged",
                                       f"transition {k}: bounding box shape change {pr['shape']:.3f} of the extent but mapping[{k}] is a dictionary"))
                else:
                    info["obs"].append("shape change > 25 %: mapping None")
            all_tracked = False
            continue
        if m is None:
            all_tracked = False
            if pr["shape"] < MARGIN * LIM_SHAPE:
                fails.append(_fail(spec, "compatible frames flagged as different tissues",
                                   f"transition {k}: shape change {pr['shape']:.4f} of the extent but mapping[{k}] is None"))
            continue
        g = guess.get(k, {}) if guess else {}
        bad_keys = [a for a in m if a not in ends0 and a not in g]
        bad_vals = [b for a, b in m.items() if b is not None and b not in ends1 and not (a in g and g[a] == b)]
        if bad_keys or bad_vals:
            fails.append(_fail(spec, "mapping leaves the interface end points",
                               f"transition {k}: keys {bad_keys[:5]} / values {bad_vals[:5]} are not interface end points"))
        vals = [b for b in m.values() if b is not None]
        dup = [b for b, c in Counter(vals).items() if c > 1]
        if dup:
            src = {b: [a for a, x in m.items() if x == b] for b in dup[:3]}
            fails.append(_fail(spec, "mapping not injective", f"transition {k}: targets hit more than once {src}"))
        miss = {a: (b, m.get(a, "absent")) for a, b in g.items() if m.get(a, "absent") != b}
        if miss:
            fails.append(_fail(spec, "initial_guess not honoured", f"transition {k}: (wanted, got) {dict(list(miss.items())[:4])}"))
        premise_ok = pr["safe"] and not (drop and drop["frame"] == k + 1)
        if premise_ok:
            succ = true_successor(S, k)
            skip = swapped.get(k, set())
            wrong = {a: (m.get(a, "absent"), b) for a, b in succ.items() if a not in skip and m.get(a, "absent") != b}
            checked_true += len(succ) - len(skip)
            if wrong:
                fails.append(_fail(spec, "junction not mapped to its true successor",
                                   f"transition {k} (disp {pr['disp']:.4g}, half spacing {0.5 * pr['dmin']:.4g}, 8% extent "
                                   f"{0.08 * pr['ext']:.4g}): {len(wrong)} of {len(succ)} wrong, e.g. (got, true) {dict(list(wrong.items())[:3])}"))
            if skip:
                all_tracked = all_tracked                      # swapped pairs are still bijective: round trips stay valid
        else:
            all_tracked = False
    # forward then backward
    rt = 0
    if all_tracked and not drop:
        for t0 in range(S.n - 1):
            for t1 in range(t0 + 1, S.n):
                for v in sorted(S.J[t0]):
                    a = S.vmap[t0][v]
                    try:
                        with _fsenv():
                            fwd = F.mesh.get_point_id_by_map(a, t0, t1)
                            back = F.mesh.get_point_id_by_map(fwd, t1, t0)
                    except Exception as e:                            # noqa
                        fails.append(_fail(spec, "get_point_id_by_map raises", f"{a} {t0}->{t1}: {type(e).__name__}: {e}"))
                        break
                    rt += 1
                    exp_fwd = S.vmap[t1][v]
                    if not any(swapped.values()) and fwd != exp_fwd:
                        fails.append(_fail(spec, "get_point_id_by_map forward composition",
                                           f"vertex {a} of frame {t0} -> frame {t1}: got {fwd}, true {exp_fwd}"))
                        break
                    if back != a:
                        fails.append(_fail(spec, "forward then backward does not return the start",
                                           f"vertex {a} frame {t0} -> {fwd} at frame {t1} -> back {back}"))
                        break
    info.update(frames=S.n, true_successor_checks=checked_true, round_trips=rt, cm=cm,
                guess=(spec.get("guess") or {}).get("kind", "none"),
                nontrivial=bool(checked_true > 0 or drop or stretch or any(f["frac"] > 1 for f in spec["fields"])))
    return dict(spec=spec, info=info, fails=fails)


# ======================================================================================================
# B03  dynamic recovery with an exactly known answer
# ======================================================================================================
ROUND_B = 5e-4                     # the right-hand side is rounded to 3 decimals: |db| <= 5e-4 per entry
SAFETY = 3.0                       # safety factor on the first-order bound
TOL_CAP = 5e-2                     # cases whose tolerance would exceed this are rejected (ill-conditioned system)
GATE_DA = 5e-3                     # largest accepted difference between forsys' tangents and the analytic ones
K_TANGENT = "B03:tangent-differs-outside-sign-forcing-class"


def canon(path):
    p = tuple(int(x) for x in path)
    return min(p, p[::-1])


def inferred_system(t):
    """own derivation of the unknowns and equations of the inference on tissue t:
    internal interfaces (no vertex on the tissue border, at least one end shared by > 2 cells) and the junctions whose
    equations are used (shared by > 2 cells, >= 3 internal interfaces)"""
    cov = cells_of_vertex(t)
    internal = [it for it in t.interfaces
                if all(len(cov[v]) >= 2 for v in it["path"])
                and (len(cov[it["path"][0]]) > 2 or len(cov[it["path"][-1]]) > 2)]
    inc = defaultdict(list)
    for i, it in enumerate(internal):
        for end in {it["path"][0], it["path"][-1]}:
            inc[end].append(i)
    used = [j for j in t.vertices if j in inc and len(cov[j]) > 2 and len(inc[j]) >= 3]
    return internal, used, inc


def sign_forcing_ends(t, internal, used, margin=1e-6):
    """interface ends (interface index, junction) of the known defect class KF-C02-sign-forcing: a coordinate axis lies
    between the first chord and the analytic tangent (component signs, 0 counted as +, agree in one component only);
    ends whose tangent has a component below `margin` are counted too (the fitted sign is then not reliable)"""
    bad = []
    us = set(used)
    for i, it in enumerate(internal):
        p = it["path"]
        if len(p) == 2:
            continue
        for end, nxt in ((p[0], p[1]), (p[-1], p[-2])):
            if end not in us:
                continue
            d = np.array(t.vertices[nxt]) - np.array(t.vertices[end])
            tau = np.array(it["tangent_at"][end])
            sd = np.where(d >= 0, 1, -1)
            st = np.where(tau >= 0, 1, -1)
            if np.any(sd != st) or np.min(np.abs(tau)) < margin or np.min(np.abs(d)) < margin * np.hypot(*d):
                bad.append((i, end))
    return bad


def analytic_matrix(internal, used):
    A = np.zeros((2 * len(used), len(internal)))
    row = {j: 2 * r for r, j in enumerate(used)}
    for c, it in enumerate(internal):
        for end in {it["path"][0], it["path"][-1]}:
            if end in row:
                A[row[end], c], A[row[end] + 1, c] = it["tangent_at"][end]
    return A, row


def _rowsum_bound(K, ncol_T, n_rounded):
    """per-component first-order bound factor sum_j |pinv(K)_ij| over the rounded right-hand-side entries, for the
    unknowns T (first ncol_T columns), maximised over the two possible active sets of the multiplier (free / clamped at 0)"""
    sv = np.linalg.svd(K, compute_uv=False)
    if K.shape[0] < K.shape[1] or sv[-1] < 1e-9 * sv[0]:
        return None, None, 0.0
    P = np.linalg.pinv(K)
    P0 = np.linalg.pinv(K[:, :ncol_T])
    W = np.maximum(np.abs(P[:ncol_T, :n_rounded]), np.abs(P0[:, :n_rounded]))
    return W.sum(1), W, float(sv[-1])


def recovery_tolerances(A, Af, T):
    """tolerances on the recovered tensions implied by rounding the right-hand side to 3 decimals.
    default / 'lsq' : min ||M x - round(b,3)||, x >= 0, M = [[A, 1], [1^T, 0]], b = [A T; E]  (last entry exact)
    'lsq_linear'    : min ||N x - round(c,3)||, x >= 0, N = [[A^T A, 1], [1^T, 0]], c = [A^T A T; E]
    first order: |dx_i| <= 5e-4 * sum_j |pinv_ij| (both active sets of the multiplier); Af (forsys' matrix in our
    ordering) enters through the measured tangent error dA = Af - A: extra term sum_j |pinv_ij| |dA T|_j"""
    m, E = A.shape
    out = {}
    ones_c, ones_r = np.ones((m, 1)), np.r_[np.ones(E), 0.0]
    M = np.vstack([np.hstack([A, ones_c]), ones_r])
    rs, W, smin = _rowsum_bound(M, E, m)
    dAT = np.abs((Af - A) @ T)
    if rs is not None:
        out["M"] = dict(tol=SAFETY * (ROUND_B * rs + W @ dAT), smin=smin,
                        norm2=ROUND_B * math.sqrt(m) / smin)
    N = np.vstack([np.hstack([A.T @ A, np.ones((E, 1))]), ones_r])
    rsN, WN, sminN = _rowsum_bound(N, E, E)
    if rsN is not None:
        out["N"] = dict(tol=SAFETY * (ROUND_B * rsN + WN @ np.abs(Af.T @ ((Af - A) @ T))), smin=sminN,
                        norm2=ROUND_B * math.sqrt(E) / sminN)
    return out


def _b03_resolve(ts, seed, attempts=10, poses=40):
    """tissue (the given one, else the same family with a shifted seed) and rotation such that
    (a) no interface end is in the sign-forcing class, (b) the system is identifiable and its rounding tolerance stays
    below the cap.  Returns (resolved tissue spec | None, statistics)"""
    rng = np.random.default_rng([int(seed), 1])
    st = dict(candidates=0, no_pose=0, unidentifiable=0, ill_conditioned=0, pose_tries=0)
    for att in range(attempts):
        cand = dict(ts, seed=int(ts["seed"]) + 1009 * att)
        st["candidates"] += 1
        t0 = make_base(cand)
        internal, used, _ = inferred_system(t0)
        E, J = len(internal), len(used)
        if J == 0 or 2 * J < E or any(len(it["path"]) == 2 and it["kind"] != "straight" for it in internal):
            st["unidentifiable"] += 1
            continue
        found = None
        for k in range(poses):
            rot = 0.0 if k == 0 else round(float(rng.uniform(0, 2 * math.pi)), 5)
            t = make_base(dict(cand, rot=rot))
            internal, used, _ = inferred_system(t)
            st["pose_tries"] += 1
            if not sign_forcing_ends(t, internal, used):
                found = (rot, t, internal, used)
                break
        if found is None:
            st["no_pose"] += 1
            continue
        rot, t, internal, used = found
        A, _ = analytic_matrix(internal, used)
        tols = recovery_tolerances(A, A, np.ones(A.shape[1]))
        if "M" not in tols or float(tols["M"]["tol"].max()) > 0.8 * TOL_CAP or tols["M"]["norm2"] > 0.3:
            st["ill_conditioned"] += 1
            continue
        return dict(cand, rot=rot), st
    return None, st


def _case_b03(spec):
    fails, info = [], dict(obs=[])
    ts = dict(spec["tissue"])
    rng = np.random.default_rng([int(spec["seed"]), 2])
    allow_kf = bool(spec.get("allow_kf"))
    if "rot" not in ts and not allow_kf:
        ts, st = _b03_resolve(ts, spec["seed"])
        info["resolve"] = st
        if ts is None:
            info["rejected"] = "no admissible tissue/pose: " + json.dumps(st)
            info["kf_excluded"] = st["no_pose"] > 0
            return dict(spec=spec, info=info, fails=fails)
    spec = dict(spec, tissue=ts)                                    # failures carry the resolved pose
    base = make_base(ts)
    info["hash"] = base.shape_hash()
    internal, used, inc = inferred_system(base)
    if any(len(it["path"]) == 2 and it["kind"] != "straight" for it in internal):
        info["rejected"] = "two-point arc interface (analytic tangent is not the chord)"
        return dict(spec=spec, info=info, fails=fails)
    kf_ends = sign_forcing_ends(base, internal, used)
    info["kf_ends"] = len(kf_ends)
    if kf_ends and not allow_kf:
        info["rejected"] = "pose inside the sign-forcing class"
        info["kf_excluded"] = True
        return dict(spec=spec, info=info, fails=fails)
    E, J = len(internal), len(used)
    if J == 0 or 2 * J < E:
        info["rejected"] = f"not identifiable: {2 * J} equations for {E} tensions"
        return dict(spec=spec, info=info, fails=fails)
    A, row = analytic_matrix(internal, used)
    # tensions: arbitrary positive, mean one
    mode = spec.get("tensions", "uniform")
    if mode == "uniform":
        T = rng.uniform(0.5, 1.5, E)
    elif mode == "lognormal":
        T = np.exp(rng.normal(0, 0.4, E))
    else:                                                           # perturbed equilibrium
        T = np.array([it["tension"] for it in internal]) * rng.uniform(0.8, 1.25, E)
    T = T / T.mean()
    R = (A @ T).reshape(-1, 2)
    Rj = {j: R[row[j] // 2] for j in used}
    rmax = max(float(np.hypot(*r)) for r in Rj.values())
    if rmax == 0:
        info["rejected"] = "zero resultants"
        return dict(spec=spec, info=info, fails=fails)
    n, k = int(spec["n"]), int(spec["target"])
    last = (k == n - 1)
    tr = k - 1 if last else k
    P0 = {v: np.array(p) for v, p in base.vertices.items()}
    pr0 = premise(P0, set(base.junctions), P0, set(base.junctions))
    limit = min(LIM_SPACING * pr0["dmin"], LIM_EXTENT * pr0["ext"])
    dt = float(spec["dtfrac"]) * limit / rmax
    gaps = [float(g) for g in spec["gaps"]]
    S = None
    for _ in range(30):
        gaps[tr] = dt
        times = list(np.concatenate([[spec["t0"]], spec["t0"] + np.cumsum(gaps)]))
        sgn = -1.0 if last else 1.0
        forced = {tr: {j: sgn * dt * r for j, r in Rj.items()}}
        sspec = dict(tissue=ts, n=n, times=times, fields=spec["fields"], renum=spec.get("renum"), vorder=spec.get("vorder"),
                     anchor=k)
        S = make_series(sspec, base=base, prescribed=forced)
        if all(p["safe"] for p in S.prem.values()):
            break
        dt *= 0.5
    else:
        info["rejected"] = "could not keep the prescribed motion inside the tracking bounds"
        return dict(spec=spec, info=info, fails=fails)
    info["dt"] = dt
    info["times"] = [round(x, 6) for x in S.times]
    F, frames = _new_forsys(S, cm=False)
    vm = S.vmap[k]
    # tracking must be right for the used junctions (premise of C03; C12 is checked by B12)
    other = k - 1 if last else k + 1
    mp_ = F.mesh.mapping[tr]
    if mp_ is None:
        fails.append(_fail(spec, "premise: frames declared incompatible", f"transition {tr}: {S.prem[tr]}"))
        return dict(spec=spec, info=info, fails=fails)
    for j in used:
        a, b = (S.vmap[tr][j], S.vmap[tr + 1][j])
        if mp_.get(a) != b:
            fails.append(_fail(spec, "premise: used junction not tracked to its successor",
                               f"transition {tr}: {a} -> {mp_.get(a)} (true {b}); {S.prem[tr]}"))
            return dict(spec=spec, info=info, fails=fails)
    # mean speed of the used junctions (for the adimensional configuration)
    speeds = [float(np.hypot(*r)) for r in Rj.values()]
    s_mean = float(np.mean(speeds))
    want = {canon([vm[v] for v in it["path"]]): T[c] for c, it in enumerate(internal)}
    col_of = {canon([vm[v] for v in it["path"]]): c for c, it in enumerate(internal)}
    worst = 0.0
    tolmax = 0.0
    solved = 0
    Af_cache = None
    for cfg in spec["solves"]:
        method, adim = cfg.get("method"), bool(cfg.get("adim"))
        kw = dict(b_matrix="velocity", adimensional_velocity=adim, allow_negatives=False)
        if adim:
            kw["velocity_normalization"] = s_mean                  # restores the unit-mobility right-hand side
        if method:
            kw["method"] = method
        label = f"method={method or 'default'} adimensional={adim}"
        try:
            with _fsenv():
                F.build_force_matrix(when=k)
            fm = F.force_matrices[k]
            if Af_cache is None:
                cols = [canon(be) for be in fm.big_edges_to_use]
                if sorted(cols) != sorted(col_of) or sorted(fm.map_vid_to_row) != sorted(vm[j] for j in used):
                    fails.append(_fail(spec, "system differs from the own derivation",
                                       f"forsys: {len(cols)} unknowns, {len(fm.map_vid_to_row)} junctions; own: {E}, {J}"))
                    return dict(spec=spec, info=info, fails=fails)
                Af = np.zeros_like(A)
                for j in used:
                    r = fm.map_vid_to_row[vm[j]]
                    for cf, key in enumerate(cols):
                        Af[row[j], col_of[key]] = fm.matrix[r, cf]
                        Af[row[j] + 1, col_of[key]] = fm.matrix[r + 1, cf]
                Af_cache = Af
                dA = float(np.max(np.abs(Af - A)))
                info["max_tangent_error"] = dA
                if dA > GATE_DA and not kf_ends:
                    # premise of the comparison broken by something else than the known defect: report and stop
                    r_, c_ = np.unravel_index(int(np.argmax(np.abs(Af - A))), A.shape)
                    j_ = used[r_ // 2]
                    it_ = internal[c_]
                    fails.append(_fail(spec, "forsys tangent differs from the analytic one outside the sign-forcing class",
                                       f"frame {k}: interface with {len(it_['path'])} points ({it_['kind']}), end {vm[j_]}: forsys "
                                       f"{Af[2 * (r_ // 2):2 * (r_ // 2) + 2, c_].round(5).tolist()} analytic "
                                       f"{A[2 * (r_ // 2):2 * (r_ // 2) + 2, c_].round(5).tolist()}; points "
                                       f"{[[round(float(x), 4) for x in base.vertices[v]] for v in it_['path']]}", key=K_TANGENT))
                    info["tangent_mismatch"] = True
                    break
                tols = recovery_tolerances(A, Af if dA <= GATE_DA else A, T)
                info["smin"] = {k_: round(v["smin"], 5) for k_, v in tols.items()}
            with _fsenv():
                F.solve_stress(when=k, **kw)
            forces = F.frames[k].forces
            ibe = [canon(be.get_vertices_ids()) for be in F.frames[k].internal_big_edges]
            got = np.array([forces[i] for i in range(len(ibe))], dtype=float)
        except Exception as e:                                      # noqa
            if method == "lsq_linear" and isinstance(e, FloatingPointError):
                fails.append(_fail(spec, "solve_stress(method='lsq_linear') raises FloatingPointError", f"{label}: {e}", key=K_LSQLIN))
            else:
                fails.append(_fail(spec, "inference raises", f"{label}: {type(e).__name__}: {e}"))
            continue
        sysk = "N" if method == "lsq_linear" else "M"
        if sysk not in tols:
            info["obs"].append(f"{'normal-equation' if sysk == 'N' else 'augmented'} system rank deficient: configuration skipped")
            continue
        tl = tols[sysk]
        tol_i = tl["tol"] + (1e-5 if method == "lsq" else 1e-7)
        if tl["norm2"] >= T.min() or float(tol_i.max()) > TOL_CAP:
            info["obs"].append("tolerance above the cap (ill-conditioned system): configuration skipped")
            continue
        exp = np.array([want[key] for key in ibe])
        tol_v = np.array([tol_i[col_of[key]] for key in ibe])
        g, e_ = got, exp
        if adim:
            g, e_ = got / got.mean(), exp / exp.mean()
        err = np.abs(g - e_)
        solved += 1
        worst = max(worst, float(np.max(err / tol_v)))
        tolmax = max(tolmax, float(tol_v.max()))
        if np.any(err > tol_v):
            i = int(np.argmax(err / tol_v))
            where = "first" if k == 0 else ("last (backward difference)" if last else "middle")
            kf = bool(kf_ends)
            name = f"tensions not recovered at the {where} frame"
            fails.append(_fail(spec, name if not kf else "tensions not recovered when an interface end is in the sign-forcing class",
                               f"{name} ({label}): interface {i}: got {g[i]:.5f} expected {e_[i]:.5f} (tolerance {tol_v[i]:.2e}); "
                               f"{int(np.sum(err > tol_v))} of {len(err)} outside; max error {err.max():.3e}; "
                               f"max |forsys tangent - analytic| {dA:.2e}; sign-forcing ends {len(kf_ends)}; times {info['times']}",
                               key=KF_SIGN if kf else None))
    dts = np.diff(S.times)
    info.update(frames=n, target=k, unknowns=E, junctions=J, solved=solved, worst_err_over_tol=round(worst, 4),
                tol_max=tolmax, unequal_steps=bool(len(dts) > 1 and np.ptp(dts) > 1e-9 * dts.max()),
                nontrivial=bool(solved > 0 and not kf_ends), kf_case=bool(kf_ends))
    return dict(spec=spec, info=info, fails=fails)



# ======================================================================================================
# B10  histories
# ======================================================================================================
LIMIT_CANDIDATES = (0.8 * math.pi, 0.75 * math.pi, 0.7 * math.pi)


def _build_kwargs(op, limit):
    return dict(angle_limit=(limit if op.get("al") else np.inf), circle_fit_method=op.get("fit", "dlite"))


def _solve_kwargs(op):
    kw = {}
    if op.get("m"):
        kw["method"] = op["m"]
    if op.get("b"):
        kw["b_matrix"] = op["b"]
        kw["adimensional_velocity"] = bool(op.get("ad"))
    if "an" in op:
        kw["allow_negatives"] = bool(op["an"])
    return kw


def _psolve_kwargs(op):
    kw = {}
    if op.get("m"):
        kw["method"] = op["m"]
    if "an" in op:
        kw["allow_negatives"] = bool(op["an"])
    return kw


def _apply(F, op, limit):
    """run one operation on F; returns None or the exception"""
    try:
        with _fsenv():
            return _apply_inner(F, op, limit)
    except _Timeout:
        raise
    except Exception as e:                                            # noqa
        return e


def _apply_inner(F, op, limit):
    if True:
        kind = op["op"]
        if kind == "bf":
            F.build_force_matrix(when=op["t"], **_build_kwargs(op, limit))
        elif kind == "ss":
            F.solve_stress(when=op["t"], **_solve_kwargs(op))
        elif kind == "bp":
            F.build_pressure_matrix(when=op["t"])
        elif kind == "sp":
            F.solve_pressure(when=op["t"], **_psolve_kwargs(op))
        elif kind == "sv":
            if op.get("al"):
                F.get_system_velocity_per_frame(angle_limit=limit)
            else:
                F.get_system_velocity_per_frame()
        else:
            raise ValueError(kind)
        return None


def _num(x):
    if x is None:
        return None
    try:
        return float(x)
    except (TypeError, ValueError):
        return repr(x)


def observe(F, t):
    """plain-data observables of frame t"""
    fr = F.frames[t]
    forces = F.forces.get(t) if isinstance(F.forces, dict) else "not a dict"
    ff = getattr(fr, "forces", None)
    o = dict(forces=None if forces is None else ({str(k): _num(v) for k, v in forces.items()} if isinstance(forces, dict) else repr(forces)),
             frame_forces=None if ff is None else {str(k): _num(v) for k, v in ff.items()})
    with _fsenv():
        tb = fr.get_tensions(with_border=True)
        ti = fr.get_tensions(with_border=False)
        o["table_all"] = dict(id=[int(x) for x in tb["id"]], stress=[_num(x) for x in tb["stress"]])
        o["table_int"] = dict(id=[int(x) for x in ti["id"]], stress=[_num(x) for x in ti["stress"]])
        o["big"] = {int(k): _num(be.tension) for k, be in fr.big_edges.items()}
        o["small"] = {int(k): _num(e.tension) for k, e in fr.edges.items()}
        o["cellp"] = {int(k): _num(c.pressure) for k, c in fr.cells.items()}
        pr = F.pressures.get(t) if isinstance(F.pressures, dict) else "not a dict"
        o["pressures"] = None if pr is None else ([_num(x) for x in pr] if isinstance(pr, (list, tuple, np.ndarray)) else repr(pr))
        try:
            pt = fr.get_pressures()
            o["ptable"] = dict(id=[int(x) for x in pt["id"]], pressure=[_num(x) for x in pt["pressure"]])
        except Exception as e:                                        # noqa
            o["ptable"] = f"{type(e).__name__}"
    return o


def _same(a, b, rel, scale):
    if a is None or b is None or isinstance(a, str) or isinstance(b, str):
        return a == b
    if isinstance(a, float) and isinstance(b, float):
        if math.isnan(a) or math.isnan(b):
            return math.isnan(a) and math.isnan(b)
        return abs(a - b) <= rel * max(scale, 1e-300)
    return a == b


def _scale(vals):
    v = [abs(x) for x in vals if isinstance(x, float) and math.isfinite(x)]
    return max(v, default=1.0) or 1.0


def _diff_map(a, b, rel):
    """keys whose values differ between two {key: number} maps / equal-length lists"""
    if a is None or b is None or isinstance(a, str) or isinstance(b, str):
        return [] if a == b else ["<whole>"]
    if isinstance(a, list):
        if len(a) != len(b):
            return ["<length>"]
        a, b = dict(enumerate(a)), dict(enumerate(b))
    if set(a) != set(b):
        return ["<keys>"]
    sc = _scale(list(b.values()))
    return [k for k in a if not _same(a[k], b[k], rel, sc)]


def _frame_structure(F, t):
    fr = F.frames[t]
    internal = [be.big_edge_id for be in fr.internal_big_edges]
    edges_of = {int(k): list(be.edges) for k, be in fr.big_edges.items()}
    return internal, edges_of


def _excluded(F, t):
    """internal interfaces excluded by the angle limit of the force matrix currently stored for frame t"""
    fm = F.force_matrices[t]
    out = []
    for be in F.frames[t].internal_big_edges:
        ids = be.get_vertices_ids()
        if ids[0] in fm.deletes and ids[-1] in fm.deletes:
            out.append(be.big_edge_id)
    return out


def _static_clauses(F, t, excluded):
    """static part of C10 on frame t after its stress solve; list of (name, detail)"""
    out = []
    fr = F.frames[t]
    forces = F.forces.get(t) if isinstance(F.forces, dict) else None
    internal = list(fr.internal_big_edges)
    if not isinstance(forces, dict):
        return [("result store: forces of the solved frame are not under its key", f"F.forces[{t}] = {forces!r}")]
    if getattr(fr, "forces", None) is not forces and getattr(fr, "forces", None) != forces:
        out.append(("frame.forces differs from the solver's store", f"frame {t}"))
    if sorted(forces) != list(range(len(internal))):
        out.append(("reported tensions are not indexed by the internal interfaces", f"frame {t}: keys {sorted(forces)[:6]}.. for {len(internal)} internal interfaces"))
        return out
    for i, be in enumerate(internal):
        v = float(forces[i])
        if be.big_edge_id in excluded:
            if v != -1:
                out.append(("excluded interface is not reported as -1", f"frame {t} interface {i}: {v}"))
            continue
        if v == -1 and excluded:
            out.append(("non-excluded interface reported as -1", f"frame {t} interface {i}"))
        sc = max(abs(v), 1e-300)
        if abs(float(be.tension) - v) > 1e-9 * sc:
            out.append(("i-th reported tension differs from the tension stored on the i-th internal interface",
                        f"frame {t} interface {i}: reported {v}, BigEdge.tension {be.tension}"))
        bad = [e for e in be.edges if abs(float(fr.edges[e].tension) - v) > 1e-9 * sc]
        if bad:
            out.append(("i-th reported tension differs from the tension of the interface's mesh edges",
                        f"frame {t} interface {i}: reported {v}, mesh edges {[(e, fr.edges[e].tension) for e in bad[:3]]}"))
    int_ids = {be.big_edge_id for be in internal}
    for k, be in fr.big_edges.items():
        if k in int_ids:
            continue
        if float(be.tension) != 0 or any(float(fr.edges[e].tension) != 0 for e in be.edges):
            out.append(("external interface does not stay at zero", f"frame {t} interface {k}: {be.tension}"))
            break
    with _fsenv():
        ti = fr.get_tensions(with_border=False)
        tb = fr.get_tensions(with_border=True)
    if [int(x) for x in ti["id"]] != [be.big_edge_id for be in internal]:
        out.append(("tension table does not list exactly the internal interfaces in order", f"frame {t}: {list(ti['id'])[:8]}"))
    elif any(float(a) != float(be.tension) for a, be in zip(ti["stress"], internal)):
        out.append(("tension table values differ from the stored tensions", f"frame {t}"))
    if [int(x) for x in tb["id"]] != [int(k) for k in fr.big_edges]:
        out.append(("full tension table does not list all interfaces in order", f"frame {t}"))
    return out


def _static_pressure(F, t):
    """each cell carries its own pressure; the solver's store holds frame t's pressures under key t"""
    out = []
    fr = F.frames[t]
    if True:
        pr = F.pressures.get(t) if isinstance(F.pressures, dict) else None
        if not isinstance(pr, (list, tuple, np.ndarray)) or len(pr) != len(fr.cells):
            out.append(("result store: pressures of the solved frame are not under its key", f"F.pressures[{t}] = {str(pr)[:80]}"))
        else:
            for pos, (cid, c) in enumerate(fr.cells.items()):
                if not _same(_num(c.pressure), _num(pr[pos]), 1e-12, abs(float(pr[pos]))):
                    out.append(("cell does not carry its own pressure", f"frame {t} cell {cid}: {c.pressure} vs store {pr[pos]}"))
                    break
    return out


def _resolve_limit(S, n, candidates=None, need_frame=None):
    """first candidate angle limit that excludes at least one internal interface in some frame (in frame `need_frame`
    if given) and keeps >= 3 in all"""
    F, _ = _new_forsys(S)
    best = None
    for cand in (candidates or LIMIT_CANDIDATES):
        ex, keep = [], []
        for t in range(n):
            with _fsenv():
                F.build_force_matrix(when=t, angle_limit=cand)
            e = len(_excluded(F, t))
            ex.append(e)
            keep.append(len(F.frames[t].internal_big_edges) - e)
        if best is None:
            best = (cand, ex)
        if (sum(ex) if need_frame is None else ex[need_frame]) > 0 and min(keep) >= 3:
            return cand, ex
    return best


def _case_b10(spec):
    fails, info = [], dict(obs=[])
    S = make_series(spec)
    n = S.n
    info["hash"] = S.base.shape_hash()
    if spec.get("limit") is None:
        limit, ex = _resolve_limit(S, n, spec.get("limit_candidates"), spec.get("limit_frame"))
        spec = dict(spec, limit=float(limit))
        info["excluded_per_frame"] = ex
    limit = float(spec["limit"])
    ops = spec["ops"]
    # ---- history ------------------------------------------------------------------------------
    F, _ = _new_forsys(S)
    cur_build = {}                       # t -> build kwargs of the force matrix currently stored
    last_ss, ss_count = {}, Counter()    # t -> (build kwargs, solve op) of the last successful stress solve
    stress_at_pbuild = {}                # t -> last_ss[t] (or None) when the stored pressure matrix was built
    last_sp = {}                         # t -> (stress args at its matrix build, psolve op)
    n_ss_before_sp = {}
    raised = []
    for i, op in enumerate(ops):
        before = {t: id(F.force_matrices.get(t)) for t in range(n)}
        err = _apply(F, op, limit)
        if err is not None:
            raised.append((i, op, err, dict(cur_build[op["t"]]) if op.get("t") in cur_build else None))
            if op["op"] == "sv":                                  # a raising sweep has rebuilt the matrices of some frames
                for t in range(n):
                    if id(F.force_matrices.get(t)) != before[t]:
                        cur_build[t] = dict(al=bool(op.get("al")), fit="dlite")
            continue
        k = op["op"]
        if k == "bf":
            cur_build[op["t"]] = dict(al=bool(op.get("al")), fit=op.get("fit", "dlite"))
        elif k == "sv":
            for t in range(n):
                cur_build[t] = dict(al=bool(op.get("al")), fit="dlite")
        elif k == "ss":
            last_ss[op["t"]] = (dict(cur_build.get(op["t"]) or dict(al=False, fit="dlite")), op)
            ss_count[op["t"]] += 1
        elif k == "bp":
            stress_at_pbuild[op["t"]] = last_ss.get(op["t"])
            n_ss_before_sp[op["t"]] = ss_count[op["t"]]
        elif k == "sp":
            last_sp[op["t"]] = (stress_at_pbuild.get(op["t"]), op, n_ss_before_sp.get(op["t"], 0))
    obs_h = {t: observe(F, t) for t in range(n)}
    excl_h = {t: (_excluded(F, t) if t in F.force_matrices else []) for t in range(n)}

    def fresh_run(seq):
        G, _ = _new_forsys(S)
        for op in seq:
            e = _apply(G, op, limit)
            if e is not None:
                return G, (op, e)
        return G, None

    # ---- operations that raised: must raise on a fresh object as well -----------------------------
    for i, op, err, build_then in raised:
        t = op.get("t", 0)
        pre = []
        if op["op"] == "ss":
            pre = [dict(op="bf", t=t, **build_then)] if build_then else []
        elif op["op"] == "sp":
            pre = [dict(op="bp", t=t)]
        G, e2 = fresh_run(pre + [op])
        probe = spec.get("probe")
        if e2 is not None and type(e2[1]) is type(err):
            if probe == "fix_stress" and op.get("m") == "fix_stress":
                fails.append(_fail(spec, "solve_stress(method='fix_stress') raises", f"{type(err).__name__}: {err}", key=KF_FIX))
            elif op["op"] == "ss" and op.get("m") == "lsq_linear" and isinstance(err, FloatingPointError):
                fails.append(_fail(spec, "solve_stress(method='lsq_linear') raises FloatingPointError",
                                   f"step {i} {op} (build {build_then}): {err} (also on a fresh object)", key=K_LSQLIN))
            elif probe == "pressure_default" and op["op"] == "sp" and not op.get("m"):
                fails.append(_fail(spec, "solve_pressure without method raises", f"{type(err).__name__}: {err}", key=K_PNONE))
            elif probe == "lsq_exclusion" and op.get("m") == "lsq":
                fails.append(_fail(spec, "solve_stress(method='lsq') raises when the angle limit excludes interfaces",
                                   f"{type(err).__name__}: {err}; excluded interfaces in frame {t}: {len(excl_h.get(t, []))}", key=K_LSQX))
            else:
                fails.append(_fail(spec, f"operation raises ({op['op']})", f"step {i} {op}: {type(err).__name__}: {err} (also on a fresh object)"))
        else:
            fails.append(_fail(spec, f"operation raises only after the history ({op['op']})",
                               f"step {i} {op}: {type(err).__name__}: {err}; fresh object: {e2[1] if e2 else 'no exception'}"))
    # ---- references ---------------------------------------------------------------------------------
    compared = 0
    G0 = None
    for t in range(n):
        oh = obs_h[t]
        tens_keys = ("forces", "frame_forces", "table_all", "table_int", "big", "small")
        pres_keys = ("cellp", "pressures", "ptable")
        # tensions
        if t in last_ss:
            build, sop = last_ss[t]
            G, e = fresh_run([dict(op="bf", t=t, **build), sop])
            if e is not None:
                fails.append(_fail(spec, "reference run raises", f"frame {t}: {e[0]} -> {type(e[1]).__name__}: {e[1]}"))
                continue
            ref = observe(G, t)
            rel = 1e-6 if sop.get("m") == "lsq" else 1e-9
            excluded = set(_excluded(G, t))
            _, edges_of = _frame_structure(G, t)
            ex_edges = {e_ for b in excluded for e_ in edges_of[b]}
            earlier = ss_count[t] > 1
            for name, detail in _static_clauses(F, t, excluded):
                fails.append(_fail(spec, "static: " + name, detail + f"; last solve {sop}, build {build}"))
            for key in tens_keys:
                a, b = oh[key], ref[key]
                if key in ("table_all", "table_int") and isinstance(a, dict) and isinstance(b, dict):
                    if a["id"] != b["id"]:
                        fails.append(_fail(spec, f"history changes {key} ids", f"frame {t}"))
                        continue
                    a, b = dict(zip(a["id"], a["stress"])), dict(zip(b["id"], b["stress"]))
                bad = _diff_map(a, b, rel)
                if not bad:
                    continue
                if key == "small":
                    stale = [k_ for k_ in bad if k_ in ex_edges]
                elif key in ("big", "table_all", "table_int"):
                    stale = [k_ for k_ in bad if k_ in excluded]
                else:
                    stale = []
                other = [k_ for k_ in bad if k_ not in stale]
                hist = f"history {ops}; last solve of frame {t}: build {build}, {sop}"
                if stale and earlier:
                    fails.append(_fail(spec, f"excluded interface keeps an earlier solve's tension ({key})",
                                       f"frame {t}: {len(stale)} entries, e.g. {stale[0]}: after history {a[stale[0]]}, fresh object {b[stale[0]]}; {hist}",
                                       key=K_STALE))
                elif stale:
                    other = bad
                if other:
                    k0 = other[0]
                    va = a.get(k0) if isinstance(a, dict) else (a[k0] if isinstance(a, list) and isinstance(k0, int) else a)
                    vb = b.get(k0) if isinstance(b, dict) else (b[k0] if isinstance(b, list) and isinstance(k0, int) else b)
                    fails.append(_fail(spec, f"history changes what is reported ({key})",
                                       f"frame {t}: {len(other)} entries differ, e.g. {k0}: after history {str(va)[:80]}, fresh object {str(vb)[:80]}; {hist}"))
            compared += 1
        else:
            if G0 is None:
                G0, _ = fresh_run([])
            ref = observe(G0, t)
            for key in tens_keys:
                bad = _diff_map(oh[key] if not isinstance(oh[key], dict) or "id" not in oh[key] else oh[key]["stress"],
                                ref[key] if not isinstance(ref[key], dict) or "id" not in ref[key] else ref[key]["stress"], 1e-12)
                if bad:
                    fails.append(_fail(spec, f"frame that was never solved reports results ({key})",
                                       f"frame {t}: {len(bad)} entries, e.g. {bad[0]}; history {ops}"))
        # pressures
        if t in last_sp:
            sargs, pop, nss = last_sp[t]
            seq = ([dict(op="bf", t=t, **sargs[0]), sargs[1]] if sargs else []) + [dict(op="bp", t=t), pop]
            G, e = fresh_run(seq)
            if e is not None:
                fails.append(_fail(spec, "reference run raises", f"frame {t}: {e[0]} -> {type(e[1]).__name__}: {e[1]}"))
                continue
            ref = observe(G, t)
            rel = 1e-6 if (sargs and sargs[1].get("m") == "lsq") else 1e-8
            has_excl = bool(sargs and _excluded(G, t))
            for name, detail in _static_pressure(F, t):
                fails.append(_fail(spec, "static: " + name, detail))
            for key in pres_keys:
                a, b = oh[key], ref[key]
                if isinstance(a, dict) and "id" in a:
                    a, b = a["pressure"], b["pressure"]
                bad = _diff_map(a, b, rel)
                if bad:
                    hist = f"history {ops}; pressure matrix of frame {t} built after stress solve {sargs}, solved with {pop}"
                    if has_excl and nss > 1:
                        fails.append(_fail(spec, f"pressures use the stale tension of an excluded interface ({key})",
                                           f"frame {t}: {len(bad)} entries differ from a fresh object; {hist}", key=K_STALE))
                    else:
                        fails.append(_fail(spec, f"history changes what is reported ({key})",
                                           f"frame {t}: {len(bad)} entries differ, e.g. {bad[0]}; {hist}"))
            compared += 1
        elif not any(r_[1]["op"] == "sp" and r_[1].get("t") == t for r_ in raised):     # a raising solve leaves partial state
            if G0 is None:
                G0, _ = fresh_run([])
            ref = observe(G0, t)
            for key in pres_keys:
                a, b = oh[key], ref[key]
                if isinstance(a, dict) and "id" in a:
                    a, b = a["pressure"], b["pressure"]
                if _diff_map(a, b, 1e-12):
                    fails.append(_fail(spec, f"frame whose pressures were never solved reports pressures ({key})",
                                       f"frame {t}; history {ops}"))
    # one failure per key and case is enough
    info.update(ops=len(ops), compared=compared, solved_frames=len(last_ss), pressure_frames=len(last_sp),
                raised=len(raised), limit=round(limit, 4),
                resolves=sum(1 for t, c in ss_count.items() if c > 1),
                nontrivial=bool(compared > 0 and len(ops) > 2))
    return dict(spec=spec, info=info, fails=fails)



# ======================================================================================================
# runner
# ======================================================================================================
_CASE = dict(B13=_case_b13, B12=_case_b12, B03=_case_b03, B10=_case_b10)


def _run_case(spec):
    t0 = time.time()
    old = None
    try:
        old = signal.signal(signal.SIGALRM, _alarm)
        signal.alarm(int(spec.get("cap", CASE_CAP)))
    except ValueError:                                                # not in the main thread
        old = None
    try:
        with contextlib.redirect_stdout(io.StringIO()), warnings.catch_warnings(), np.errstate(**_NP_ERR):
            warnings.simplefilter("ignore")
            r = _CASE[spec["check"]](spec)
    except _Timeout:
        r = dict(spec=spec, info=dict(obs=[], rejected="timeout"),
                 fails=[_fail(spec, "time cap exceeded", f"case did not finish within {spec.get('cap', CASE_CAP)} s")])
    except Exception as e:                                            # noqa
        r = dict(spec=spec, info=dict(obs=[]),
                 fails=[_fail(spec, "harness error", f"{type(e).__name__}: {e}\n{traceback.format_exc()[-900:]}")])
    finally:
        if old is not None:
            signal.alarm(0)
            signal.signal(signal.SIGALRM, old)
        np.seterr(**_NP_ERR)
    seen, uniq = {}, []
    for f in r["fails"]:                                             # one failure per key and case
        if f["key"] in seen:
            seen[f["key"]]["repeats"] = seen[f["key"]].get("repeats", 1) + 1
        else:
            seen[f["key"]] = f
            uniq.append(f)
    r["fails"] = uniq
    r["seconds"] = round(time.time() - t0, 3)
    return r


def _cost(spec):
    ts = spec.get("tissue", {})
    size = (ts.get("n", 12) if ts.get("kind") == "voronoi" else 12) * (ts.get("pts", 0) + 1)
    lsq = 1 + 4 * sum(1 for o in spec.get("ops", []) if o.get("m") == "lsq") + 2 * sum(1 for c in spec.get("solves", []) if c.get("method") == "lsq")
    return size * spec.get("n", 3) * (1 + len(spec.get("ops", []))) * (1 + len(spec.get("solves", []))) * lsq


_POOL = None


def _get_pool():
    global _POOL
    if _POOL is None:
        import atexit
        n = min(NPROC, os.cpu_count() or 1)
        _POOL = (mp.get_context("spawn").Pool(n), n)
        atexit.register(_close_pool)
    return _POOL


def _close_pool():
    global _POOL
    if _POOL is not None:
        try:
            _POOL[0].terminate()
            _POOL[0].join()
        except Exception:      # noqa
            pass
        _POOL = None


def _run_all(specs):
    specs = sorted(specs, key=lambda s: -_cost(s))
    serial = mp.current_process().daemon or os.environ.get("FVC_BOUNDED_SERIAL") or len(specs) < 8
    if serial:
        return [_run_case(s) for s in specs]
    pool, n = _get_pool()
    return list(pool.imap_unordered(_run_case, specs, chunksize=max(1, min(8, len(specs) // (n * 8)))))


def _aggregate(results, rule, known_keys=()):
    results = sorted(results, key=lambda r: _key(r["spec"]))
    nontrivial = {(r["info"].get("hash"), _key({k: v for k, v in r["spec"].items() if k != "tissue"}))
                  for r in results if r["info"].get("nontrivial") and r["info"].get("hash")}
    groups = defaultdict(list)
    for r in results:
        for f in r["fails"]:
            groups[f["key"]].append(f)
    failures = []
    for key in sorted(groups):
        fs_ = groups[key]
        rep = dict(min(fs_, key=lambda f: (len(json.dumps(f["input"], default=str)), json.dumps(f["input"], sort_keys=True, default=str))))
        if len(fs_) > 1:
            rep["detail"] = rep["detail"] + f"  [{len(fs_)} generated inputs fail with this key; smallest shown]"
        failures.append(rep)
    samples = []
    for r in results[:: max(1, len(results) // 4)][:4]:
        samples.append(dict(input=_jsonable(r["spec"]),
                            observed=_jsonable({k: v for k, v in r["info"].items() if k not in ("obs",)}),
                            failures=len(r["fails"])))
    obs = Counter(o for r in results for o in r["info"].get("obs", []))
    return dict(evaluations=len(results), distinct_nontrivial=len(nontrivial), rule=rule, samples=samples,
                failures=failures, rejected=sum(1 for r in results if r["info"].get("rejected")),
                observations=[f"{k} ({n} cases)" for k, n in sorted(obs.items())],
                cpu_seconds=round(sum(r.get("seconds", 0) for r in results), 1))


# ======================================================================================================
# case generators
# ======================================================================================================
def _rand_tissue(rng, pts_choices=(0, 1, 2, 4, 8), big=False, curved=True):
    r = rng.random()
    pts = int(rng.choice(pts_choices))
    if r < 0.55:
        ts = dict(kind="voronoi", n=int(rng.choice((16, 20, 25, 30, 40) if not big else (25, 40, 60))),
                  seed=int(rng.integers(1000)), pts=pts)
    elif r < 0.75:
        ts = dict(kind="hex_patch", seed=int(rng.integers(1000)), pts=pts)
    elif r < 0.92:
        ts = dict(kind="flower", seed=int(rng.integers(1000)), pts=pts)
    else:
        ts = dict(kind="strip", seed=int(rng.integers(1000)), pts=pts)
    if curved and pts > 0 and rng.random() < 0.6:
        ts["moebius"] = dict(strength=round(float(rng.uniform(0.2, 0.8)), 3), seed=int(rng.integers(1000)))
    if rng.random() < 0.5:
        ts["rot"] = round(float(rng.uniform(0, 2 * math.pi)), 4)
    return ts


def _rand_times(rng, n):
    t0 = float(rng.choice([0.0, 1.0, -3.5, 12.25, 100.0]))
    mode = rng.random()
    if mode < 0.2:
        gaps = np.full(n - 1, float(rng.choice([1.0, 0.5, 2.0])))
    else:
        gaps = rng.choice([0.05, 0.1, 0.25, 0.5, 1.0, 2.0, 3.0, 7.5], n - 1) * rng.uniform(0.5, 1.5, n - 1)
    return [round(float(x), 6) for x in np.concatenate([[t0], t0 + np.cumsum(gaps)])]


def _rand_fields(rng, n, kinds=("random", "affine", "flow", "shift"), lo=0.2, hi=0.85):
    return [dict(kind=str(rng.choice(kinds)), frac=round(float(rng.uniform(lo, hi)), 3), seed=int(rng.integers(10 ** 6)))
            for _ in range(n - 1)]


def _rand_numbering(rng, n, p_same=0.15):
    if rng.random() < p_same:
        return [None] * n, [None] * n
    return [int(rng.integers(10 ** 6)) for _ in range(n)], [(int(rng.integers(10 ** 6)) if rng.random() < 0.6 else None)
                                                             for _ in range(n)]


_B13_CONFIGS = [dict(b_matrix=None), dict(b_matrix=None, adimensional_velocity=True),
                dict(b_matrix="velocity"), dict(b_matrix="velocity", adimensional_velocity=False, velocity_normalization=2.5),
                dict(b_matrix="velocity", adimensional_velocity=True),
                dict(b_matrix="velocity", adimensional_velocity=True, velocity_normalization=0.37)]


def _pick_drop(rng, ts, n):
    """a border cell whose removal changes the junction bounding box by < 4 % of the extent (so that the frames stay
    compatible) and the frame from which it is missing"""
    base = make_base(ts)
    bc = border_cells(base)
    if not bc or len(base.cells) < 4 or n < 2:
        return None
    P = {v: np.array(p) for v, p in base.vertices.items()}
    J = set(base.junctions)
    for i in rng.permutation(len(bc)):
        sub = gen.subtissue(base, [c for c in base.cells if c != bc[i]])
        if not sub.junctions:
            continue
        if premise(P, J, P, set(sub.junctions))["shape"] < 0.04:
            return dict(frame=int(rng.integers(1, n)), cell=int(bc[i]))
    return None


def cases_b13(tier, seed):
    rng = np.random.default_rng([13, seed])
    count = 80 if tier == "quick" else 1200
    specs = []
    for i in range(count):
        n = int(rng.integers(2, 7))
        ts = _rand_tissue(rng, pts_choices=(0, 1, 2, 4) if tier == "quick" else (0, 1, 2, 4, 8))
        renum, vorder = _rand_numbering(rng, n)
        spec = dict(check="B13", tissue=ts, n=n, times=_rand_times(rng, n), fields=_rand_fields(rng, n), renum=renum,
                    vorder=vorder, configs=_B13_CONFIGS, pick=int(rng.integers(10 ** 6)))
        if rng.random() < 0.4:
            d = _pick_drop(rng, ts, n)
            if d:
                spec["drop"] = d
        specs.append(spec)
    return specs


def cases_b12(tier, seed):
    rng = np.random.default_rng([12, seed])
    count = 400 if tier == "quick" else 6000
    specs = []
    for i in range(count):
        n = int(rng.integers(2, 7))
        ts = _rand_tissue(rng, pts_choices=(0, 1, 2) if tier == "quick" else (0, 1, 2, 4))
        renum, vorder = _rand_numbering(rng, n)
        spec = dict(check="B12", tissue=ts, n=n, times=_rand_times(rng, n), fields=_rand_fields(rng, n), renum=renum,
                    vorder=vorder, cm=bool(rng.random() < 0.4))
        r = rng.random()
        if r < 0.25:
            spec["guess"] = dict(kind="partial", frac=round(float(rng.uniform(0.05, 0.6)), 2), seed=int(rng.integers(10 ** 6)))
        elif r < 0.35:
            spec["guess"] = dict(kind="swap", seed=int(rng.integers(10 ** 6)))
        r = rng.random()
        if r < 0.15:
            d = _pick_drop(rng, ts, n)
            if d:
                spec["drop"] = d
                spec["cm"] = False
        elif r < 0.30:                                          # unconditional clauses under wild motion
            k = int(rng.integers(n - 1))
            spec["fields"][k] = dict(kind=str(rng.choice(["random", "flow"])), frac=round(float(rng.uniform(1.5, 6.0)), 2),
                                     seed=int(rng.integers(10 ** 6)))
        elif r < 0.42:
            k = int(rng.integers(1, n))
            f = float(rng.uniform(1.5, 2.2))
            fx, fy = ((f, 1.0), (1.0, f), (1.0 / f, 1.0), (f, 1.0 / f))[int(rng.integers(4))]
            spec["stretch"] = dict(frame=k, fx=round(fx, 3), fy=round(fy, 3))
            spec.pop("guess", None)
        specs.append(spec)
    return specs


def cases_b03(tier, seed):
    rng = np.random.default_rng([3, seed])
    count = 90 if tier == "quick" else 1100
    specs = []
    solves_all = [dict(method=m, adim=a) for m in (None, "lsq", "lsq_linear") for a in (False, True)]
    for i in range(count):
        n = int(rng.integers(2, 6))
        r = rng.random()
        pts = int(rng.choice((0, 1, 2, 3, 4, 6, 8)))
        if r < 0.6:
            ts = dict(kind="voronoi", n=int(rng.choice((20, 25, 30, 40))), seed=int(rng.integers(1000)), pts=pts)
        elif r < 0.8:
            ts = dict(kind="hex_patch", seed=int(rng.integers(1000)), pts=pts)
        else:
            ts = dict(kind="flower", seed=int(rng.integers(1000)), pts=pts)
        if pts > 0 and rng.random() < 0.65:
            ts["moebius"] = dict(strength=round(float(rng.uniform(0.05, 0.6)), 3), seed=int(rng.integers(1000)))
        renum, vorder = _rand_numbering(rng, n, p_same=0.1)
        target = int(rng.choice([0, n // 2, n - 1])) if n > 2 else int(rng.choice([0, n - 1]))
        gaps = [round(float(g), 6) for g in rng.choice([0.05, 0.1, 0.25, 0.5, 1.0, 3.0], n - 1) * rng.uniform(0.5, 1.5, n - 1)]
        solves = solves_all if tier == "thorough" or i % 3 == 0 else \
            [solves_all[int(j)] for j in rng.choice(len(solves_all), 2, replace=False)]
        spec = dict(check="B03", tissue=ts, n=n, target=target, t0=float(rng.choice([0.0, 1.0, -3.5, 12.25])), gaps=gaps,
                    dtfrac=round(float(rng.uniform(0.3, 0.8)), 3), fields=_rand_fields(rng, n, lo=0.1, hi=0.7),
                    renum=renum, vorder=vorder, seed=int(rng.integers(10 ** 6)),
                    tensions=str(rng.choice(["uniform", "lognormal", "equilibrium"])), solves=solves)
        specs.append(spec)
    # the excluded class (known finding): curved tissues evaluated in their given pose
    for i in range(6 if tier == "quick" else 30):
        ts = dict(kind=str(rng.choice(["hex_patch", "flower", "voronoi"])), n=25, seed=int(rng.integers(1000)),
                  pts=int(rng.choice((1, 2, 4))), moebius=dict(strength=round(float(rng.uniform(0.5, 0.8)), 3), seed=int(rng.integers(1000))),
                  rot=round(float(rng.uniform(0, 2 * math.pi)), 4))
        specs.append(dict(check="B03", tissue=ts, n=3, target=int(rng.integers(3)), t0=0.0, gaps=[0.5, 0.25], dtfrac=0.5,
                          fields=_rand_fields(rng, 3, lo=0.1, hi=0.5), renum=[None] * 3, vorder=[None] * 3,
                          seed=int(rng.integers(10 ** 6)), tensions="uniform", solves=[dict(method=None, adim=False)],
                          allow_kf=True))
    return specs


def _rand_history(rng, length, n=3):
    fb, pb = {}, set()
    ops = []
    while len(ops) < length:
        r = rng.random()
        t = int(rng.integers(n))
        if r < 0.27 or (not fb and r < 0.6):
            al = bool(rng.random() < 0.4)
            op = dict(op="bf", t=t, al=al, fit=str(rng.choice(["dlite", "taubinSVD"])))
            fb[t] = op
        elif r < 0.62 and fb:
            t = int(rng.choice(sorted(fb)))
            ms = [None, None, "lsq_linear"] + ([] if fb[t].get("al") else ["lsq"])
            m = ms[int(rng.integers(len(ms)))]
            op = dict(op="ss", t=t, m=m, b=(None if rng.random() < 0.5 else "velocity"), ad=bool(rng.random() < 0.5))
            if rng.random() < 0.6:
                op["an"] = bool(rng.random() < 0.3)
        elif r < 0.75:
            op = dict(op="bp", t=t)
            pb.add(t)
        elif r < 0.92 and pb:
            t = int(rng.choice(sorted(pb)))
            op = dict(op="sp", t=t, m="lagrange_pressure")
            if rng.random() < 0.3:
                op["an"] = bool(rng.random() < 0.5)
        elif r >= 0.92:
            al = bool(rng.random() < 0.3)
            op = dict(op="sv", al=al)
            for k in range(n):
                fb[k] = dict(al=al)
        else:
            continue
        ops.append(op)
    if not any(o["op"] == "ss" for o in ops):
        t = int(rng.choice(sorted(fb))) if fb else 0
        if not fb:
            ops.append(dict(op="bf", t=t, al=False, fit="dlite"))
        ops.append(dict(op="ss", t=t, m=None, b=None, ad=False))
    return ops


def cases_b10(tier, seed):
    rng = np.random.default_rng([10, seed])
    count = 120 if tier == "quick" else 1600
    specs = []
    for i in range(count):
        r = rng.random()
        pts = int(rng.choice((1, 2, 3, 4)))
        if r < 0.4:
            ts = dict(kind="voronoi", n=int(rng.choice((16, 20, 25))), seed=int(rng.integers(1000)), pts=pts)
        elif r < 0.7:
            ts = dict(kind="hex_patch", seed=int(rng.integers(1000)), pts=pts)
        else:
            ts = dict(kind="flower", seed=int(rng.integers(1000)), pts=pts)
        if rng.random() < 0.7:
            ts["moebius"] = dict(strength=round(float(rng.uniform(0.2, 0.8)), 3), seed=int(rng.integers(1000)))
        if rng.random() < 0.5:
            ts["rot"] = round(float(rng.uniform(0, 2 * math.pi)), 4)
        if tier == "quick":
            length = int(rng.integers(2, 5))
        else:
            length = int(rng.integers(2, 9)) if i % 10 else int(rng.integers(9, 13))
        renum, vorder = _rand_numbering(rng, 3, p_same=0.3)
        specs.append(dict(check="B10", tissue=ts, n=3, times=_rand_times(rng, 3), fields=_rand_fields(rng, 3, lo=0.2, hi=0.7),
                          renum=renum, vorder=vorder, ops=_rand_history(rng, length), limit=None))
    # dedicated probes of the known defects
    for i in range(2 if tier == "quick" else 6):
        ts = dict(kind=("hex_patch", "flower")[i % 2], seed=int(rng.integers(1000)), pts=2,
                  moebius=dict(strength=0.5, seed=int(rng.integers(1000))))
        common = dict(check="B10", tissue=ts, n=3, times=[0.0, 1.0, 2.5], fields=_rand_fields(rng, 3, lo=0.2, hi=0.5),
                      renum=[None] * 3, vorder=[None] * 3, limit=None)
        specs.append(dict(common, ops=[dict(op="bf", t=1, al=False, fit="dlite"), dict(op="ss", t=1, m="fix_stress", b=None, ad=False)],
                          probe="fix_stress"))
        big = dict(common, tissue=dict(kind="voronoi", n=30, seed=int(rng.integers(1000)), pts=1,
                                       moebius=dict(strength=0.4, seed=int(rng.integers(1000)))))
        specs.append(dict(big, ops=[dict(op="bf", t=1, al=True, fit="dlite"), dict(op="ss", t=1, m="lsq", b=None, ad=False)],
                          probe="lsq_exclusion", limit_frame=1,
                          limit_candidates=[round(x * math.pi, 6) for x in (0.97, 0.95, 0.93, 0.9, 0.87, 0.85, 0.8)]))
        specs.append(dict(common, ops=[dict(op="bf", t=1, al=False, fit="dlite"), dict(op="ss", t=1, m=None, b=None, ad=False),
                                       dict(op="bp", t=1), dict(op="sp", t=1, m=None)], probe="pressure_default"))
    # directed: the same frame solved without and then with an angle limit (and the reverse), optionally pressures
    for i in range(8 if tier == "quick" else 60):
        ts = dict(kind=("hex_patch", "flower", "voronoi")[i % 3], n=20, seed=int(rng.integers(1000)), pts=int(rng.choice((2, 3))),
                  moebius=dict(strength=round(float(rng.uniform(0.3, 0.7)), 3), seed=int(rng.integers(1000))))
        t = int(rng.integers(3))
        first, second = (False, True) if i % 4 != 3 else (True, False)
        ops = [dict(op="bf", t=t, al=first, fit="dlite"), dict(op="ss", t=t, m=None, b=("velocity" if i % 2 else None), ad=False),
               dict(op="bf", t=t, al=second, fit="dlite"), dict(op="ss", t=t, m=(None if i % 3 else "lsq_linear"), b=None, ad=False)]
        if i % 2:
            ops += [dict(op="bp", t=t), dict(op="sp", t=t, m="lagrange_pressure")]
        renum, vorder = _rand_numbering(rng, 3, p_same=0.3)
        specs.append(dict(check="B10", tissue=ts, n=3, times=_rand_times(rng, 3), fields=_rand_fields(rng, 3, lo=0.2, hi=0.7),
                          renum=renum, vorder=vorder, ops=ops, limit=None))
    # directed: tensions and pressures of two or three frames solved one after the other on the same object
    for i in range(4 if tier == "quick" else 30):
        ts = dict(kind=("flower", "hex_patch")[i % 2], seed=int(rng.integers(1000)), pts=int(rng.choice((2, 3))),
                  moebius=dict(strength=round(float(rng.uniform(0.3, 0.7)), 3), seed=int(rng.integers(1000))))
        order = [int(x) for x in rng.permutation(3)][: 2 + i % 2]
        ops = []
        for t in order:
            ops += [dict(op="bf", t=t, al=False, fit="dlite"), dict(op="ss", t=t, m=None, b=("velocity" if rng.random() < 0.5 else None), ad=False),
                    dict(op="bp", t=t), dict(op="sp", t=t, m="lagrange_pressure")]
        renum, vorder = _rand_numbering(rng, 3, p_same=0.3)
        specs.append(dict(check="B10", tissue=ts, n=3, times=_rand_times(rng, 3), fields=_rand_fields(rng, 3, lo=0.2, hi=0.7),
                          renum=renum, vorder=vorder, ops=ops, limit=None))
    return specs


# ======================================================================================================
# registration
# ======================================================================================================
@bounded("B13", ["C13"], "velocities are finite differences of tracked vertices over the real elapsed time; velocity term of the system",
         bound="series of 2..6 frames of Voronoi tissues (16..40 sites), 9-cell hexagonal patch, 7-cell flower and strip, 0..8 "
               "sample points per interface, optionally curved (Moebius) and rotated; random increasing time stamps with "
               "unequal steps; random / affine / flowing / shifting displacement fields scaled to 20..85 % of the tracking "
               "limit (half the smallest junction spacing, 8 % of the extent, shape change < 9 %); independent random ids "
               "(with gaps) and dictionary orders per frame; 40 % of the series lose a border cell in a later frame; every "
               "junction and 12 other vertices per frame; right-hand side for static / dimensional / adimensional mode and "
               "velocity_normalization 1, 2.5, 0.37; quick 80 series, thorough 1200")
def run_b13(tier, seed):
    res = _run_all(cases_b13(tier, seed))
    return _aggregate(res, "case = one time series; expected velocity = (position of the vertex that forsys' own mapping "
                           "dictionaries assign (successor, or unique predecessor at the last frame) - own position) / "
                           "(difference of the Frame.time stamps), zero without partner, positions and times taken from the "
                           "generator, relative tolerance 1e-9; right-hand side rebuilt from these velocities through "
                           "map_vid_to_row; non-trivial = at least one tracked vertex moves; distinct = distinct "
                           "(mesh hash, series parameters)")


@bounded("B12", ["C12"], "vertex tracking between frames: end points to end points, injective, honours pairings, follows small motions",
         bound="series of 2..6 frames of the tissues of B13 (0..4 sample points per interface); displacement fields inside the "
               "tracking bounds (20..85 % of the limit) for the true-successor and round-trip clauses, 15 % of the series with "
               "one wild transition (1.5..6 x the limit) and 15 % losing a border cell for the unconditional clauses "
               "(injective, end points, pairings); cm on (zero-mean fields) / off; partial true initial_guess (5..60 % of the "
               "junctions) or one swapped pair; anisotropic stretch by 1.5..2.2 (shape change > 25 %) must give mapping None; "
               "quick 400 series, thorough 6000")
def run_b12(tier, seed):
    res = _run_all(cases_b12(tier, seed))
    return _aggregate(res, "case = one time series; the truth is the generator's base vertex identity carried through the "
                           "independent renumberings; the premise (displacement < 0.45 x smallest junction spacing of both "
                           "frames, < 7.2 % of the extent, shape change < 9 %) is measured on the generated coordinates (after "
                           "recentring when cm=True); non-trivial = a true-successor comparison was made or the series has a "
                           "wild / dropping / stretching transition")


@bounded("B03", ["C03"], "velocity-based inference recovers exactly known tensions (unit mobility) at the first, a middle and the last frame",
         bound="arc/line tissues: Voronoi (20..40 sites), 9-cell hexagonal patch, 7-cell flower with 0..8 sample points per "
               "interface, straight or Moebius-curved (strength 0.05..0.6; curved only with >= 1 sample point), in a pose "
               "outside the sign-forcing class; positive tensions of mean one (uniform 0.5..1.5, log-normal, perturbed "
               "equilibrium); series of 2..5 frames, inference at the first / middle / last frame, time step of the "
               "determining transition = 30..80 % of the tracking limit / largest resultant, other steps random (unequal); "
               "independent ids and dictionary orders per frame; methods default, 'lsq', 'lsq_linear' x adimensional off / on "
               "(velocity_normalization = analytic mean junction speed); systems with 2 x junctions >= interfaces, full rank "
               "and rounding tolerance <= 5e-2 only; quick 90 series (2 or 6 configurations each) + 6 probes of the excluded "
               "class, thorough 1100 + 30")
def run_b03(tier, seed):
    res = _run_all(cases_b03(tier, seed))
    out = _aggregate(res, "case = (tissue, tensions T, series); frame t+-1 = frame t with every used junction j moved by "
                          "(time difference) x R_j, R_j = sum_e T_e tau_je from the generator's analytic unit tangents; other "
                          "vertices follow a random field inside the tracking bounds.  Tolerance per tension i: "
                          "3 x (5e-4 x sum_j |pinv(K)_ij| + sum_j |pinv(K)_ij| |dA T|_j) (+1e-5 for lmfit), K = augmented "
                          "matrix [[A,1],[1,0]] (default, lsq) or its normal-equation form [[A^T A,1],[1,0]] (lsq_linear: A^T b "
                          "is what gets rounded), maximised over multiplier free / clamped at 0, dA = measured difference "
                          "between forsys' fitted tangents and the analytic ones (gate 5e-3; larger outside the class = separate failure); non-trivial = at least one "
                          "configuration compared, outside the sign-forcing class")
    kf_excl = sum(1 for r in res if r["info"].get("kf_excluded"))
    kf_probe = sum(1 for r in res if r["info"].get("kf_case"))
    ratios = [r["info"].get("worst_err_over_tol", 0) for r in res if r["info"].get("nontrivial")]
    dAs = [r["info"]["max_tangent_error"] for r in res if r["info"].get("nontrivial") and "max_tangent_error" in r["info"]]
    tols = [r["info"]["tol_max"] for r in res if r["info"].get("nontrivial")]
    out.update(configurations_compared=sum(r["info"].get("solved", 0) for r in res),
               excluded_sign_forcing_class=kf_excl, probes_inside_sign_forcing_class=kf_probe,
               worst_error_over_tolerance=max(ratios, default=0.0),
               max_tangent_difference_in_compared_cases=max(dAs, default=None),
               tolerance_median=float(np.median(tols)) if tols else None, tolerance_max=max(tols, default=None))
    return out


@bounded("B10", ["C10"], "reported tensions / pressures are a pure function of frame data and the last call's arguments",
         bound="3-frame series (unequal time steps, independent ids) of small arc tissues (Voronoi 16..25 sites, hexagonal "
               "patch, flower; 1..4 sample points per interface, mostly Moebius-curved); random histories of "
               "build_force_matrix(angle limit inf or the first of 0.8/0.75/0.7 pi that excludes interfaces, circle fit "
               "dlite/taubinSVD), solve_stress(method default/'lsq'/'lsq_linear', static or velocity mode, adimensional "
               "on/off, allow_negatives), build_pressure_matrix, solve_pressure(lagrange_pressure or none), "
               "get_system_velocity_per_frame, over the three frames in any order; length 2..4 (quick), 2..8 and every tenth "
               "9..12 (thorough); 'lsq' is not combined with a finite angle limit and 'fix_stress' is not used except in "
               "dedicated probes (fix_stress, lsq with exclusion, solve_pressure without method); plus directed histories: the "
               "same frame solved without and then with the angle limit (and reverse, 8 / 60), and two or three frames solved "
               "for tensions and pressures one after the other (4 / 30); quick 120 random histories, thorough 1600")
def run_b10(tier, seed):
    res = _run_all(cases_b10(tier, seed))
    out = _aggregate(res, "case = (series, history); for every frame the observables after the history (F.forces[t], "
                          "frame.forces, get_tensions with/without border, BigEdge.tension, SmallEdge.tension, cell.pressure, "
                          "F.pressures[t], get_pressures) are compared with a FRESH ForSys on fresh frames of the same tissues "
                          "on which only build+solve with the arguments of the frame's last stress solve ran (pressures: the "
                          "stress solve that preceded the last build_pressure_matrix, then build+solve pressure); frames never "
                          "solved must look like an untouched object; relative tolerance 1e-9 (lsq 1e-6, pressures 1e-8); "
                          "plus the static clauses on the object with history; non-trivial = history of >= 3 operations with "
                          "at least one comparison")
    out.update(histories_with_resolve=sum(1 for r in res if r["info"].get("resolves")),
               frames_compared=sum(r["info"].get("compared", 0) for r in res),
               operations_raising=sum(r["info"].get("raised", 0) for r in res))
    return out


def replay(failure):
    """re-run the recorded input; True if it passes now"""
    spec = failure["input"]
    r = _run_case(spec)
    for f in r["fails"]:
        print("still failing:", f["key"], "-", f["detail"][:600])
    return not r["fails"]
