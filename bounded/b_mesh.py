"""Bounded stand-ins B08 (C08 interface decomposition), B09 (C09 mesh consistency), B11 (C11 resampling).

Every case is described by a small JSON-able `spec`; `_run_case(spec)` rebuilds the input from the spec, runs the REAL
forsys code on it and compares with expectations derived here (own graph walk on plain-data snapshots).  `replay`
re-runs the spec stored in a failure.  Set FVC_REPO to test a scratch copy of forsys.
"""
import contextlib
import hashlib
import io
import itertools
import json
import math
import multiprocessing as mp
import os
import sys
import tempfile
import time
import traceback
from collections import Counter, defaultdict

if os.environ.get("FVC_REPO"):
    sys.path.insert(0, os.environ["FVC_REPO"])

import numpy as np

from fvc.registry import bounded
from bounded import gen
from bounded.meshwf import mesh_wf, clause_of

REPO_DATA = "/repo/tests/data"
DMP_FILES = (["initial_furrow.dmp", "last_furrow.dmp"]
             + [f"furrow_gauss_velocity/stage{i}.dmp" for i in range(8)]
             + [f"12_12/step_{i}.dmp" for i in range(20, 25)])
TIF_FILES = ["test_nonzero.tif", "experimental/exp_1.tif"]
NPROC = 16


def _fs():
    return gen.forsys_modules()


# ======================================================================================================
# plain-data snapshots and the independent interface walk
# ======================================================================================================
def snap(vertices, edges, cells):
    """plain-data copy (no forsys object survives this call)"""
    V = {int(k): (float(v.x), float(v.y)) for k, v in vertices.items()}
    E = {int(k): (int(e.v1.id), int(e.v2.id)) for k, e in edges.items()}
    C = {int(k): [int(v.id) for v in c.vertices] for k, c in cells.items()}
    return dict(V=V, E=E, C=C)


def snap_tissue(t):
    return dict(V=dict(t.vertices), E=dict(t.edges), C={c: list(v) for c, v in t.cells.items()})


def shape_hash(S):
    s = repr((sorted((k, tuple(v)) for k, v in S["C"].items()), sorted(S["E"].items())))
    return hashlib.sha1(s.encode()).hexdigest()[:12]


def canon(path):
    p = tuple(int(x) for x in path)
    r = p[::-1]
    return p if p <= r else r


def walk(S):
    """junctions (>= 3 mesh edges), interfaces (maximal junction-to-junction paths through 2-edge vertices, each as
    (vertex path, edge-id path)), degree map.  Mesh edges are taken from S['E'] only."""
    inc = defaultdict(list)
    for eid, (a, b) in S["E"].items():
        inc[a].append((eid, b))
        inc[b].append((eid, a))
    deg = {v: len(inc[v]) for v in S["V"]}
    J = {v for v, d in deg.items() if d >= 3}
    used, out = set(), []
    for j in sorted(J):
        for eid, nxt in inc[j]:
            if eid in used:
                continue
            path, eids = [j, nxt], [eid]
            trail = {eid}
            good = True
            while path[-1] not in J:
                cur = path[-1]
                if deg.get(cur, 0) != 2:
                    good = False
                    break
                (e1, o1), (e2, o2) = inc[cur]
                e, o = (e2, o2) if e1 == eids[-1] else (e1, o1)
                path.append(o)
                eids.append(e)
                trail.add(e)
            used |= trail
            if good:
                out.append((path, eids))
    return J, out, deg


def cells_of_vertex(S):
    m = defaultdict(set)
    for c, cyc in S["C"].items():
        for v in cyc:
            m[v].add(c)
    return m


def pair_cells(S):
    """frozenset({a,b}) -> set of cells in whose cycle a,b are consecutive"""
    m = defaultdict(set)
    for c, cyc in S["C"].items():
        n = len(cyc)
        for i in range(n):
            if n > 1:
                m[frozenset((cyc[i], cyc[(i + 1) % n]))].add(c)
    return m


def is_cyclic_subsequence(small, big):
    """small (a cycle) can be obtained from cycle big by deleting elements (orientation kept)"""
    n, m = len(big), len(small)
    if m == 0:
        return True
    if m > n:
        return False
    for s in range(n):
        if big[s] != small[0]:
            continue
        j = 1
        for k in range(1, n):
            if j < m and big[(s + k) % n] == small[j]:
                j += 1
        if j == m:
            return True
    return False


# ======================================================================================================
# tissue specs
# ======================================================================================================
def make_tissue(ts):
    """ts: dict(base, seed, pts, [n], [subset], [moebius, mseed], [resample], [xf], [shift], [flip], [renum, gaps])"""
    base = ts["base"]
    if base == "voronoi":
        # sample points are added after taking the subset (same result as generating them first, much cheaper)
        t = gen.voronoi_tissue(ts["n"], ts["seed"], pts=0)
        if ts.get("subset") is not None:
            t = gen.subtissue(t, ts["subset"])
        if ts.get("pts", 0):
            t = gen.resample(t, ts["pts"])
    elif base == "strip":
        t = gen.strip(ts.get("n", 6), ts["seed"], pts=ts.get("pts", 0))
    else:
        t = gen.BASE_TISSUES[base](ts["seed"], pts=ts.get("pts", 0))
    if ts.get("subset") is not None and base != "voronoi":
        t = gen.subtissue(t, ts["subset"])
    if ts.get("moebius") is not None:
        t = gen.moebius_image(t, strength=ts["moebius"], seed=ts.get("mseed", 0))
    if ts.get("resample") is not None:
        t = gen.resample(t, ts["resample"])
    if ts.get("xf") is not None:
        x = ts["xf"]
        t = gen.transform(t, angle=x.get("angle", 0.0), shift=tuple(x.get("shift", (0.0, 0.0))),
                          scale=x.get("scale", 1.0), reflect=x.get("reflect", False))
    if ts.get("shift") is not None:
        t = gen.shift_cycles(t, ts["shift"])
    if ts.get("flip"):
        t = gen.flip_cells(t, [c for c in ts["flip"] if c in t.cells])
    if ts.get("renum") is not None:
        t = gen.renumber(t, ts["renum"], gaps=ts.get("gaps", True))
    return t


def _key(spec):
    return hashlib.sha1(json.dumps(spec, sort_keys=True, default=str).encode()).hexdigest()[:16]


def _fail(spec, name, detail, cause=None):
    """failure record.  Normally keyed by the input; failures attributed to a known root cause (`cause`) share one
    key per (check, cause) so that they can be listed as one known finding independent of the seed."""
    key = f"{spec['check']}:{cause}" if cause else f"{spec['check']}:{_key(spec)}:{name}"
    return dict(key=key, name=name, input=spec, detail=str(detail)[:1500])


# ======================================================================================================
# C08
# ======================================================================================================
def check_c08(fr, S):
    """list of (clause, detail) violations of C08 for Frame `fr` whose mesh has plain snapshot S"""
    out = []
    J, ifaces, deg = walk(S)
    vcells = cells_of_vertex(S)
    pcells = pair_cells(S)
    got_list = [[int(x) for x in p] for p in fr.big_edges_list]
    got = Counter(canon(p) for p in got_list)
    exp = Counter(canon(p) for p, _ in ifaces)
    # only interfaces lying on a cell with a junction are demanded
    jcells = {c for c, cyc in S["C"].items() if any(v in J for v in cyc)}
    exp_req = Counter({k: n for k, n in exp.items()
                       if len(k) >= 2 and (pcells.get(frozenset(k[:2]), set()) & jcells)})
    dup = [k for k, n in got.items() if n > 1]
    if dup:
        out.append(("listed-twice", f"interfaces listed more than once (either direction): {dup[:3]}"))
    missing = [k for k in exp_req if k not in got]
    extra = [k for k in got if k not in exp]
    if missing:
        out.append(("decomposition", f"{len(missing)} maximal junction-to-junction paths are not listed, e.g. {missing[:2]}"))
    if extra:
        out.append(("decomposition", f"{len(extra)} listed interfaces are not maximal junction-to-junction paths, e.g. {extra[:2]}"))
    # big_edges mirrors the list
    if sorted(fr.big_edges.keys()) != list(range(len(got_list))):
        out.append(("big_edges-keys", f"big_edges keys {sorted(fr.big_edges.keys())[:5]}.. do not index big_edges_list"))
    cover = Counter()
    internal_exp = set()
    for i, p in enumerate(got_list):
        be = fr.big_edges.get(i)
        if be is None:
            continue
        if [int(v.id) for v in be.vertices] != p or be.big_edge_id != i:
            out.append(("big_edges-mirror", f"big_edges[{i}] has vertices {[v.id for v in be.vertices][:6]} id {be.big_edge_id}, list entry {p[:6]}"))
            continue
        eids = [int(e) for e in be.edges]
        okp = len(eids) == len(p) - 1 and all(
            e in S["E"] and set(S["E"][e]) == {p[k], p[k + 1]} for k, e in enumerate(eids))
        if not okp:
            out.append(("interface-edges", f"interface {i} {p[:6]}: edges {eids[:6]} do not join its consecutive vertices"))
        cover.update(eids)
        cl = [vcells.get(v, set()) for v in p]
        internal = all(len(c) >= 2 for c in cl) and (len(cl[0]) >= 3 or len(cl[-1]) >= 3)
        if internal:
            internal_exp.add(i)
        if bool(be.external) != (not internal):
            out.append(("external-flag", f"interface {i} {p[:6]}: external={be.external} but cells per vertex "
                                         f"{[len(c) for c in cl][:8]} make it {'internal' if internal else 'external'}"))
        if internal:
            sep = pcells.get(frozenset(p[:2]), set())
            own = [int(c) for c in be.own_cells]
            if len(sep) != 2 or set(own) != sep or len(own) != 2:
                out.append(("two-cells", f"internal interface {i} {p[:6]}: own_cells={own}, cells on its first mesh edge={sorted(sep)}"))
    # every mesh edge of a cell that has a junction lies in exactly one interface
    bad_cov = []
    edge_by_pair = defaultdict(list)
    for e, ab in S["E"].items():
        edge_by_pair[frozenset(ab)].append(e)
    for c in sorted(jcells):
        cyc = S["C"][c]
        n = len(cyc)
        for k in range(n):
            for e in edge_by_pair.get(frozenset((cyc[k], cyc[(k + 1) % n])), []):
                if cover.get(e, 0) != 1:
                    bad_cov.append((c, e, cover.get(e, 0)))
    if bad_cov:
        out.append(("edge-partition", f"{len(bad_cov)} (cell, mesh edge, #interfaces containing it) != 1, e.g. {bad_cov[:3]}"))
    # internal list, tensions table
    ibe = list(fr.internal_big_edges)
    ids = [int(b.big_edge_id) for b in ibe]
    if sorted(ids) != sorted(internal_exp) or any(fr.big_edges.get(b.big_edge_id) is not b for b in ibe):
        out.append(("internal-list", f"internal_big_edges ids {sorted(ids)[:8]} expected {sorted(internal_exp)[:8]} "
                                     f"(sizes {len(ids)}/{len(internal_exp)})"))
    obs = []
    try:
        tab = [int(x) for x in fr.get_tensions()["id"].tolist()]
    except Exception as ex:        # noqa
        tab = None
        if not got_list:
            # a frame without any interface (single cell): nothing to tabulate; the statement does not say what the
            # table of an interface-free frame looks like, so the AttributeError is only recorded
            obs.append(f"get_tensions() on a frame without interfaces raised {type(ex).__name__}")
        else:
            out.append(("tensions-table", f"get_tensions() raised {ex!r}"))
    if tab is not None and sorted(tab) != sorted(internal_exp):
        out.append(("tensions-table", f"get_tensions() ids {sorted(tab)[:8]} expected {sorted(internal_exp)[:8]} "
                                      f"(sizes {len(tab)}/{len(internal_exp)})"))
    # lookup by cells
    nlook = 0
    for i in sorted(internal_exp):
        p = got_list[i]
        if len(p) < 3:
            continue
        sep = sorted(pcells.get(frozenset(p[:2]), set()))
        if len(sep) != 2:
            continue
        for a, b in (sep, sep[::-1]):
            nlook += 1
            try:
                r = fr.get_big_edge_by_cells(a, b)
            except Exception as ex:        # noqa
                out.append(("lookup", f"get_big_edge_by_cells({a},{b}) raised {ex!r}; expected interface {i}"))
                break
            if r is not fr.big_edges[i]:
                out.append(("lookup", f"get_big_edge_by_cells({a},{b}) returned interface {getattr(r, 'big_edge_id', r)}; expected {i}"))
                break
    stats = dict(junctions=len(J), interfaces=len(got_list), internal=len(internal_exp), lookups=nlook,
                 lens=sorted({len(p) for p in got_list}), obs=obs)
    return out, stats


def _case_b08(spec):
    """spec: dict(check='B08', source=src, pre=[[ne, rse], ...])"""
    fs = _fs()
    fails = []
    info = dict(nontrivial=False, hash=None)
    try:
        t = None
        if spec["source"]["kind"] == "gen":
            t = make_tissue(spec["source"]["tissue"])
            v, e, c = gen.build(t)
        else:
            v, e, c = open_source(spec["source"])
        for ne, rse in spec.get("pre", []):
            _, chain = contraction_plan(snap(v, e, c), ne, rse)
            try:
                v, e, c, _ = fs.virtual_edges.generate_mesh(v, e, c, ne=ne, replace_short_edges=rse)
            except Exception:      # noqa  (resampling itself is the business of B09/B11, not of this check)
                info["rejected"] = True
                return dict(spec=spec, fails=[], info=info)
            if chain and mesh_wf(v, e, c):
                info["rejected"] = True        # inconsistent mesh after a chain contraction: reported by B09
                return dict(spec=spec, fails=[], info=info)
        S = snap(v, e, c)
        if len({frozenset(ab) for ab in S["E"].values()}) != len(S["E"]):
            info["rejected"] = True            # parallel mesh edges: vertex paths cannot tell the interfaces apart
            info["obs"] = ["mesh with parallel mesh edges skipped"]
            return dict(spec=spec, fails=[], info=info)
        fr = fs.frames.Frame(0, v, e, c, time=0.0)
        viol, stats = check_c08(fr, S)
        if not spec.get("pre") and t is not None:
            # cross-check the walk with the generator's own ground truth
            gt = Counter(canon(i["path"]) for i in t.interfaces)
            mine = Counter(canon(p) for p, _ in walk(S)[1])
            if gt != mine:
                viol.append(("oracle-mismatch", "b_mesh.walk and gen.Tissue.interfaces disagree (harness defect)"))
        info.update(stats)
        info["nontrivial"] = stats["junctions"] > 0
        info["hash"] = shape_hash(S)
        for name, detail in viol:
            fails.append(_fail(spec, name, detail))
    except Exception:      # noqa
        fails.append(_fail(spec, "crash", traceback.format_exc()[-1200:]))
    return dict(spec=spec, fails=fails, info=info)


# ======================================================================================================
# mesh sources (parsers) for C09 / C11
# ======================================================================================================
def wkt_of(t):
    """list of WKT polygon strings (closed rings) in the dialect forsys.wkt.create_lattice reads (y is stored 1024-y)"""
    rows = []
    for cyc in t.cells.values():
        pts = [t.vertices[v] for v in cyc]
        pts = pts + pts[:1]
        rows.append("POLYGON ((" + ", ".join(f"{x!r} {1024.0 - y!r}" for x, y in pts) + "))")
    return rows


def write_dmp(t, path, only_cells=None):
    """Surface Evolver dump in the layout forsys.surface_evolver reads (edge ids renumbered from 1);
    only_cells: write faces/bodies of these cells only (leaves vertices and edges without a cell in the file)"""
    emap = {e: i + 1 for i, e in enumerate(t.edges)}
    by_pair = {}
    for e, (a, b) in t.edges.items():
        by_pair[(a, b)] = emap[e]
        by_pair[(b, a)] = -emap[e]
    L = ["// generated", "", "vertices        /*  coordinates  */    "]
    for v, (x, y) in t.vertices.items():
        L.append(f"  {v}   {x:.15g}  {y:.15g}")
    L += ["", "edges  "]
    for e, (a, b) in t.edges.items():
        L.append(f"  {emap[e]}       {a}  {b}      density {t.edge_tension[e]:.6g} ")
    L += ["", "faces    /* edge loop */      "]
    cells = {c: cyc for c, cyc in t.cells.items() if only_cells is None or c in only_cells}
    for c, cyc in cells.items():
        n = len(cyc)
        loop = [by_pair[(cyc[i], cyc[(i + 1) % n])] for i in range(n)]
        L.append(f"  {c}   " + " ".join(str(x) for x in loop) + " /*area 1*/")
    L += ["", "bodies  /* facets */"]
    for c in cells:
        L.append(f"  {c}       {c}  volume 1  /*actual: 1*/ lagrange_multiplier {t.pressures.get(c, 0.0):.10g}  centerofmass ")
    L += ["", "read", ""]
    with open(path, "w") as f:
        f.write("\n".join(L))


def thin(img):
    """Zhang-Suen thinning of a binary image (uint8 0/255) -> 1-pixel-wide, 8-connected skeleton"""
    a = (img > 0).astype(np.uint8)
    while True:
        changed = False
        for step in (0, 1):
            p = np.pad(a, 1)
            P2, P3, P4, P5 = p[:-2, 1:-1], p[:-2, 2:], p[1:-1, 2:], p[2:, 2:]
            P6, P7, P8, P9 = p[2:, 1:-1], p[2:, :-2], p[1:-1, :-2], p[:-2, :-2]
            seq = [P2, P3, P4, P5, P6, P7, P8, P9, P2]
            B = sum(x.astype(np.int16) for x in seq[:-1])
            A = sum(((seq[i] == 0) & (seq[i + 1] == 1)).astype(np.int16) for i in range(8))
            if step == 0:
                c = (P2 * P4 * P6 == 0) & (P4 * P6 * P8 == 0)
            else:
                c = (P2 * P4 * P8 == 0) & (P2 * P6 * P8 == 0)
            m = (a == 1) & (B >= 2) & (B <= 6) & (A == 1) & c
            if m.any():
                a = a.copy()
                a[m] = 0
                changed = True
        if not changed:
            break
    return (a * 255).astype(np.uint8)


PIX = dict(
    stair=["#################",
           "#....#....#.....#",
           "#....#....#.....#",
           "#....##...#.....#",
           "#.....#...#.....#",
           "#.....#...#.....#",
           "#.....#...#.....#",
           "#################"],
    bars=["#################",
          "#....#....#.....#",
          "#....#....#.....#",
          "#....#....#.....#",
          "#....#....#.....#",
          "#....#....#.....#",
          "#################"],
    grid=["###################",
          "#.....#.....#.....#",
          "#.....#.....#.....#",
          "#.....#.....#.....#",
          "###################",
          "#.....#.....#.....#",
          "#.....#.....#.....#",
          "#.....#.....#.....#",
          "###################"],
)


def write_pix(rows, path, pad=3):
    from PIL import Image
    a = np.pad(np.array([[255 if ch == "#" else 0 for ch in r] for r in rows], np.uint8), pad)
    Image.fromarray(np.stack([a] * 3, -1)).save(path)


def render_skeleton(t, path, W=320, H=240, margin=12, thick=1):
    """white-on-black drawing of the mesh edges saved as RGB tif: thick=1 plain 8-connected Bresenham lines;
    thick>1 thick lines thinned back to a 1-pixel skeleton (Zhang-Suen)"""
    import cv2
    from PIL import Image
    xs = [p[0] for p in t.vertices.values()]
    ys = [p[1] for p in t.vertices.values()]
    s = min((W - 2 * margin) / (max(xs) - min(xs)), (H - 2 * margin) / (max(ys) - min(ys)))
    img = np.zeros((H, W), np.uint8)
    P = {v: (int(round((p[0] - min(xs)) * s + margin)), int(round((p[1] - min(ys)) * s + margin)))
         for v, p in t.vertices.items()}
    for a, b in t.edges.values():
        cv2.line(img, P[a], P[b], 255, thick, cv2.LINE_8)
    if thick > 1:
        img = thin(img)
    Image.fromarray(np.stack([img] * 3, -1)).save(path)


def centres_of(cs):
    """cs: dict(type=random|jitter|square|hex, k, seed, spacing)"""
    rng = np.random.default_rng(cs.get("seed", 0))
    k, sp = cs.get("k", 6), cs.get("spacing", 6.0)
    if cs["type"] == "random":
        return [(float(x), float(y)) for x, y in rng.uniform(0, k * sp, (k * k, 2))]
    pts = []
    for r in range(k):
        for c in range(k):
            if cs["type"] == "hex":
                pts.append(((c + 0.5 * (r % 2)) * sp, r * sp * math.sqrt(3) / 2))
            else:
                pts.append((c * sp, r * sp))
    if cs["type"] == "jitter":
        j = rng.uniform(-0.3, 0.3, (len(pts), 2)) * sp
        pts = [(x + a, y + b) for (x, y), (a, b) in zip(pts, j)]
    return [(float(x), float(y)) for x, y in pts]


def open_source(src):
    """(vertices, edges, cells) of real forsys objects for a source spec"""
    fs = _fs()
    kind = src["kind"]
    if kind == "gen":
        return gen.build(make_tissue(src["tissue"]))
    if kind == "wkt":
        import forsys.wkt as fwkt
        return fwkt.create_lattice(wkt_of(make_tissue(src["tissue"])))
    if kind == "tess":
        import forsys.tessellation as ftess
        return ftess.create_lattice(*ftess.create_lattice_elements(centres_of(src["centres"])))
    if kind == "pix":
        import forsys.skeleton as fsk
        with tempfile.TemporaryDirectory(prefix="fvc_b_mesh_") as d:
            p = os.path.join(d, "p.tif")
            write_pix(PIX[src["name"]] if "name" in src else src["rows"], p)
            return fsk.Skeleton(p).create_lattice()
    if kind in ("se", "skel"):
        t = make_tissue(src["tissue"])
        with tempfile.TemporaryDirectory(prefix="fvc_b_mesh_") as d:
            if kind == "se":
                import forsys.surface_evolver as fse
                p = os.path.join(d, "g.dmp")
                if src.get("orphans") and src["tissue"].get("subset") is not None:
                    # dump lists the vertices and edges of the whole tissue but only the faces of the subset
                    full = make_tissue({k: v for k, v in src["tissue"].items() if k != "subset"})
                    write_dmp(full, p, only_cells=set(t.cells))
                else:
                    write_dmp(t, p)
                o = fse.SurfaceEvolver(p)
                return o.vertices, o.edges, o.cells
            import forsys.skeleton as fsk
            p = os.path.join(d, "g.tif")
            render_skeleton(t, p, src.get("W", 320), src.get("H", 240), thick=src.get("thick", 1))
            return fsk.Skeleton(p).create_lattice()
    if kind == "dmp":
        import forsys.surface_evolver as fse
        o = fse.SurfaceEvolver(os.path.join(REPO_DATA, src["file"]))
        return o.vertices, o.edges, o.cells
    if kind == "tif":
        import forsys.skeleton as fsk
        return fsk.Skeleton(os.path.join(REPO_DATA, src["file"])).create_lattice()
    raise ValueError(kind)


def contraction_plan(S, ne, rse):
    """two-point interfaces both of whose ends lie in fewer than three cells (the ones generate_mesh contracts when
    replace_short_edges and ne >= 2), and whether two of them share an end (a chain)"""
    if not rse or ne < 2:
        return [], False
    J, ifaces, _ = walk(S)
    vc = cells_of_vertex(S)
    cand = [tuple(p) for p, _ in ifaces if len(p) == 2 and len(vc.get(p[0], ())) < 3 and len(vc.get(p[1], ())) < 3]
    ends = Counter(v for p in cand for v in p)
    return cand, any(n > 1 for n in ends.values())


# ======================================================================================================
# C09
# ======================================================================================================
def _case_b09(spec):
    """spec: dict(check='B09', source=src, ops=[["gm", ne, rse] | ["frame"], ...])"""
    fs = _fs()
    fails, info = [], dict(nontrivial=False, hash=None, stages=0)
    try:
        try:
            v, e, c = open_source(spec["source"])
        except Exception as ex:      # noqa
            if spec["source"]["kind"] in ("skel", "pix", "tess"):
                # C09 speaks about the mesh a parser returns; generated images / centre sets the parser refuses are
                # only counted
                info["rejected"] = True
                info["obs"] = [f"{spec['source']['kind']} parser raised {type(ex).__name__} on a generated input"]
            else:
                fails.append(_fail(spec, "crash-parse", traceback.format_exc()[-1200:]))
            return dict(spec=spec, fails=fails, info=info)
        S = snap(v, e, c)
        info["hash"] = shape_hash(S)
        info["nontrivial"] = len(walk(S)[0]) > 0
        info["size"] = [len(v), len(e), len(c)]
        viol = mesh_wf(v, e, c)
        info["stages"] = 1
        if viol:
            cause = "skeleton-artefact-triangle" if spec["source"]["kind"] in ("skel", "pix") else None
            for cl in sorted({clause_of(x) for x in viol}):
                fails.append(_fail(spec, cl, "after parsing: " + "; ".join(x for x in viol if clause_of(x) == cl)[:900], cause))
            return dict(spec=spec, fails=fails, info=info)
        for k, op in enumerate(spec.get("ops", [])):
            chain = False
            if op[0] == "gm":
                _, chain = contraction_plan(snap(v, e, c), op[1], op[2])
                try:
                    v, e, c, _ = fs.virtual_edges.generate_mesh(v, e, c, ne=op[1], replace_short_edges=op[2])
                except fs.exceptions.SegmentationArtifactException:
                    info["rejected"] = True
                    if not chain:
                        fails.append(_fail(spec, "rejected", f"op {k} {op}: SegmentationArtifactException although no "
                                                             "two contracted border interfaces share a junction"))
                    break
                except Exception:      # noqa
                    fails.append(_fail(spec, "crash", f"op {k} {op}: " + traceback.format_exc()[-1000:],
                                       "chain-contraction" if chain else None))
                    break
            else:
                fs.frames.Frame(k, v, e, c, time=float(k))
            viol = mesh_wf(v, e, c)
            info["stages"] += 1
            if viol:
                cause = "chain-contraction" if chain else None
                for cl in sorted({clause_of(x) for x in viol}):
                    fails.append(_fail(spec, cl, f"after op {k} {op} (ops {spec['ops']}): " +
                                       "; ".join(x for x in viol if clause_of(x) == cl)[:900], cause))
                break
    except Exception:      # noqa
        fails.append(_fail(spec, "crash", traceback.format_exc()[-1200:]))
    return dict(spec=spec, fails=fails, info=info)


# ======================================================================================================
# C11
# ======================================================================================================
def check_c11(S0, S1, ne, rse, S2):
    """violations of C11 given snapshots before (S0), after generate_mesh(ne, rse) (S1) and after a second identical
    call (S2; None if not run).  Returns (list of (clause, detail), stats)."""
    out = []
    J0, if0, deg0 = walk(S0)
    vc0 = cells_of_vertex(S0)
    _, _, deg1 = walk(S1)
    joined1 = {frozenset(ab) for ab in S1["E"].values()}
    V0, V1 = S0["V"], S1["V"]
    orig = {v for v in V1 if v in V0 and V0[v] == V1[v]}        # survivors (same id, exact position)
    new = [v for v in V1 if v not in orig]
    # --- which two-point border interfaces were contracted ------------------------------------------
    cand = [tuple(p) for p, _ in if0 if len(p) == 2 and len(vc0.get(p[0], ())) < 3 and len(vc0.get(p[1], ())) < 3]
    contracted = []
    for a, b in cand:
        gone = (a not in orig, b not in orig)
        if rse and ne >= 2:
            if not all(gone):
                out.append(("contraction", f"two-point border interface {a}-{b} (ends in <3 cells) was not contracted (ne={ne})"))
            else:
                contracted.append((a, b))
        elif not rse:
            if any(gone):
                out.append(("contraction", f"replace_short_edges=False but end of two-point interface {a}-{b} disappeared"))
        else:                      # ne == 1: the statement and the code disagree on whether it is contracted: accept both
            if all(gone):
                contracted.append((a, b))
            elif any(gone):
                out.append(("contraction", f"two-point interface {a}-{b} half removed"))
    parent = {}

    def find(x):
        while parent.get(x, x) != x:
            parent[x] = parent.get(parent[x], parent[x])
            x = parent[x]
        return x

    for a, b in contracted:
        parent.setdefault(a, a)
        parent.setdefault(b, b)
        parent[find(a)] = find(b)
    classes = defaultdict(list)
    for x in list(parent):
        classes[find(x)].append(x)
    chain = any(len(m) > 2 for m in classes.values())
    if not contracted and new:
        out.append(("new-vertex", f"vertices {new[:5]} are new or moved although nothing is contracted"))
    # --- match new vertices to contraction classes ----------------------------------------------------
    vc1 = cells_of_vertex(S1)
    cls_list = sorted(classes)
    cand_of = {}
    for n in new:
        cs = []
        for r in cls_list:
            mem = classes[r]
            cells_exp = set().union(*(vc0.get(m, set()) for m in mem)) & set(S1["C"])
            if vc1.get(n, set()) != cells_exp:
                continue
            if len(mem) == 2:
                a, b = mem
                if V1[n] != ((V0[a][0] + V0[b][0]) / 2, (V0[a][1] + V0[b][1]) / 2):
                    continue
            else:
                xs = [V0[m][0] for m in mem]
                ys = [V0[m][1] for m in mem]
                if not (min(xs) <= V1[n][0] <= max(xs) and min(ys) <= V1[n][1] <= max(ys)):
                    continue
            cs.append(r)
        cand_of[n] = cs
    assign = {}

    def match(i, used):
        if i == len(new):
            return True
        for r in cand_of[new[i]]:
            if r not in used:
                assign[new[i]] = r
                if match(i + 1, used | {r}):
                    return True
        return False

    if contracted:
        if len(new) != len(cls_list) or not match(0, frozenset()):
            out.append(("merged-vertex", f"{len(new)} new vertices {new[:4]} cannot be matched one-to-one with the "
                                         f"{len(cls_list)} contracted groups {[classes[r] for r in cls_list][:4]} "
                                         "(midpoint position and the cells of the merged ends)"))
            assign = {}
    tok = {}
    for n, r in assign.items():
        for m in classes[r]:
            tok[m] = n
    mapped = (lambda x: tok.get(x, x))
    have_map = (not contracted) or bool(assign)
    # --- junctions shared by >= 3 cells ------------------------------------------------------------
    for j in sorted(J0):
        if len(vc0.get(j, ())) >= 3:
            if j not in V1 or V1[j] != V0[j]:
                out.append(("junction-kept", f"junction {j} (in {len(vc0[j])} cells) at {V0[j]} is now {V1.get(j)}"))
            elif deg1.get(j, 0) < 3:
                out.append(("junction-kept", f"junction {j} has only {deg1.get(j, 0)} mesh edges after resampling"))
    # --- interfaces ------------------------------------------------------------------------------
    cset = {frozenset(p) for p in contracted}
    n_short = n_long = 0
    if have_map:
        for p, _ in if0:
            if len(p) == 2 and frozenset(p) in cset:
                continue
            a, b = mapped(p[0]), mapped(p[-1])
            if a not in V1 or b not in V1:
                out.append(("interface-ends", f"interface {p[:4]}..{p[-1]}: end {p[0] if a not in V1 else p[-1]} was not retained"))
                continue
            if (p[0] not in tok and p[0] not in orig) or (p[-1] not in tok and p[-1] not in orig):
                out.append(("interface-ends", f"interface {p[:4]}..{p[-1]}: an end moved"))
                continue
            kept = [v for v in p[1:-1] if v in orig]
            seq = [a] + kept + [b]
            if len(seq) > max(ne + 1, 2):
                out.append(("at-most-ne+1", f"interface {p[0]}..{p[-1]} of {len(p)} points keeps {len(seq)} > ne+1={ne + 1}"))
            if len(p) <= ne + 1:
                n_short += 1
                if kept != list(p[1:-1]):
                    out.append(("short-unchanged", f"interface {p} has {len(p)} <= ne+1={ne + 1} points but became {seq}"))
            else:
                n_long += 1
            bad = [(x, y) for x, y in zip(seq, seq[1:]) if x != y and frozenset((x, y)) not in joined1]
            if bad:
                out.append(("interface-path", f"interface {p[0]}..{p[-1]}: retained points {seq} are not a path of mesh edges (missing {bad[:3]})"))
            badd = [x for x in kept if deg1.get(x, 0) != 2]
            if badd:
                out.append(("interface-path", f"interface {p[0]}..{p[-1]}: retained interior points {badd[:3]} do not have two mesh edges"))
    # points that are neither survivors on an interface nor merged vertices must not exist: every survivor must be
    # an original point (already guaranteed by `orig`); moved vertices are reported here
    moved = [v for v in V1 if v in V0 and V0[v] != V1[v] and v not in assign]
    if moved:
        out.append(("points-original", f"vertices {moved[:5]} changed position"))
    # --- cells -----------------------------------------------------------------------------------
    jcells = [c for c, cyc in S0["C"].items() if any(v in J0 for v in cyc)]
    for c in jcells:
        if c not in S1["C"]:
            out.append(("cell-kept", f"cell {c} (has a junction) disappeared"))
    if have_map:
        for c, cyc1 in S1["C"].items():
            if c not in S0["C"]:
                out.append(("cell-kept", f"cell {c} did not exist before"))
                continue
            big = []
            for v in (mapped(x) for x in S0["C"][c]):
                if not big or big[-1] != v:
                    big.append(v)
            while len(big) > 1 and big[0] == big[-1]:
                big.pop()
            if not is_cyclic_subsequence(cyc1, big):
                out.append(("cycle-subsequence", f"cell {c}: cycle {cyc1[:14]}.. is not a cyclic subsequence of its original "
                                                 f"cycle {big[:14]}.. (merged ends mapped)"))
    # --- adjacency (cells sharing a mesh edge keep sharing one) -------------------------------------
    joined0 = {frozenset(ab) for ab in S0["E"].values()}
    adj0 = {frozenset(pr) for k, cs in pair_cells(S0).items() if k in joined0
            for pr in itertools.combinations(sorted(cs), 2)}
    adj1 = {frozenset(pr) for k, cs in pair_cells(S1).items() if k in joined1
            for pr in itertools.combinations(sorted(cs), 2)}
    lost = sorted(tuple(sorted(x)) for x in adj0 - adj1)
    lost_by_contraction = []
    if lost:
        # adjacency whose whole shared interface was a contracted two-point interface
        pc0 = pair_cells(S0)
        shared = defaultdict(list)
        for k, cs in pc0.items():
            if len(cs) == 2:
                shared[tuple(sorted(cs))].append(k)
        for pr in lost:
            if all(k in cset for k in shared[pr]):
                lost_by_contraction.append(pr)
        rest = [pr for pr in lost if pr not in lost_by_contraction]
        if rest:
            out.append(("adjacency", f"cells {rest[:4]} shared a mesh edge before and share none now"))
        if lost_by_contraction:
            out.append(("adjacency-contracted", f"cells {lost_by_contraction[:4]} were adjacent only through a two-point "
                                                "interface whose ends lie in two cells each; it was contracted to a "
                                                "point, so they no longer share a mesh edge"))
    # --- idempotence -----------------------------------------------------------------------------
    if S2 is not None:
        if isinstance(S2, str):
            out.append(("idempotent", f"second identical call raised {S2}"))
        else:
            d = []
            if S2["V"] != S1["V"]:
                d.append(f"vertices differ ({len(S1['V'])} -> {len(S2['V'])})")
            if S2["C"] != S1["C"]:
                d.append("cell cycles differ: " + str([c for c in S1["C"] if S2["C"].get(c) != S1["C"][c]][:5]))
            if {frozenset(x) for x in S2["E"].values()} != {frozenset(x) for x in S1["E"].values()}:
                d.append("mesh edges differ")
            if d:
                out.append(("idempotent", "resampling the resampled mesh changed it: " + "; ".join(d)))
    stats = dict(junctions=len(J0), interfaces=len(if0), contracted=len(contracted), chain=chain, short=n_short,
                 long=n_long, lost_by_contraction=lost_by_contraction[:3],
                 lens=[min((len(p) for p, _ in if0), default=0), max((len(p) for p, _ in if0), default=0)])
    return out, stats


def _case_b11(spec):
    """spec: dict(check='B11', source=src, ne=int, rse=bool)"""
    fs = _fs()
    fails, info = [], dict(nontrivial=False, hash=None)
    ne, rse = spec["ne"], spec["rse"]
    try:
        v, e, c = open_source(spec["source"])
        S0 = snap(v, e, c)
        info["hash"] = shape_hash(S0)
        _, chain0 = contraction_plan(S0, ne, rse)
        try:
            v, e, c, _ = fs.virtual_edges.generate_mesh(v, e, c, ne=ne, replace_short_edges=rse)
        except fs.exceptions.SegmentationArtifactException:
            info["rejected"] = True
            if not chain0:
                fails.append(_fail(spec, "rejected", "SegmentationArtifactException although no two contracted border "
                                                     "interfaces share a junction"))
            return dict(spec=spec, fails=fails, info=info)
        except Exception:      # noqa
            fails.append(_fail(spec, "crash", traceback.format_exc()[-1200:], "chain-contraction" if chain0 else None))
            return dict(spec=spec, fails=fails, info=info)
        S1 = snap(v, e, c)
        try:
            v, e, c, _ = fs.virtual_edges.generate_mesh(v, e, c, ne=ne, replace_short_edges=rse)
            S2 = snap(v, e, c)
        except Exception as ex:      # noqa
            S2 = repr(ex)
        viol, stats = check_c11(S0, S1, ne, rse, S2)
        info.update(stats)
        info["nontrivial"] = stats["junctions"] > 0
        cause = "chain-contraction" if (stats["chain"] or chain0) else None
        for name in sorted({n for n, _ in viol}):
            cz = "internal-two-point-interface" if name == "adjacency-contracted" else cause
            fails.append(_fail(spec, name, "; ".join(d for n, d in viol if n == name)[:1200], cz))
    except Exception:      # noqa
        fails.append(_fail(spec, "crash", traceback.format_exc()[-1200:]))
    return dict(spec=spec, fails=fails, info=info)


# ======================================================================================================
# case generation
# ======================================================================================================
_SUBSETS = {}


def _base_subsets(base):
    if base not in _SUBSETS:
        t = gen.strip(7, 0) if base == "strip" else gen.BASE_TISSUES[base](0)
        _SUBSETS[base] = [list(s) for s in gen.connected_subsets(t)]
    return _SUBSETS[base]


def _variant(rng, base, subset, pts_choices, allow_plain=True):
    """random presentation of a sub-tissue of a base tissue: sample points, curvature, ids, cycle storage"""
    ts = dict(base=base, seed=int(rng.integers(0, 4)), pts=int(rng.choice(pts_choices)), subset=list(subset))
    if base == "strip":
        ts["n"] = 7
    if rng.random() < 0.7:
        ts["moebius"] = float(rng.choice([0.05, 0.3, 0.6, 0.85]))
        ts["mseed"] = int(rng.integers(0, 100))
    if rng.random() < 0.5:                                  # similarity image, also into negative coordinates
        ts["xf"] = dict(angle=float(rng.uniform(0, 6.283)), shift=[float(rng.uniform(-300, 50)), float(rng.uniform(-300, 50))],
                        scale=float(rng.choice([0.5, 1.0, 3.0])), reflect=bool(rng.random() < 0.5))
    if rng.random() < 0.7 or not allow_plain:
        ts["renum"] = int(rng.integers(0, 10 ** 6))
        ts["gaps"] = bool(rng.random() < 0.8)
    if rng.random() < 0.6:
        ts["shift"] = int(rng.integers(0, 10 ** 6))
    if rng.random() < 0.5:
        k = int(rng.integers(1, len(subset) + 1))
        ts["flip"] = sorted(int(x) for x in rng.choice(subset, size=k, replace=False))
    return ts


def _voronoi_variant(rng, pts_choices, n_choices=(25, 40, 60)):
    n = int(rng.choice(n_choices))
    seed = int(rng.integers(0, 50))
    t = gen.voronoi_tissue(n, seed, pts=0)
    ncell = len(t.cells)
    size = int(rng.integers(1, ncell + 1)) if rng.random() < 0.8 else ncell
    holes = int(rng.integers(0, 4))
    sub = gen.random_connected_subset(t, size, int(rng.integers(0, 10 ** 6)), holes=holes)
    ts = _variant(rng, "voronoi", sub, pts_choices)
    ts.update(n=n, seed=seed)
    return ts


def _rand_ops(rng, max_len=3):
    ops = []
    for _ in range(int(rng.integers(1, max_len + 1))):
        if rng.random() < 0.3:
            ops.append(["frame"])
        else:
            ops.append(["gm", int(rng.integers(2, 13)), bool(rng.random() < 0.6)])
    if not any(o[0] == "gm" for o in ops):
        ops.append(["gm", int(rng.integers(2, 13)), bool(rng.random() < 0.6)])
    if rng.random() < 0.5:
        ops.append(["frame"])
    return ops


def cases_b08(tier, seed):
    rng = np.random.default_rng([808, seed])
    thorough = tier == "thorough"
    pts_choices = list(range(0, 16))                      # 2..17 points per interface
    specs = []
    reps = 12 if thorough else 1
    for base in ("hex_patch", "flower", "strip"):
        for i, sub in enumerate(_base_subsets(base)):     # exhaustive: every connected cell subset
            for r in range(reps):
                ts = _variant(rng, base, sub, pts_choices)
                specs.append(dict(check="B08", source=dict(kind="gen", tissue=ts), pre=[]))
                if thorough or (i % 5 == seed % 5):
                    ts2 = _variant(rng, base, sub, pts_choices)
                    specs.append(dict(check="B08", source=dict(kind="gen", tissue=ts2),
                                      pre=[[int(rng.integers(2, 13)), bool(rng.random() < 0.5)]]))
    for _ in range(3000 if thorough else 70):              # random subsets (holes, bridges) of larger tissues
        ts = _voronoi_variant(rng, pts_choices)
        pre = [] if rng.random() < 0.6 else [[int(rng.integers(2, 13)), bool(rng.random() < 0.5)]]
        specs.append(dict(check="B08", source=dict(kind="gen", tissue=ts), pre=pre))
    files = DMP_FILES if thorough else [DMP_FILES[int(i)] for i in rng.choice(len(DMP_FILES), 3, replace=False)]
    for f in files:
        specs.append(dict(check="B08", source=dict(kind="dmp", file=f), pre=[]))
        specs.append(dict(check="B08", source=dict(kind="dmp", file=f), pre=[[int(rng.integers(2, 13)), True]]))
    return specs


def cases_b09(tier, seed):
    rng = np.random.default_rng([909, seed])
    thorough = tier == "thorough"
    m = 8 if thorough else 1
    pts_choices = [0, 0, 1, 2, 3, 5, 8, 13]
    specs = []

    def add(src, ops=None):
        specs.append(dict(check="B09", source=src, ops=ops if ops is not None else _rand_ops(rng)))

    for base in ("hex_patch", "flower", "strip"):
        subs = _base_subsets(base)
        step = 1 if thorough else 4
        for sub in subs[int(rng.integers(0, step))::step]:
            add(dict(kind="gen", tissue=_variant(rng, base, sub, pts_choices)))
    for _ in range(1500 if thorough else 50):
        add(dict(kind="gen", tissue=_voronoi_variant(rng, pts_choices)))
    for _ in range(500 if thorough else 24):                # WKT parser (quadratic vertex lookup: small tissues)
        base = str(rng.choice(["hex_patch", "flower", "strip"]))
        subs = _base_subsets(base)
        ts = _variant(rng, base, subs[int(rng.integers(len(subs)))], [0, 1, 2, 4])
        add(dict(kind="wkt", tissue=ts))
    for _ in range(500 if thorough else 24):                # generated Surface Evolver dumps
        ts = _voronoi_variant(rng, [0, 1, 3, 6], (25, 40)) if rng.random() < 0.5 else None
        if ts is None:
            base = str(rng.choice(["hex_patch", "flower", "strip"]))
            subs = _base_subsets(base)
            ts = _variant(rng, base, subs[int(rng.integers(len(subs)))], [0, 1, 3, 6])
        ts.pop("moebius", None)                             # coordinates are rounded to 1e-3 by the parser
        if ts.get("xf"):
            ts["xf"]["scale"] = max(1.0, ts["xf"]["scale"])
        add(dict(kind="se", tissue=ts, orphans=bool(rng.random() < 0.5)))
    for _ in range(800 if thorough else 32):                # tessellation of centre sets
        typ = ["random", "jitter", "square", "hex"][len(specs) % 4]
        add(dict(kind="tess", centres=dict(type=typ, k=int(rng.integers(3, 8)), seed=int(rng.integers(0, 10 ** 6)),
                                           spacing=float(rng.choice([4.0, 6.0, 9.5])))))
    for i in range(160 if thorough else 8):                 # generated skeleton images (plain lines / thinned)
        n = int(rng.choice([12, 20, 30]))
        add(dict(kind="skel", tissue=dict(base="voronoi", n=n, seed=int(rng.integers(0, 1000)), pts=0),
                 thick=(1 if i % 2 else 3)))
    for name in PIX:                                        # tiny hand-drawn skeletons
        add(dict(kind="pix", name=name), [["gm", 4, True], ["frame"]])
    dumps = DMP_FILES if thorough else [DMP_FILES[int(i)] for i in (
        list(rng.choice([0, 1], 1)) + list(rng.choice(np.arange(2, 10), 3, replace=False))
        + list(rng.choice(np.arange(10, 15), 3, replace=False)))]
    for f in dumps:                                         # shipped inputs
        for _ in range(2 * m if thorough else 1):
            add(dict(kind="dmp", file=f))
    for f in TIF_FILES:
        for _ in range(4 * m if thorough else 2):
            add(dict(kind="tif", file=f))
    if thorough:                                            # every single generate_mesh setting on shipped inputs
        for f in DMP_FILES[:1] + DMP_FILES[2:3] + DMP_FILES[10:11] + ["@" + x for x in TIF_FILES]:
            for ne in range(2, 13):
                for rse in (True, False):
                    src = dict(kind="tif", file=f[1:]) if f.startswith("@") else dict(kind="dmp", file=f)
                    add(src, [["gm", ne, rse], ["frame"]])
    return specs


def cases_b11(tier, seed):
    rng = np.random.default_rng([1111, seed])
    thorough = tier == "thorough"
    specs = []

    def add(src, ne=None, rse=None):
        specs.append(dict(check="B11", source=src, ne=int(ne if ne is not None else rng.integers(1, 13)),
                          rse=bool(rse if rse is not None else rng.random() < 0.6)))

    small_pts = list(range(0, 41)) + [0] * 14               # two-point interfaces (contraction) in ~25 % of the cases
    for base in ("hex_patch", "flower", "strip"):
        subs = _base_subsets(base)
        step = 1 if thorough else 3
        for sub in subs[int(rng.integers(0, step))::step]:
            for _ in range(6 if thorough else 1):
                ts = _variant(rng, base, sub, small_pts)
                ts.setdefault("moebius", 0.3)                # arc tissues
                add(dict(kind="gen", tissue=ts))
    for _ in range(4000 if thorough else 60):
        ts = _voronoi_variant(rng, [0, 0, 0, 1, 2, 3, 4, 6, 9, 12, 17, 25], (25, 40))
        ts.setdefault("moebius", 0.5)
        add(dict(kind="gen", tissue=ts))
    # polygonal (two-point interface) small sub-tissues anywhere in the plane: the contraction path
    small = [(b, sub) for b in ("hex_patch", "flower", "strip") for sub in _base_subsets(b) if 2 <= len(sub) <= 3]
    for k in (range(len(small)) if thorough else rng.choice(len(small), 40, replace=False)):
        b, sub = small[int(k)]
        ts = _variant(rng, b, sub, [0])
        ts["xf"] = dict(angle=float(rng.uniform(0, 6.283)), shift=[float(rng.uniform(-400, 100)), float(rng.uniform(-400, 100))],
                        scale=1.0, reflect=bool(rng.random() < 0.5))
        add(dict(kind="gen", tissue=ts), int(rng.integers(2, 13)), True)
    for pts in range(0, 41):                                 # every interface length 2..42 on one small arc tissue
        for ne in (range(1, 13) if thorough else [int(rng.integers(1, 13))]):
            add(dict(kind="gen", tissue=dict(base="flower", seed=1, pts=pts, moebius=0.6, mseed=pts)), ne, ne % 2 == 0)
    if thorough:
        for f in DMP_FILES:
            for ne in range(1, 13):
                for rse in (True, False):
                    add(dict(kind="dmp", file=f), ne, rse)
        for f in TIF_FILES:
            for ne in range(2, 13):
                add(dict(kind="tif", file=f), ne, ne % 2 == 0)
    else:
        for i in rng.choice(len(DMP_FILES), 6, replace=False):
            add(dict(kind="dmp", file=DMP_FILES[int(i)]))
        for f in TIF_FILES:
            add(dict(kind="tif", file=f), int(rng.integers(2, 13)))
    return specs


# ======================================================================================================
# runner
# ======================================================================================================
_CASE = dict(B08=_case_b08, B09=_case_b09, B11=_case_b11)


def _run_case(spec):
    import warnings
    t0 = time.time()
    with contextlib.redirect_stdout(io.StringIO()), warnings.catch_warnings():
        warnings.simplefilter("ignore")
        r = _CASE[spec["check"]](spec)
    r["seconds"] = round(time.time() - t0, 3)
    return r


def _cost(spec):
    src = spec["source"]
    if src["kind"] in ("dmp", "tif", "skel"):
        return 10 ** 6
    ts = src.get("tissue") or {}
    return (ts.get("pts", 0) + 1) * (len(ts.get("subset") or [0] * 9))


def _run_all(specs):
    specs = sorted(specs, key=lambda s: -_cost(s))           # expensive cases first (better load balance)
    serial = mp.current_process().daemon or os.environ.get("FVC_BOUNDED_SERIAL") or len(specs) < 8
    if serial:
        return [_run_case(s) for s in specs]
    pool, n = _get_pool()
    return list(pool.imap_unordered(_run_case, specs, chunksize=max(1, min(16, len(specs) // (n * 8)))))


_POOL = None


def _get_pool():
    """one spawn pool shared by the three checks of this module (importing forsys costs ~2.5 s per worker)"""
    global _POOL
    if _POOL is None:
        import atexit
        n = min(NPROC, os.cpu_count() or 1)
        _POOL = (mp.get_context("spawn").Pool(n), n)
        atexit.register(_close_pool)
    return _POOL


def _close_pool():
    global _POOL
    if _POOL is not None:
        try:
            _POOL[0].terminate()
            _POOL[0].join()
        except Exception:      # noqa
            pass
        _POOL = None


def _params(spec):
    return json.dumps({k: v for k, v in spec.items() if k not in ("check", "source")}, sort_keys=True)


def _aggregate(results, rule):
    results = sorted(results, key=lambda r: _key(r["spec"]))
    nontrivial = {(r["info"].get("hash"), _params(r["spec"])) for r in results
                  if r["info"].get("nontrivial") and r["info"].get("hash")}
    groups = defaultdict(list)
    for r in results:
        for f in r["fails"]:
            groups[f["key"]].append(f)
    failures = []
    for key in sorted(groups):
        fs_ = groups[key]
        rep = min(fs_, key=lambda f: (len(json.dumps(f["input"], default=str)), json.dumps(f["input"], sort_keys=True, default=str)))
        rep = dict(rep)
        if len(fs_) > 1:
            rep["detail"] = rep["detail"] + f"  [{len(fs_)} generated inputs fail with this key; smallest shown]"
        failures.append(rep)
    samples = []
    for r in results[:: max(1, len(results) // 4)][:4]:
        samples.append(dict(input=r["spec"], observed={k: v for k, v in r["info"].items() if k not in ("obs",)},
                            failures=len(r["fails"])))
    obs = Counter(o for r in results for o in r["info"].get("obs", []))
    out = dict(evaluations=len(results), distinct_nontrivial=len(nontrivial), rule=rule, samples=samples,
               failures=failures, rejected=sum(1 for r in results if r["info"].get("rejected")),
               by_source=dict(Counter(r["spec"]["source"]["kind"] for r in results)),
               observations=[f"{k} ({n} cases)" for k, n in sorted(obs.items())],
               cpu_seconds=round(sum(r.get("seconds", 0) for r in results), 1))
    return out


@bounded("B08", ["C08"], "interface decomposition and internal/external classification of frames",
         bound="all edge-connected cell subsets of three base tissues (9-cell hexagonal patch: 292, 7-cell flower: 95, "
               "7-cell strip: 28) in randomised presentations (0..15 sample points per interface, Moebius curvature, "
               "renumbered ids with gaps, shifted / reversed cycles); random connected subsets with up to 3 removed "
               "interior cells of Voronoi tissues from 25/40/60 sites; a fifth (quick) / half (thorough) of the cases after "
               "generate_mesh(ne 2..12; meshes with parallel mesh edges are skipped); "
               "3 (quick) or all 15 (thorough) shipped Surface Evolver dumps; quick ~575 cases, thorough ~14000")
def run_b08(tier, seed):
    res = _run_all(cases_b08(tier, seed))
    return _aggregate(res, "case = (mesh source, optional resampling) -> Frame; expected interfaces come from an own "
                           "graph walk over the plain (id, id) mesh edges of the mesh the Frame was built from and the "
                           "classification from the cells' cycles; non-trivial = the mesh has at least one junction; "
                           "distinct = distinct (hash of cycles+mesh edges, resampling parameters)")


@bounded("B09", ["C09"], "mesh consistency after every construction/editing path",
         bound="parsers: direct construction, WKT, generated and 15 shipped Surface Evolver dumps, tessellation of "
               "random / jittered / exactly square / hexagonal centre sets (3x3..7x7), generated and 2 shipped skeleton "
               "images; each followed by a random sequence of 1-4 operations from generate_mesh(ne 2..12, "
               "replace_short_edges on/off) and Frame construction, mesh_wf evaluated after parsing and after every "
               "operation (quick: 7 of the 15 dumps); sub-tissues: every 4th (quick) / every (thorough) connected subset of the "
               "three base tissues "
               "and random subsets with holes of Voronoi tissues; quick ~255 cases, thorough ~4600")
def run_b09(tier, seed):
    res = _run_all(cases_b09(tier, seed))
    return _aggregate(res, "case = (parser input, operation sequence); mesh_wf (bounded/meshwf.py, public attributes "
                           "only) must return no violation after parsing and after each operation; non-trivial = parsed "
                           "mesh has a junction; distinct = distinct (hash of parsed cycles+mesh edges, operation sequence)")


@bounded("B11", ["C11"], "generate_mesh keeps junctions, cells, adjacency, interface point order; idempotent",
         bound="synthetic arc tissues (Moebius images) with 0..40 sample points per interface: every 3rd (quick) / every "
               "(thorough) connected subset of the three base tissues, random subsets with holes of 25/40-site Voronoi "
               "tissues, every interface length 2..42 on the 7-cell flower, 40 (quick) / all 2-3 cell polygonal sub-tissues placed "
               "anywhere in the plane; ne 1..12, replace_short_edges on/off; the 15 "
               "shipped Surface Evolver dumps and 2 skeleton images (quick: 6 dumps, one random setting each; thorough: all ne x "
               "on/off); quick ~285 cases, thorough ~7500")
def run_b11(tier, seed):
    res = _run_all(cases_b11(tier, seed))
    return _aggregate(res, "case = (mesh, ne, replace_short_edges); plain snapshot before, after generate_mesh and after a "
                           "second identical call; expectations from an own interface walk on the snapshot before; "
                           "non-trivial = mesh has a junction; distinct = distinct (hash of cycles+mesh edges, ne, flag). "
                           "Mesh edges are compared as a set of vertex pairs (ne=1 produces parallel mesh edges)")


def replay(failure):
    """re-run the recorded input; True if it passes now"""
    spec = failure["input"]
    r = _run_case(spec)
    for f in r["fails"]:
        print("still failing:", f["name"], "-", f["detail"][:600])
    return not r["fails"]
