"""mesh_wf: the consistency predicate of property C09, written against the public attributes only
(Vertex.id/x/y/ownEdges/ownCells, SmallEdge.id/v1/v2, Cell.id/vertices).

C09: a vertex lists a mesh edge exactly when that edge ends at it and lists a cell exactly when it occurs in that
cell's vertex cycle; every vertex, edge and cell that is referenced exists, is stored under its own id and is the same
object; no cell repeats a vertex; consecutive vertices of every cell cycle are joined by a mesh edge.
"""
from collections import defaultdict


def mesh_wf(vertices, edges, cells, limit=40):
    """list of violation strings (empty = consistent); each string starts with the clause name followed by ':'"""
    out = []

    def add(clause, msg):
        if len(out) < limit:
            out.append(f"{clause}: {msg}")

    # stored under its own id
    for k, v in vertices.items():
        if v.id != k:
            add("own-id", f"vertex stored under key {k!r} has id {v.id!r}")
    for k, e in edges.items():
        if e.id != k:
            add("own-id", f"edge stored under key {k!r} has id {e.id!r}")
    for k, c in cells.items():
        if c.id != k:
            add("own-id", f"cell stored under key {k!r} has id {c.id!r}")

    # references exist and are the same object
    ends_at = defaultdict(set)          # vertex id -> ids of edges that end at it (by object identity)
    joined = set()
    for k, e in edges.items():
        for nm, v in (("v1", e.v1), ("v2", e.v2)):
            w = vertices.get(getattr(v, "id", None))
            if w is None:
                add("ref-exists", f"edge {k} {nm} = vertex {getattr(v, 'id', None)} which is not in the vertex dict")
            elif w is not v:
                add("same-object", f"edge {k} {nm} = vertex {v.id} is a different object from vertices[{v.id}]")
            else:
                ends_at[v.id].add(k)
        joined.add(frozenset((e.v1.id, e.v2.id)))
    in_cycle = defaultdict(set)         # vertex id -> ids of cells whose cycle contains it
    for k, c in cells.items():
        ids = []
        for v in c.vertices:
            w = vertices.get(getattr(v, "id", None))
            if w is None:
                add("ref-exists", f"cell {k} cycle contains vertex {getattr(v, 'id', None)} which is not in the vertex dict")
            elif w is not v:
                add("same-object", f"cell {k} cycle vertex {v.id} is a different object from vertices[{v.id}]")
            else:
                in_cycle[v.id].add(k)
            ids.append(getattr(v, "id", None))
        if len(set(ids)) != len(ids):
            rep = sorted({i for i in ids if ids.count(i) > 1}, key=repr)
            add("no-repeat", f"cell {k} repeats vertices {rep} in its cycle {ids}")
        n = len(ids)
        if n >= 2:
            for i in range(n):
                a, b = ids[i], ids[(i + 1) % n]
                if a == b:
                    continue                      # already reported as a repeat
                if frozenset((a, b)) not in joined:
                    add("cycle-joined", f"cell {k}: consecutive cycle vertices {a},{b} are not joined by a mesh edge")

    # back references of the vertices
    for k, v in vertices.items():
        listed_e = list(v.ownEdges)
        for eid in listed_e:
            if eid not in edges:
                add("ref-exists", f"vertex {k} lists edge {eid} which is not in the edge dict")
        if set(listed_e) != ends_at.get(k, set()):
            extra = sorted(set(listed_e) - ends_at.get(k, set()), key=repr)
            missing = sorted(ends_at.get(k, set()) - set(listed_e), key=repr)
            add("vertex-edges", f"vertex {k}: ownEdges lists {extra} that do not end at it / misses {missing} that do")
        listed_c = list(v.ownCells)
        for cid in listed_c:
            if cid not in cells:
                add("ref-exists", f"vertex {k} lists cell {cid} which is not in the cell dict")
        if set(listed_c) != in_cycle.get(k, set()):
            extra = sorted(set(listed_c) - in_cycle.get(k, set()), key=repr)
            missing = sorted(in_cycle.get(k, set()) - set(listed_c), key=repr)
            add("vertex-cells", f"vertex {k}: ownCells lists {extra} whose cycle lacks it / misses {missing} that contain it")
    return out


def clause_of(violation):
    return violation.split(":", 1)[0]
