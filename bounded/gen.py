"""Synthetic tissue generators with analytic ground truth (pure numpy/scipy).

Only `build` / `to_frame` touch forsys.  Everything is deterministic given the seed arguments
(`np.random.default_rng(seed)`; no global RNG state is read or written).

Geometry model
--------------
A `Tissue` stores a mesh (vertices, mesh edges, cell cycles) plus, per MESH EDGE, its line tension
(`edge_tension`), the centre of the circle it lies on (`edge_center`, None = straight) and its sense
(`edge_turn`: +1 if travelling v1 -> v2 turns left, i.e. counter-clockwise about the centre; -1 right;
0 straight).  `corners` are the geometric corners (the Voronoi vertices); sample points in between
lie exactly on the segment / arc.  `interfaces`, `junctions` are derived from the mesh by a graph walk.
"""
from __future__ import annotations

import itertools
import math
import os
import sys
from collections import defaultdict, deque

import numpy as np
import scipy.spatial as _sp

_ERR = dict(all="ignore")


# --------------------------------------------------------------------------------------------------
# Tissue
# --------------------------------------------------------------------------------------------------
class Tissue:
    """Plain-data tissue.

    vertices: dict[int,(x,y)]; edges: dict[int,(v1,v2)]; cells: dict[int,list[int]] (vertex cycles)
    edge_tension / edge_center / edge_turn: per mesh edge geometry (see module docstring)
    cell_orient: dict[cell -> +1 (stored cycle counter-clockwise) / -1]
    pressures: dict[cell -> float] (Young-Laplace, up to a constant), pressures_consistent: bool
    corners: set of vertex ids that are geometric corners (superset of junctions)
    junctions (property): vertices with >= 3 mesh edges
    interfaces (property): list of dicts path / cells / tension / center / tangent_at / kind
    """

    def __init__(self, vertices, edges, cells, edge_tension=None, edge_center=None, edge_turn=None,
                 cell_orient=None, pressures=None, pressures_consistent=True, corners=None, meta=None):
        self.vertices = dict(vertices)
        self.edges = dict(edges)
        self.cells = {c: list(v) for c, v in cells.items()}
        self.edge_tension = dict(edge_tension) if edge_tension is not None else {e: 1.0 for e in self.edges}
        self.edge_center = dict(edge_center) if edge_center is not None else {e: None for e in self.edges}
        self.edge_turn = dict(edge_turn) if edge_turn is not None else {e: 0 for e in self.edges}
        self.cell_orient = dict(cell_orient) if cell_orient is not None else {
            c: (1 if _signed_area([self.vertices[v] for v in cyc]) >= 0 else -1) for c, cyc in self.cells.items()}
        self.pressures = dict(pressures) if pressures is not None else {c: 0.0 for c in self.cells}
        self.pressures_consistent = bool(pressures_consistent)
        self.corners = set(corners) if corners is not None else set(self.vertices)
        self.meta = dict(meta or {})
        self._derived = None

    # ---- derived structure -------------------------------------------------------------------
    def copy(self):
        return Tissue(self.vertices, self.edges, self.cells, self.edge_tension, self.edge_center, self.edge_turn,
                      self.cell_orient, self.pressures, self.pressures_consistent, self.corners, self.meta)

    def _derive(self):
        if self._derived is None:
            self._derived = _derive(self)
        return self._derived

    @property
    def junctions(self):
        return self._derive()[0]

    @property
    def interfaces(self):
        return self._derive()[1]

    @property
    def degree(self):
        return self._derive()[2]

    def edge_cells(self):
        """dict frozenset({a,b}) -> list of cell ids whose cycle has a,b consecutive"""
        return self._derive()[3]

    def cell_adjacency(self):
        """dict cell -> set of cells sharing at least one mesh edge"""
        adj = {c: set() for c in self.cells}
        for cs in self.edge_cells().values():
            for a, b in itertools.combinations(cs, 2):
                adj[a].add(b)
                adj[b].add(a)
        return adj

    def edge_tangent(self, eid, at):
        """unit tangent of mesh edge `eid` at its end vertex `at`, pointing along the edge towards the other end"""
        v1, v2 = self.edges[eid]
        c = self.edge_center[eid]
        p = self.vertices[at]
        if c is None:
            q = self.vertices[v2 if at == v1 else v1]
            d = (q[0] - p[0], q[1] - p[1])
        else:
            turn = self.edge_turn[eid]
            rx, ry = p[0] - c[0], p[1] - c[1]
            s = turn if at == v1 else -turn       # +1: counter-clockwise travel about the centre
            d = (-ry * s, rx * s)
        n = math.hypot(*d)
        return (d[0] / n, d[1] / n)

    def shape_hash(self):
        """hash of the combinatorial shape (ids, cycles, mesh edges), independent of coordinates"""
        import hashlib
        s = repr((sorted(self.cells.items()), sorted(self.edges.items()), sorted(self.vertices)))
        return hashlib.sha1(s.encode()).hexdigest()[:12]

    def summary(self):
        return dict(cells=len(self.cells), vertices=len(self.vertices), edges=len(self.edges),
                    junctions=len(self.junctions), interfaces=len(self.interfaces))


def _signed_area(pts):
    a = 0.0
    n = len(pts)
    for i in range(n):
        x0, y0 = pts[i]
        x1, y1 = pts[(i + 1) % n]
        a += x0 * y1 - x1 * y0
    return 0.5 * a


def _derive(t):
    inc = defaultdict(list)                      # vertex -> [(edge id, other vertex)]
    for eid, (a, b) in t.edges.items():
        inc[a].append((eid, b))
        inc[b].append((eid, a))
    degree = {v: len(inc[v]) for v in t.vertices}
    junctions = {v for v, d in degree.items() if d >= 3}
    ecells = defaultdict(list)
    for cid, cyc in t.cells.items():
        n = len(cyc)
        for i in range(n):
            k = frozenset((cyc[i], cyc[(i + 1) % n]))
            if cid not in ecells[k]:
                ecells[k].append(cid)
    interfaces = []
    seen = set()
    for j in t.vertices:                          # construction order => deterministic
        if j not in junctions:
            continue
        for eid, nxt in inc[j]:
            if eid in seen:
                continue
            path, eids = [j, nxt], [eid]
            seen.add(eid)
            ok = True
            while path[-1] not in junctions:
                cur = path[-1]
                if degree[cur] != 2:
                    ok = False
                    break
                (e1, o1), (e2, o2) = inc[cur]
                e, o = (e2, o2) if e1 == eids[-1] else (e1, o1)
                path.append(o)
                eids.append(e)
                seen.add(e)
            if not ok:
                continue
            tens = {t.edge_tension[e] for e in eids}
            cens = {t.edge_center[e] for e in eids}
            uniform = len(tens) == 1 and len(cens) == 1
            cen = next(iter(cens)) if uniform else None
            kind = ("arc" if cen is not None else "straight") if uniform else "mixed"
            tang = {path[0]: t.edge_tangent(eids[0], path[0])}
            if path[-1] != path[0]:
                tang[path[-1]] = t.edge_tangent(eids[-1], path[-1])
            interfaces.append(dict(path=path, edges=eids,
                                   cells=tuple(sorted(ecells.get(frozenset(path[:2]), []))),
                                   tension=(next(iter(tens)) if len(tens) == 1 else None),
                                   center=cen, kind=kind, tangent_at=tang))
    return junctions, interfaces, degree, dict(ecells)


# --------------------------------------------------------------------------------------------------
# Voronoi tissues
# --------------------------------------------------------------------------------------------------
def tissue_from_sites(sites, keep=None, pts=0, limit=None, meta=None):
    """Tissue made of the bounded Voronoi cells of `sites`.

    keep: iterable of site indices to keep (all must be bounded); None = all bounded regions whose corners lie
    inside `limit`=(x0,y0,x1,y1), reduced to the largest edge-connected component.
    Interface between sites i,j is straight, has `pts` equally spaced interior points and tension |s_i-s_j|.
    """
    sites = np.asarray(sites, dtype=float)
    with np.errstate(**_ERR):
        vor = _sp.Voronoi(sites)
    V = vor.vertices
    ridge = {}
    for (i, j), rv in zip(vor.ridge_points, vor.ridge_vertices):
        if -1 in rv:
            continue
        ridge[frozenset(int(x) for x in rv)] = (int(i), int(j))

    def bounded(i):
        reg = vor.regions[vor.point_region[i]]
        if len(reg) < 3 or -1 in reg:
            return False
        if limit is not None:
            x0, y0, x1, y1 = limit
            for k in reg:
                if not (x0 <= V[k][0] <= x1 and y0 <= V[k][1] <= y1):
                    return False
        return True

    if keep is None:
        cand = [i for i in range(len(sites)) if bounded(i)]
        cs = set(cand)
        adj = {i: set() for i in cand}
        for (i, j) in ridge.values():
            if i in cs and j in cs:
                adj[i].add(j)
                adj[j].add(i)
        best, seen = [], set()
        for i in cand:
            if i in seen:
                continue
            comp, dq = [], deque([i])
            seen.add(i)
            while dq:
                u = dq.popleft()
                comp.append(u)
                for w in sorted(adj[u]):
                    if w not in seen:
                        seen.add(w)
                        dq.append(w)
            if len(comp) > len(best):
                best = comp
        keep = sorted(best)
    else:
        keep = list(keep)
        for i in keep:
            if not bounded(i):
                raise ValueError(f"site {i} has no bounded Voronoi region")

    vertices, edges, cells = {}, {}, {}
    tension, corners, orient = {}, set(), {}
    vid_of = {}
    pieces = {}

    def vid_for(k):
        if k not in vid_of:
            vid_of[k] = len(vertices)
            vertices[vid_of[k]] = (float(V[k][0]), float(V[k][1]))
            corners.add(vid_of[k])
        return vid_of[k]

    for cnum, i in enumerate(keep):
        reg = [int(k) for k in vor.regions[vor.point_region[i]]]
        ang = [math.atan2(V[k][1] - sites[i][1], V[k][0] - sites[i][0]) for k in reg]
        reg = [k for _, k in sorted(zip(ang, reg))]           # counter-clockwise
        cyc = []
        for a, b in zip(reg, reg[1:] + reg[:1]):
            key = frozenset((a, b))
            if key not in pieces:
                va, vb = vid_for(a), vid_for(b)
                pa, pb = vertices[va], vertices[vb]
                chain = [va]
                for k in range(1, pts + 1):
                    s = k / (pts + 1)
                    nid = len(vertices)
                    vertices[nid] = (pa[0] + (pb[0] - pa[0]) * s, pa[1] + (pb[1] - pa[1]) * s)
                    chain.append(nid)
                chain.append(vb)
                si, sj = ridge[key]
                ten = float(np.hypot(*(sites[si] - sites[sj])))
                for u, w in zip(chain, chain[1:]):
                    eid = len(edges)
                    edges[eid] = (u, w)
                    tension[eid] = ten
                pieces[key] = (a, chain)
            a0, chain = pieces[key]
            chain = chain if a0 == a else chain[::-1]
            cyc.extend(chain[:-1])
        cells[cnum] = cyc
        orient[cnum] = 1
    m = dict(kind="voronoi", pts=pts, site_of_cell={c: int(i) for c, i in enumerate(keep)},
             sites=[(float(x), float(y)) for x, y in sites])
    m.update(meta or {})
    return Tissue(vertices, edges, cells, tension, None, None, orient, {c: 0.0 for c in cells}, True, corners, m)


def voronoi_tissue(n_sites, seed, pts=0, box=(0.0, 0.0, 100.0, 100.0)):
    """Bounded Voronoi cells of `n_sites` uniform random sites in `box` (largest connected set of cells whose
    corners stay within the box enlarged by 25 %); straight interfaces with `pts` interior points; tension of the
    interface between sites i, j = |s_i - s_j| (Maxwell reciprocal: every junction is in exact force balance)."""
    rng = np.random.default_rng(seed)
    x0, y0, x1, y1 = box
    sites = np.column_stack([rng.uniform(x0, x1, n_sites), rng.uniform(y0, y1, n_sites)])
    mx, my = 0.25 * (x1 - x0), 0.25 * (y1 - y0)
    return tissue_from_sites(sites, None, pts, (x0 - mx, y0 - my, x1 + mx, y1 + my),
                             dict(gen="voronoi_tissue", n_sites=n_sites, seed=seed, box=list(box)))


def hex_patch(seed=0, pts=0, jitter=0.18, scale=10.0):
    """3x3 hexagon-ish patch (9 cells): Voronoi of a jittered triangular lattice, inner 3x3 sites kept."""
    rng = np.random.default_rng(seed)
    sites, keep = [], []
    for r in range(5):
        for c in range(5):
            x = (c + 0.5 * (r % 2)) * scale
            y = r * scale * math.sqrt(3) / 2
            jx, jy = rng.uniform(-jitter, jitter, 2) * scale
            if 1 <= r <= 3 and 1 <= c <= 3:
                keep.append(len(sites))
            sites.append((x + jx, y + jy))
    return tissue_from_sites(sites, keep, pts, None, dict(gen="hex_patch", seed=seed))


def flower(seed=0, pts=0, jitter=0.1, scale=10.0):
    """7-cell flower: one centre cell and six petals (an outer ring of twelve sites bounds them)."""
    rng = np.random.default_rng(seed)
    sites = [(0.0, 0.0)]
    for k in range(6):
        a = k * math.pi / 3
        sites.append((scale * math.cos(a), scale * math.sin(a)))
    for k in range(12):
        a = k * math.pi / 6 + 0.05
        sites.append((2.0 * scale * math.cos(a), 2.0 * scale * math.sin(a)))
    sites = [(x + j[0], y + j[1]) for (x, y), j in zip(sites, rng.uniform(-jitter, jitter, (len(sites), 2)) * scale)]
    return tissue_from_sites(sites, range(7), pts, None, dict(gen="flower", seed=seed))


def strip(n=6, seed=0, pts=0, jitter=0.15, scale=10.0):
    """strip of n (<= 9) cells in a row, bounded by two staggered rows of dropped sites"""
    rng = np.random.default_rng(seed)
    sites = [(k * scale, 0.0) for k in range(n)]
    sites += [((k - 0.5) * scale, scale) for k in range(-1, n + 2)]
    sites += [((k - 0.5) * scale, -scale) for k in range(-1, n + 2)]
    sites += [(-scale, 0.0), (n * scale, 0.0)]
    sites = [(x + j[0], y + j[1]) for (x, y), j in zip(sites, rng.uniform(-jitter, jitter, (len(sites), 2)) * scale)]
    return tissue_from_sites(sites, range(n), pts, None, dict(gen="strip", n=n, seed=seed))


BASE_TISSUES = dict(hex_patch=hex_patch, flower=flower, strip=strip)


def _pieces(t):
    """geometric pieces: list of (vertex chain, edge-id chain) running from corner to corner through sample points"""
    inc = defaultdict(list)
    for eid, (a, b) in t.edges.items():
        inc[a].append((eid, b))
        inc[b].append((eid, a))
    seen, out = set(), []
    for a in t.vertices:
        if a not in t.corners:
            continue
        for eid, nxt in inc[a]:
            if eid in seen:
                continue
            chain, eids = [a, nxt], [eid]
            seen.add(eid)
            while chain[-1] not in t.corners:
                (e1, o1), (e2, o2) = inc[chain[-1]]
                e, o = (e2, o2) if e1 == eids[-1] else (e1, o1)
                chain.append(o)
                eids.append(e)
                seen.add(e)
            out.append((chain, eids))
    return out


# --------------------------------------------------------------------------------------------------
# Moebius image
# --------------------------------------------------------------------------------------------------
def _circle_image_center(f, pole, p, q, c0):
    """centre of the image (under Moebius f with pole `pole`) of the line pq (c0 None) or circle centred c0 through p.
    Returns None if the image is a straight line."""
    if not np.isfinite(pole):
        return None
    if c0 is None:
        d = (q - p) / abs(q - p)
        w = (pole - p) / d
        star = p + np.conj(w) * d                          # reflection of the pole across the line
    else:
        r2 = abs(p - c0) ** 2
        if abs(pole - c0) < 1e-300:
            return None
        star = c0 + r2 / np.conj(pole - c0)                # inversion of the pole in the circle
    if abs(star - pole) <= 1e-12 * max(1.0, abs(pole)):
        return None                                        # pole lies on the curve: image is a line
    return f(star)


def moebius_image(t, strength=0.5, seed=0, pole=None, abcd=None):
    """Image of `t` under a Moebius map.

    Default map: f(z) = z0 + (z-z0)/(1-(z-z0)/p) where z0 is the tissue centre and the pole z0+p sits at distance
    R/strength from it (R = tissue radius, direction drawn from `seed`); strength -> 0 is the identity, strength
    close to 1 puts the pole on the tissue edge (strongly curved interfaces).  `pole` (complex, absolute position)
    or `abcd` (explicit coefficients of (az+b)/(cz+d)) override.  Interior sample points are mapped (they lie on
    the image arcs), centres / senses are analytic, tensions unchanged, pressures follow Young-Laplace.
    """
    with np.errstate(**_ERR):
        zs = {v: complex(*p) for v, p in t.vertices.items()}
        arr = np.array(list(zs.values()))
        z0 = complex(arr.real.mean(), arr.imag.mean())
        R = float(np.abs(arr - z0).max())
        if abcd is not None:
            a, b, c, d = (complex(x) for x in abcd)
        else:
            if pole is None:
                if strength <= 0:
                    a, b, c, d = 1, 0, 0, 1
                else:
                    ang = np.random.default_rng(seed).uniform(0, 2 * math.pi)
                    pole = z0 + (R / strength) * complex(math.cos(ang), math.sin(ang))
            if pole is not None:
                p = complex(pole) - z0
                # w = z0 + u/(1-u/p), u = z - z0  ==  (a z + b)/(c z + d)
                a, b, c, d = (1 - z0 / p), (z0 * z0 / p), (-1 / p), (1 + z0 / p)
        det = a * d - b * c
        pole_z = (-d / c) if c != 0 else complex("inf")

        def f(z):
            return (a * z + b) / (c * z + d)

        def df(z):
            return det / (c * z + d) ** 2

        new_v = {v: (f(z).real, f(z).imag) for v, z in zs.items()}
        e_center, e_turn = {}, {}
        for chain, eids in _pieces(t):
            p, q = zs[chain[0]], zs[chain[-1]]
            c0 = t.edge_center[eids[0]]
            if c != 0:
                cen = _circle_image_center(f, pole_z, p, q, None if c0 is None else complex(*c0))
            else:
                cen = None if c0 is None else f(complex(*c0))
            if cen is None or not np.isfinite(cen) or abs(cen - f(p)) > 1e9 * max(R, 1e-300):
                for eid in eids:
                    e_center[eid], e_turn[eid] = None, 0
                continue
            t1 = complex(*t.edge_tangent(eids[0], chain[0])) * df(p)
            rel = cen - f(p)
            trn = 1 if (t1.real * rel.imag - t1.imag * rel.real) > 0 else -1      # sense travelling along the chain
            for k, eid in enumerate(eids):
                e_center[eid] = (cen.real, cen.imag)
                e_turn[eid] = trn if t.edges[eid][0] == chain[k] else -trn
        out = Tissue(new_v, t.edges, t.cells, t.edge_tension, e_center, e_turn, t.cell_orient, None, True,
                     t.corners, dict(t.meta, moebius=dict(abcd=[str(a), str(b), str(c), str(d)], strength=strength,
                                                          seed=seed), parent_kind=t.meta.get("kind"), kind="moebius"))
        _laplace_pressures(out)
    return out


def _laplace_pressures(t):
    """Young-Laplace pressures by BFS over the cell adjacency graph; sets t.pressures and t.pressures_consistent"""
    with np.errstate(**_ERR):
        jumps = defaultdict(dict)                     # A -> {B: p_A - p_B}
        consistent = True
        ecells = t.edge_cells()
        eid_of = {frozenset(e): k for k, e in t.edges.items()}
        scale = 0.0
        for cid, cyc in t.cells.items():
            n = len(cyc)
            for i in range(n):
                u, w = cyc[i], cyc[(i + 1) % n]
                cs = ecells[frozenset((u, w))]
                if len(cs) != 2:
                    continue
                other = cs[0] if cs[1] == cid else cs[1]
                eid = eid_of[frozenset((u, w))]
                cen = t.edge_center[eid]
                if cen is None:
                    dp = 0.0
                else:
                    pu = t.vertices[u]
                    r = math.hypot(pu[0] - cen[0], pu[1] - cen[1])
                    turn = t.edge_turn[eid] if t.edges[eid][0] == u else -t.edge_turn[eid]
                    dp = t.edge_tension[eid] / r * (1.0 if turn * t.cell_orient[cid] > 0 else -1.0)
                scale = max(scale, abs(dp))
                if other in jumps[cid] and abs(jumps[cid][other] - dp) > 1e-9 * max(1.0, scale):
                    consistent = False
                jumps[cid][other] = dp
        for a in list(jumps):
            for b, dp in jumps[a].items():
                if a in jumps.get(b, {}) and abs(jumps[b][a] + dp) > 1e-9 * max(1.0, scale):
                    consistent = False
        pres = {}
        for root in t.cells:
            if root in pres:
                continue
            pres[root] = 0.0
            dq = deque([root])
            while dq:
                a = dq.popleft()
                for b, dp in jumps.get(a, {}).items():
                    val = pres[a] - dp
                    if b not in pres:
                        pres[b] = val
                        dq.append(b)
                    elif abs(pres[b] - val) > 1e-9 * max(1.0, scale):
                        consistent = False
        t.pressures = pres
        t.pressures_consistent = consistent
    return t


# --------------------------------------------------------------------------------------------------
# Transformations
# --------------------------------------------------------------------------------------------------
def transform(t, angle=0.0, shift=(0.0, 0.0), scale=1.0, reflect=False):
    """similarity image: (optional reflection y -> -y), rotation by `angle`, scaling, then shift.
    Tensions unchanged; pressures scale by 1/scale."""
    ca, sa = math.cos(angle), math.sin(angle)

    def m(p):
        x, y = p
        if reflect:
            y = -y
        return (scale * (ca * x - sa * y) + shift[0], scale * (sa * x + ca * y) + shift[1])

    out = t.copy()
    out.vertices = {v: m(p) for v, p in t.vertices.items()}
    out.edge_center = {e: (None if c is None else m(c)) for e, c in t.edge_center.items()}
    if reflect:
        out.edge_turn = {e: -s for e, s in t.edge_turn.items()}
        out.cell_orient = {c: -o for c, o in t.cell_orient.items()}
    out.pressures = {c: p / scale for c, p in t.pressures.items()}
    out.meta = dict(t.meta, transform=dict(angle=angle, shift=list(shift), scale=scale, reflect=reflect))
    out._derived = None
    return out


def subtissue(t, cell_ids):
    """keep only the given cells, their vertices and mesh edges (ids preserved; junctions/interfaces re-derived)"""
    keep = [c for c in t.cells if c in set(cell_ids)]
    cells = {c: list(t.cells[c]) for c in keep}
    used_v, used_e = set(), set()
    for cyc in cells.values():
        used_v.update(cyc)
        n = len(cyc)
        for i in range(n):
            used_e.add(frozenset((cyc[i], cyc[(i + 1) % n])))
    vertices = {v: p for v, p in t.vertices.items() if v in used_v}
    edges = {e: ab for e, ab in t.edges.items() if frozenset(ab) in used_e}
    return Tissue(vertices, edges, cells, {e: t.edge_tension[e] for e in edges}, {e: t.edge_center[e] for e in edges},
                  {e: t.edge_turn[e] for e in edges}, {c: t.cell_orient[c] for c in cells},
                  {c: t.pressures.get(c, 0.0) for c in cells}, t.pressures_consistent,
                  t.corners & used_v, dict(t.meta, subset=sorted(keep)))


def connected_subsets(t, max_cells=None):
    """all edge-connected cell subsets with 1..max_cells cells, as sorted tuples (sorted list)"""
    adj = t.cell_adjacency()
    max_cells = max_cells or len(t.cells)
    found = set()
    frontier = {frozenset((c,)) for c in t.cells}
    found |= frontier
    for _ in range(1, max_cells):
        nxt = set()
        for s in frontier:
            nb = set().union(*(adj[c] for c in s)) - s
            for c in nb:
                nxt.add(s | {c})
        nxt -= found
        found |= nxt
        frontier = nxt
        if not frontier:
            break
    return sorted((tuple(sorted(s)) for s in found), key=lambda s: (len(s), s))


def random_connected_subset(t, size, seed, holes=0):
    """random edge-connected subset of `size` cells grown from a random seed cell; then up to `holes` interior
    cells (cells all of whose neighbours are in the subset) are removed provided the rest stays connected"""
    rng = np.random.default_rng(seed)
    adj = t.cell_adjacency()
    ids = list(t.cells)
    cur = {ids[int(rng.integers(len(ids)))]}
    while len(cur) < min(size, len(ids)):
        nb = sorted(set().union(*(adj[c] for c in cur)) - cur)
        if not nb:
            break
        cur.add(nb[int(rng.integers(len(nb)))])
    for _ in range(holes):
        inner = sorted(c for c in cur if adj[c] and adj[c] <= cur)
        rng.shuffle(inner)
        for c in inner:
            rest = cur - {c}
            if _connected(rest, adj):
                cur = rest
                break
    return tuple(sorted(cur))


def _connected(s, adj):
    s = set(s)
    if not s:
        return False
    start = next(iter(s))
    seen, dq = {start}, deque([start])
    while dq:
        u = dq.popleft()
        for w in adj[u]:
            if w in s and w not in seen:
                seen.add(w)
                dq.append(w)
    return len(seen) == len(s)


def _fresh_ids(n, rng, gaps):
    if gaps:
        pool = rng.permutation(3 * n + 11)[:n]
    else:
        pool = rng.permutation(n)
    return [int(x) for x in pool]


def renumber(t, seed, gaps=True):
    """independent random (non-contiguous if gaps) ids for vertices, edges and cells; dict order = construction order"""
    rng = np.random.default_rng(seed)
    vm = dict(zip(t.vertices, _fresh_ids(len(t.vertices), rng, gaps)))
    em = dict(zip(t.edges, _fresh_ids(len(t.edges), rng, gaps)))
    cm = dict(zip(t.cells, _fresh_ids(len(t.cells), rng, gaps)))
    return Tissue({vm[v]: p for v, p in t.vertices.items()},
                  {em[e]: (vm[a], vm[b]) for e, (a, b) in t.edges.items()},
                  {cm[c]: [vm[v] for v in cyc] for c, cyc in t.cells.items()},
                  {em[e]: x for e, x in t.edge_tension.items()}, {em[e]: x for e, x in t.edge_center.items()},
                  {em[e]: x for e, x in t.edge_turn.items()}, {cm[c]: o for c, o in t.cell_orient.items()},
                  {cm[c]: p for c, p in t.pressures.items()}, t.pressures_consistent, {vm[v] for v in t.corners},
                  dict(t.meta, renumber=dict(seed=seed, gaps=gaps), vmap=vm, emap=em, cmap=cm))


def shift_cycles(t, seed):
    """rotate every stored cell cycle by a random offset"""
    rng = np.random.default_rng(seed)
    out = t.copy()
    for c, cyc in t.cells.items():
        k = int(rng.integers(len(cyc)))
        out.cells[c] = cyc[k:] + cyc[:k]
    out._derived = None
    return out


def flip_cells(t, which):
    """reverse the stored cycle of the given cells"""
    out = t.copy()
    for c in which:
        out.cells[c] = t.cells[c][::-1]
        out.cell_orient[c] = -t.cell_orient[c]
    out._derived = None
    return out


def resample(t, pts):
    """replace the sample points between geometric corners by `pts` new ones, equally spaced in arc angle
    (or length for straight pieces), exactly on the segment / arc.  Corner ids are kept; sample points and mesh
    edges get fresh ids."""
    vertices = {v: p for v, p in t.vertices.items() if v in t.corners}
    next_v = (max(t.vertices) + 1) if t.vertices else 0
    edges, tension, center, turn = {}, {}, {}, {}
    chain_of = {}                                         # (corner a, first old vertex after a) -> new chain
    with np.errstate(**_ERR):
        for old, eids in _pieces(t):
            a, eid = old[0], eids[0]
            b = old[-1]
            pa, pb = t.vertices[a], t.vertices[b]
            cen = t.edge_center[eid]
            trn = t.edge_turn[eid] if t.edges[eid][0] == a else -t.edge_turn[eid]     # sense travelling a -> b
            new = [a]
            for k in range(1, pts + 1):
                s = k / (pts + 1)
                if cen is None:
                    p = (pa[0] + (pb[0] - pa[0]) * s, pa[1] + (pb[1] - pa[1]) * s)
                else:
                    r = math.hypot(pa[0] - cen[0], pa[1] - cen[1])
                    a0 = math.atan2(pa[1] - cen[1], pa[0] - cen[0])
                    a1 = math.atan2(pb[1] - cen[1], pb[0] - cen[0])
                    sweep = (a1 - a0) % (2 * math.pi) if trn > 0 else -((a0 - a1) % (2 * math.pi))
                    p = (cen[0] + r * math.cos(a0 + sweep * s), cen[1] + r * math.sin(a0 + sweep * s))
                vertices[next_v] = p
                new.append(next_v)
                next_v += 1
            new.append(b)
            for u, w in zip(new, new[1:]):
                k = len(edges)
                edges[k] = (u, w)
                tension[k] = t.edge_tension[eid]
                center[k] = cen
                turn[k] = trn
            chain_of[(a, old[1])] = new
            chain_of[(b, old[-2])] = new[::-1]
    cells = {}
    for c, cyc in t.cells.items():
        n = len(cyc)
        out = []
        idx = [i for i in range(n) if cyc[i] in t.corners]
        if not idx:
            raise ValueError(f"cell {c} has no corner")
        for i in idx:
            chain = chain_of[(cyc[i], cyc[(i + 1) % n])]
            out.extend(chain[:-1])
        cells[c] = out
    return Tissue(vertices, edges, cells, tension, center, turn, t.cell_orient, t.pressures, t.pressures_consistent,
                  t.corners, dict(t.meta, pts=pts, resampled=pts))


# --------------------------------------------------------------------------------------------------
# forsys objects
# --------------------------------------------------------------------------------------------------
def forsys_modules():
    """import forsys (from $FVC_REPO if set) and return the package"""
    repo = os.environ.get("FVC_REPO")
    if repo and repo not in sys.path[:1]:
        sys.path.insert(0, repo)
    import forsys                                          # noqa
    import forsys.vertex, forsys.edge, forsys.cell, forsys.frames, forsys.virtual_edges   # noqa
    return forsys


def build(t):
    """(vertices, edges, cells) dicts of real forsys Vertex / SmallEdge / Cell objects, in construction order.
    SmallEdge.gt = analytic tension, Cell.gt_pressure = analytic pressure."""
    fs = forsys_modules()
    vertices = {v: fs.vertex.Vertex(v, float(p[0]), float(p[1])) for v, p in t.vertices.items()}
    edges = {}
    for e, (a, b) in t.edges.items():
        edges[e] = fs.edge.SmallEdge(e, vertices[a], vertices[b], gt=float(t.edge_tension[e]))
    cells = {}
    for c, cyc in t.cells.items():
        cells[c] = fs.cell.Cell(c, [vertices[v] for v in cyc], gt_pressure=float(t.pressures.get(c, 0.0)))
    return vertices, edges, cells


def to_frame(t, frame_id=0, time=0.0, gt=False):
    fs = forsys_modules()
    v, e, c = build(t)
    return fs.frames.Frame(frame_id, v, e, c, time=time, gt=gt)


# --------------------------------------------------------------------------------------------------
# self-checks of the ground truth (used by the bounded checks as a sanity gate)
# --------------------------------------------------------------------------------------------------
def force_residuals(t):
    """dict junction -> |sum_i T_i t_i| over all incident mesh edges (analytic tangents)"""
    inc = defaultdict(list)
    for eid, (a, b) in t.edges.items():
        inc[a].append(eid)
        inc[b].append(eid)
    res = {}
    for j in t.junctions:
        fx = fy = 0.0
        for eid in inc[j]:
            tx, ty = t.edge_tangent(eid, j)
            fx += t.edge_tension[eid] * tx
            fy += t.edge_tension[eid] * ty
        res[j] = math.hypot(fx, fy)
    return res


def on_arc_residual(t):
    """max relative distance of both ends of every arc mesh edge from its circle (must be ~1e-12)"""
    worst = 0.0
    for eid, (a, b) in t.edges.items():
        c = t.edge_center[eid]
        if c is None:
            continue
        ra = math.hypot(t.vertices[a][0] - c[0], t.vertices[a][1] - c[1])
        rb = math.hypot(t.vertices[b][0] - c[0], t.vertices[b][1] - c[1])
        worst = max(worst, abs(ra - rb) / max(ra, rb))
    return worst
