"""Bounded stand-ins for the image / coarse-graining properties.

B17 (C17)  myosin.get_intensities is a normalised, linear window statistic of the image.
B18 (C18)  stress_tensor: symmetric, zero outside the averaging radius, linear, isotropic for pure pressure;
           Frame.principal_stress are the eigen-decompositions at the grid centres.

Both run the REAL forsys code (from $FVC_REPO if set, else /repo).  Every case is a pure function of a small
JSON-able spec, so a failure is replayed from failure["input"]["spec"].
"""
import math
import os
import sys
import time
import traceback

if os.environ.get("FVC_REPO"):
    sys.path.insert(0, os.environ["FVC_REPO"])
elif "/repo" not in sys.path:
    sys.path.append("/repo")

import numpy as np

from fvc.registry import bounded
from bounded.b_io import make_tissue, _rng, _digest, _run_pool, _collapse


# ----------------------------------------------------------------------------------------------
# B17  myosin
# ----------------------------------------------------------------------------------------------

_RESCALES = [1.0, 1.0, -1.0, 2.0, 0.5, 4.0, 0.25, 3.0, -2.0, -3.0]


def b17_spec(seed, idx):
    r = _rng([seed, idx, 17])
    return dict(check="B17", seed=int(seed), idx=int(idx),
                W=int(r.integers(20, 72)), H=int(r.integers(20, 72)),
                mode=str(r.choice(["F", "L"])), uniform=bool(r.random() < 0.12),
                layers=int(r.integers(0, 4)), integrate=bool(r.random() < 0.5),
                normalize=(None if r.random() < 0.5 else "average"),
                rescale=[float(r.choice(_RESCALES)), float(r.choice(_RESCALES))],
                n_if=int(r.integers(1, 7)), repeat=str(r.choice(["none", "none", "same_object", "twin"])))


def _b17_build(spec):
    """pixel-space polylines + image array + (rescale, offset) and the exact vertex coordinates"""
    rng = _rng([spec["seed"], spec["idx"], 1717])
    W, H, L = spec["W"], spec["H"], spec["layers"]
    if spec["mode"] == "L":
        arr = rng.integers(1, 61, size=(H, W)).astype(np.uint8)
        if spec["uniform"]:
            arr[:] = int(rng.integers(1, 61))
    else:
        arr = (rng.random((H, W)) * rng.choice([1.0, 255.0, 1e-3, 4000.0]) + 0.01).astype(np.float32)
        if spec["uniform"]:
            arr[:] = np.float32(rng.uniform(0.5, 200))
    rx, ry = spec["rescale"]
    sx = 3 if abs(rx) == 3 else 1          # pixel lattice on which the nodes must lie so that coordinates stay exact
    sy = 3 if abs(ry) == 3 else 1
    # offsets: multiples of 0.25 (multiples of 1 on a step-3 axis), any sign
    offx = float(rng.integers(-40, 41)) * (1.0 if sx == 3 else 0.25)
    offy = float(rng.integers(-40, 41)) * (1.0 if sy == 3 else 0.25)
    if rx < 0:
        offx += W        # keep vertex coordinates of both signs in play
    lo_x, hi_x, lo_y, hi_y = L, W - 1 - L, L, H - 1 - L

    def snap(v, lo, hi, s, off):
        """nearest admissible pixel coordinate >= lo: v = off_int + s*k"""
        if s == 1:
            return int(min(max(v, lo), hi))
        base = int(round(off)) % s
        k = (int(v) - base) // s
        c = base + s * k
        while c < lo:
            c += s
        while c > hi:
            c -= s
        return c

    polylines = []
    for _ in range(spec["n_if"]):
        for _try in range(200):
            n_nodes = int(rng.integers(2, 7))
            x = snap(int(rng.integers(lo_x, hi_x + 1)), lo_x, hi_x, sx, offx)
            y = snap(int(rng.integers(lo_y, hi_y + 1)), lo_y, hi_y, sy, offy)
            nodes = [(x, y)]
            ok = True
            for _k in range(n_nodes - 1):
                placed = False
                for _t in range(30):
                    kind = rng.choice(["H", "V", "D"])
                    m = int(rng.integers(1, 7))
                    if kind == "H":
                        d = (sx * m * (1 if rng.random() < 0.5 else -1), 0)
                    elif kind == "V":
                        d = (0, sy * m * (1 if rng.random() < 0.5 else -1))
                    else:
                        u = sx * sy * m if sx != sy else sx * m
                        d = (u * (1 if rng.random() < 0.5 else -1), u * (1 if rng.random() < 0.5 else -1))
                    nx_, ny_ = nodes[-1][0] + d[0], nodes[-1][1] + d[1]
                    if lo_x <= nx_ <= hi_x and lo_y <= ny_ <= hi_y:
                        nodes.append((nx_, ny_))
                        placed = True
                        break
                if not placed:
                    ok = False
                    break
            if ok and lo_x <= x <= hi_x and lo_y <= y <= hi_y:
                polylines.append(nodes)
                break
        else:
            return None
    # image-space (un-ceiled) positions: integrate=True may sit up to 0.75 below the pixel node
    out = []
    for nodes in polylines:
        Q = []
        for (px, py) in nodes:
            fx = float(rng.choice([0.0, 0.25, 0.5, 0.75])) if (spec["integrate"] and sx == 1) else 0.0
            fy = float(rng.choice([0.0, 0.25, 0.5, 0.75])) if (spec["integrate"] and sy == 1) else 0.0
            Q.append((px - fx, py - fy))
        out.append(dict(nodes=nodes, Q=Q, xy=[((q[0] - offx) / rx, (q[1] - offy) / ry) for q in Q]))
    # exactness self-check of the construction (never a forsys matter)
    for pl in out:
        for (vx, vy), q in zip(pl["xy"], pl["Q"]):
            if vx * rx + offx != q[0] or vy * ry + offy != q[1]:
                return None
    return dict(arr=arr, polylines=out, rescale=[rx, ry], offset=[offx, offy])


def _b17_expected(arr, polylines, L, integrate):
    """independent evaluation of the statement on the numpy array (arr[y, x])"""
    vals = []
    A = arr.astype(np.float64)
    for pl in polylines:
        if not integrate:
            meds = []
            for (px, py) in pl["nodes"]:
                w = sorted(A[py - L:py + L + 1, px - L:px + L + 1].ravel().tolist())
                assert len(w) == (2 * L + 1) ** 2
                meds.append(w[len(w) // 2])
            vals.append(sum(meds) / len(meds))
        else:
            band = set()
            nodes = pl["nodes"]
            length = 0.0
            for i in range(len(nodes) - 1):
                (x0, y0), (x1, y1) = nodes[i], nodes[i + 1]
                dx, dy = x1 - x0, y1 - y0
                n = max(abs(dx), abs(dy))
                ux = (dx > 0) - (dx < 0) if abs(dx) == n else 0
                uy = (dy > 0) - (dy < 0) if abs(dy) == n else 0
                # slope is 0 or +-1 by construction: positions are lattice points, end excluded
                for k in range(n):
                    cx, cy = x0 + k * ux, y0 + k * uy
                    for a in range(-L, L + 1):
                        for b in range(-L, L + 1):
                            band.add((cx + a, cy + b))
                qa, qb = pl["Q"][i], pl["Q"][i + 1]
                length += math.hypot(qa[0] - qb[0], qa[1] - qb[1])
            vals.append(math.fsum(A[y, x] for (x, y) in band) / length)
    return vals


def _b17_key(spec):
    return "B17/%dx%d/%s/L%d/%s/%s/r%g,%g/s%d/i%d" % (
        spec["W"], spec["H"], spec["mode"], spec["layers"], "int" if spec["integrate"] else "win",
        spec["normalize"], spec["rescale"][0], spec["rescale"][1], spec["seed"], spec["idx"])


def b17_case(spec):
    res = dict(order=spec["idx"], spec=spec, failures=[], evaluated=False, digest=None, stats=None)
    built = _b17_build(spec)
    if built is None:
        return res
    from PIL import Image
    import forsys.myosin as fm
    from forsys.vertex import Vertex
    from forsys.edge import SmallEdge, BigEdge
    key = _b17_key(spec)
    L, integrate, normalize = spec["layers"], spec["integrate"], spec["normalize"]

    def fail(name, detail, extra=None):
        res["failures"].append(dict(key=key + ":" + name, name=name, input=dict(spec=spec, extra=extra),
                                    detail=str(detail)[:600]))

    arr = built["arr"]
    keep = []
    vid = [0]
    eid = [0]

    def mk(bid, pl):
        vs = []
        for (x, y) in pl["xy"]:
            vs.append(Vertex(vid[0], x, y))
            vid[0] += 1
        for a, b in zip(vs[:-1], vs[1:]):
            keep.append(SmallEdge(eid[0], a, b))
            eid[0] += 1
        return BigEdge(bid, vs)

    bes, pls = [], []
    for i, pl in enumerate(built["polylines"]):
        bes.append(mk(i, pl))
        pls.append(pl)
    if spec["repeat"] == "same_object":
        bes.append(bes[0])
        pls.append(pls[0])
        bes.insert(1, bes[-1])
        pls.insert(1, pls[-1])
    elif spec["repeat"] == "twin":
        bes.append(mk(len(bes), pls[0]))      # other objects, same geometry -> equal value
        pls.append(pls[0])
    kw = dict(rescale=list(built["rescale"]), offset=list(built["offset"]))
    with np.errstate(all="ignore"):
        raw = _b17_expected(arr, pls, L, integrate)
        mean_raw = sum(raw) / len(raw)
        want = [v / mean_raw for v in raw] if normalize == "average" else list(raw)
    extra = dict(interfaces=[dict(pixel_nodes=[list(p) for p in pl["nodes"]],
                                  vertex_xy=[list(p) for p in pl["xy"]]) for pl in pls][:4],
                 offset=built["offset"], image_corner=arr[:3, :3].tolist())
    res["evaluated"] = True
    res["digest"] = _digest((arr.tobytes(), [pl["xy"] for pl in pls], kw, L, integrate, normalize))
    res["stats"] = dict(interfaces=len(bes), vertices=sum(len(p["nodes"]) for p in pls), window=(2 * L + 1) ** 2,
                        distinct_values=len({round(v, 9) for v in raw}))
    img = Image.fromarray(arr)

    def call(image, norm):
        for b in bes:
            b.gt = -12345.0
        out = fm.get_intensities(bes, image, integrate, norm, L, **kw)
        return out

    try:
        got = call(img, normalize)
    except Exception:
        fail("get_intensities raises", traceback.format_exc()[-500:], extra)
        return res
    tol = 1e-9
    with np.errstate(all="ignore"):
        if not isinstance(got, dict) or list(got.keys()) != list(range(len(bes))):
            fail("returned in the order given", "keys %s for %d interfaces" % (
                list(getattr(got, "keys", lambda: [])())[:8], len(bes)), extra)
            return res
        g = [float(got[i]) for i in range(len(bes))]
        bad = [i for i in range(len(bes)) if abs(g[i] - want[i]) > tol * max(1.0, abs(want[i]))]
        if bad:
            i = bad[0]
            fail("intensity = band sum / polyline length" if integrate else
                 "intensity = mean over vertices of the window median",
                 "interface %d: got %r, statement gives %r (raw %r, normalize=%s)" % (i, g[i], want[i], raw[i],
                                                                                    normalize), extra)
        # stored as reference values, in the order given
        for i, b in enumerate(bes):
            last = max(j for j, o in enumerate(bes) if o is b)
            if abs(float(b.gt) - g[last]) > 1e-12 * max(1.0, abs(g[last])):
                fail("stored as the interfaces' reference values in the order given",
                     "interface at position %d: gt=%r, returned value %r" % (i, b.gt, g[last]), extra)
                break
        if normalize == "average":
            m = sum(g) / len(g)
            if abs(m - 1.0) > 1e-9:
                fail("intensities average to one under 'average' normalisation", "mean of returned values %r" % m,
                     extra)
        if spec["uniform"] and not integrate:
            if max(g) - min(g) > 1e-9 * max(1.0, abs(max(g))):
                fail("equal for all interfaces of a uniformly bright image", "values %s" % g[:6], extra)
        # linearity in the image
        a = 3 if spec["mode"] == "L" else float(_rng([spec["seed"], spec["idx"], 5]).choice([0.5, 2.0, 3.7]))
        arr2 = (arr.astype(np.float64) * a)
        arr2 = arr2.astype(np.uint8) if spec["mode"] == "L" else arr2.astype(np.float32)
        try:
            got_none = g if normalize is None else [float(v) for v in call(img, None).values()]
            got2 = [float(v) for v in call(Image.fromarray(arr2), None).values()]
            got2n = [float(v) for v in call(Image.fromarray(arr2), "average").values()]
            got1n = g if normalize == "average" else [float(v) for v in call(img, "average").values()]
        except Exception:
            fail("get_intensities raises", traceback.format_exc()[-500:], extra)
            return res
        ltol = 1e-9 if spec["mode"] == "L" else 2e-6
        for i in range(len(bes)):
            if abs(got2[i] - a * got_none[i]) > ltol * max(1e-12, abs(a * got_none[i])):
                fail("intensities scale linearly with the image",
                     "image x %r: interface %d went %r -> %r" % (a, i, got_none[i], got2[i]), extra)
                break
            if abs(got2n[i] - got1n[i]) > ltol * max(1.0, abs(got1n[i])):
                fail("intensities scale linearly with the image",
                     "image x %r under 'average': interface %d went %r -> %r" % (a, i, got1n[i], got2n[i]), extra)
                break
    del keep[:]
    return res


B17_N = dict(quick=4000, thorough=80000)
B17_BUDGET = dict(quick=20.0, thorough=380.0)


@bounded("B17", ["C17"], "Myosin quantification is a normalised, linear window statistic of the image",
         bound="random float32 ('F') and 8-bit ('L') images 20..71 px per side (12% uniformly bright); 1..6 (+repeated "
               "/ twin) hand-built interfaces of 2..6 vertices; layers 0..3; integrate on/off; normalize None/'average'; "
               "rescale in {+-1,+-2,+-3,4,0.5,0.25} per axis with offsets in quarter pixels chosen so that every "
               "window/band position is an exact integer pixel inside the image (polyline segments horizontal, "
               "vertical or diagonal; vertices up to 0.75 px below the pixel node when integrating); image scaled "
               "x3 (8-bit) / x{0.5,2,3.7} (float); quick <= 4000 cases, thorough <= 80000 (time capped)")
def run_b17(tier, seed):
    specs = [b17_spec(seed, i) for i in range(B17_N[tier])]
    results = _run_pool(b17_case, specs, B17_BUDGET[tier])
    failures, samples, digests = [], [], set()
    agg = dict(interfaces=0, vertices=0, integrate=0, average=0, uniform=0, by_layers={})
    evaluations = 0
    for r in results:
        failures += r["failures"]
        if not r["evaluated"]:
            continue
        evaluations += 1
        st, sp = r["stats"], r["spec"]
        if st["distinct_values"] > 1 or (sp["uniform"] and st["interfaces"] > 1):
            digests.add(r["digest"])
        agg["interfaces"] += st["interfaces"]
        agg["vertices"] += st["vertices"]
        agg["integrate"] += 1 if sp["integrate"] else 0
        agg["average"] += 1 if sp["normalize"] == "average" else 0
        agg["uniform"] += 1 if sp["uniform"] else 0
        agg["by_layers"][sp["layers"]] = agg["by_layers"].get(sp["layers"], 0) + 1
        if len(samples) < 4:
            samples.append(dict(spec=sp, stats=st))
    if evaluations == 0 and not failures:
        raise RuntimeError("B17: no case was evaluated (worker pool failed?)")
    return dict(evaluations=evaluations, distinct_nontrivial=len(digests),
                rule="one evaluation = one (image, interface list, layers, integrate, normalize, rescale, offset) "
                     "case: get_intensities compared with an independent evaluation on the pixel array, stored gt, "
                     "mean 1, uniform-image equality (integrate off) and image scaling (4 extra calls); non-trivial = "
                     "at least two interfaces with different raw intensity (or a uniform image with >= 2 "
                     "interfaces); distinct = distinct (image bytes, coordinates, parameters). totals: %s" % agg,
                samples=samples, failures=_collapse(failures))


# ----------------------------------------------------------------------------------------------
# B18  coarse-grained stress tensor
# ----------------------------------------------------------------------------------------------

def b18_spec(seed, idx):
    r = _rng([seed, idx, 18])
    grid = 1 + (idx % 12)
    radii = [float(r.choice([0.5, 0.75, 1.0])), float(r.uniform(1.0, 3.0)), float(r.choice([4.0, 6.0]))]
    keep = 3 if grid <= 7 else (2 if grid <= 10 else 1)        # the cost of one evaluation grows like grid^2
    radii = sorted(float(x) for x in r.choice(radii, size=keep, replace=False))
    return dict(check="B18", seed=int(seed), idx=int(idx), tissue=int(idx // 12), grid=grid, radii=radii)


def _b18_build(spec):
    rng = _rng([spec["seed"], spec["tissue"], 1818])     # the tissue depends on the tissue index only
    n_points = int(rng.choice([36, 45, 60, 80]))
    sub_max = int(rng.choice([0, 0, 2, 3]))
    scale = float(rng.choice([1.0, 1.0, 0.1, 25.0]))
    for _ in range(30):
        T = make_tissue(rng, n_points, "voronoi", sub_max=sub_max, bulge=0.08)
        if T is not None and len(T["C"]) >= 12:
            T["V"] = T["V"] * scale
            return T
    return None


def _b18_key(spec):
    return "B18/t%d/g%d/s%d" % (spec["tissue"], spec["grid"], spec["seed"])


def b18_case(spec):
    res = dict(order=spec["idx"], spec=spec, failures=[], evaluated=False, digest=None, stats=None, collide=None)
    T = _b18_build(spec)
    if T is None:
        return res
    import forsys.stress_tensor as fst
    import forsys.frames as ffr
    from forsys.vertex import Vertex
    from forsys.edge import SmallEdge
    from forsys.cell import Cell
    key = _b18_key(spec)
    grid = spec["grid"]
    big = grid >= 12      # the key collision of KF-C18-key-collision starts at 12 (row 1 col 10 vs row 11 col 0); grid 11 is exact
    collide = dict(grid=grid, cells_wrong=0, dict_size=None, examples=[])

    def fail(name, detail, extra=None):
        if big:
            collide["cells_wrong"] += 1
            if len(collide["examples"]) < 3:
                collide["examples"].append("%s: %s" % (name, str(detail)[:200]))
            return
        res["failures"].append(dict(key=key + ":" + name, name=name, input=dict(spec=spec, extra=extra),
                                    detail=str(detail)[:600]))

    V, E, C = T["V"], T["E"], T["C"]
    try:
        vs = {i: Vertex(i, float(V[i][0]), float(V[i][1])) for i in range(len(V))}
        es = {k: SmallEdge(k, vs[a], vs[b]) for k, (a, b) in enumerate(E)}
        cycles = []
        for loop in C:
            cycles.append([E[e][0] if d == 1 else E[e][1] for (e, d) in loop])
        cs = {k: Cell(k, [vs[i] for i in cyc]) for k, cyc in enumerate(cycles)}
        frame = ffr.Frame(0, vs, es, cs)
    except Exception:
        res["build_error"] = traceback.format_exc()[-300:]
        return res
    # ---- independent geometry
    with np.errstate(all="ignore"):
        cen = np.array([V[cyc].mean(axis=0) for cyc in cycles])
        areas = []
        for cyc in cycles:
            P = V[cyc]
            x, y = P[:, 0], P[:, 1]
            areas.append(abs(0.5 * float(np.sum(x * np.roll(y, -1) - y * np.roll(x, -1)))))
        mean_area = float(np.mean(areas))
        xb = np.linspace(cen[:, 0].min(), cen[:, 0].max(), grid + 1)
        yb = np.linspace(cen[:, 1].min(), cen[:, 1].max(), grid + 1)
        xc = 0.5 * (xb[:-1] + xb[1:])
        yc = 0.5 * (yb[:-1] + yb[1:])
        ktol = 1e-9 * float(max(np.abs(cen).max(), 1e-300))      # matching of float dictionary keys
    rng = _rng([spec["seed"], spec["idx"], 181818])
    ncell, nbe = len(cs), len(frame.big_edges)

    def draw_state():
        p = rng.normal(0, 1.5, ncell)
        t = rng.normal(0.5, 1.5, nbe)
        p[rng.random(ncell) < 0.15] = 0.0
        t[rng.random(nbe) < 0.15] = 0.0
        return p, t

    def assign(p, t):
        for k, c in cs.items():
            c.pressure = float(p[k])
        for k, b in frame.big_edges.items():
            b.tension = float(t[k])

    def tensors(radius):
        sig, centres, bins = fst.stress_tensor(frame, grid, radius)
        return sig, centres, bins

    def get(sig, r, c):
        return np.array(sig[f"{r}{c}"], dtype=float)

    res["evaluated"] = True
    res["digest"] = _digest((V.tobytes(), grid, spec["radii"]))
    res["stats"] = dict(cells=ncell, interfaces=nbe, grid=grid, radii=spec["radii"], empty_grid_cells=0,
                        covered_grid_cells=0)
    s1, s2 = draw_state(), draw_state()
    a, b = float(rng.choice([2.0, -1.5, 0.3])), float(rng.choice([1.0, -0.7, 4.0]))
    extra0 = dict(cells=ncell, interfaces=nbe, mean_cell_area=mean_area)
    for radius in spec["radii"]:
        extra = dict(extra0, radius=radius)
        with np.errstate(all="ignore"):
            R = radius * math.sqrt(mean_area / math.pi)
            d2 = (xc[:, None, None] - cen[None, None, :, 0]) ** 2 + (yc[None, :, None] - cen[None, None, :, 1]) ** 2
            dist = np.sqrt(d2)                               # [row, column, cell]
            inside = dist <= R
            borderline = np.abs(dist - R) < 1e-9 * max(R, 1e-300)
            mask = inside.any(axis=2)                        # some centre within the averaging radius
            unsure = (borderline.any(axis=2)) & ~((inside & ~borderline).any(axis=2))
        try:
            assign(*s2)
            S2, _, _ = tensors(radius)
            assign(a * s1[0] + b * s2[0], a * s1[1] + b * s2[1])
            S3, _, _ = tensors(radius)
            p0 = float(rng.choice([1.0, -2.5, 0.37]))
            assign(np.full(ncell, p0), np.zeros(nbe))
            SP, _, _ = tensors(radius)
            assign(*s1)
            S1, centres, bins = tensors(radius) if grid <= 4 else (None, None, None)
            if grid <= 6:           # an earlier call with another grid on the same frame must leave nothing behind
                frame.calculate_stress_tensor(grid + 1, radius)
            frame.calculate_stress_tensor(grid, radius)
            PS = dict(frame.principal_stress)
            if S1 is None:          # large grids: take the frame's own copy of the tensors it diagonalised
                S1, centres, bins = frame.stress_tensor
            elif any(np.abs(np.array(S1[k]) - np.array(frame.stress_tensor[0][k])).max() != 0 for k in S1):
                fail("principal stresses are the eigenvalues/eigenvectors of the tensor at the grid centre",
                     "Frame.calculate_stress_tensor stores other tensors than stress_tensor(frame, grid, radius)", extra)
        except Exception:
            tb = traceback.format_exc()
            if big:
                collide["cells_wrong"] += 1
                collide["examples"].append("raises: " + tb.strip().splitlines()[-1][:200])
            else:
                res["failures"].append(dict(key=key + ":stress_tensor raises", name="stress_tensor raises",
                                            input=dict(spec=spec, extra=extra), detail=tb[-500:]))
            continue
        collide["dict_size"] = len(S1)
        with np.errstate(all="ignore"):
            # grid centres
            try:
                okc = (len(centres[0]) == grid and len(centres[1]) == grid and
                       np.abs(np.array(centres[0], dtype=float) - xc).max() <= ktol and
                       np.abs(np.array(centres[1], dtype=float) - yc).max() <= ktol)
            except Exception:
                okc = False
            if not okc:
                fail("grid centres", "returned %s / %s, histogram of the cell centroids gives %s / %s" % (
                    list(centres[0])[:3], list(centres[1])[:3], xc[:3], yc[:3]), extra)
                continue
            if not big and len(S1) != grid * grid:
                fail("one tensor per grid cell", "%d tensors for a %dx%d grid" % (len(S1), grid, grid), extra)
            scale1 = max(1e-300, max(float(np.abs(S1[k]).max()) for k in S1),
                         max(float(np.abs(S2[k]).max()) for k in S2))
            lin_scale = abs(a) * scale1 + abs(b) * scale1
            done = set()
            for r in range(grid):
                for c in range(grid):
                    if unsure[r, c]:
                        continue
                    try:
                        t1, t2, t3, tp = get(S1, r, c), get(S2, r, c), get(S3, r, c), get(SP, r, c)
                    except KeyError:
                        fail("one tensor per grid cell", "no tensor for grid cell (%d,%d)" % (r, c), extra)
                        continue
                    here = dict(extra, row=r, column=c, centre=[float(xc[r]), float(yc[c])])
                    if mask[r, c]:
                        res["stats"]["covered_grid_cells"] += 1
                    else:
                        res["stats"]["empty_grid_cells"] += 1
                    if t1.shape != (2, 2) or t1[0, 1] != t1[1, 0] and abs(t1[0, 1] - t1[1, 0]) > 1e-12 * scale1:
                        if "sym" not in done:
                            fail("tensor is symmetric", "grid cell (%d,%d): %s" % (r, c, t1.tolist()), here)
                        done.add("sym" if not big else None)
                    if not mask[r, c] and (np.any(t1 != 0) or np.any(tp != 0)):
                        if "zero" not in done:
                            fail("zero matrix where no cell centre lies within the averaging radius",
                                 "grid cell (%d,%d) centre (%r,%r): nearest centroid at %r > R=%r but tensor %s" % (
                                     r, c, xc[r], yc[c], float(dist[r, c].min()), R, t1.tolist()), here)
                        done.add("zero" if not big else None)
                    if mask[r, c]:
                        if np.abs(tp - (-p0) * np.eye(2)).max() > 1e-9 * abs(p0):
                            if "iso" not in done:
                                fail("equals -p*identity for zero tensions and uniform pressure p",
                                     "grid cell (%d,%d), p=%r, nearest centroid %r <= R=%r: tensor %s" % (
                                         r, c, p0, float(dist[r, c].min()), R, tp.tolist()), here)
                            done.add("iso" if not big else None)
                    if np.abs(t3 - (a * t1 + b * t2)).max() > 1e-8 * lin_scale:
                        if "lin" not in done:
                            fail("jointly linear in pressures and tensions",
                                 "grid cell (%d,%d): T(%g s1 + %g s2)=%s but %g T(s1) + %g T(s2)=%s" % (
                                     r, c, a, b, t3.tolist(), a, b, (a * t1 + b * t2).tolist()), here)
                        done.add("lin" if not big else None)
                    # principal stresses at this grid centre (state s1)
                    hit = [k for k in PS if abs(k[0] - xc[r]) <= ktol and abs(k[1] - yc[c]) <= ktol]
                    if len(hit) != 1:
                        if "pskey" not in done:
                            fail("principal stresses are reported at the grid centres",
                                 "%d entries for centre (%r,%r)" % (len(hit), xc[r], yc[c]), here)
                        done.add("pskey" if not big else None)
                        continue
                    try:
                        w, v = PS[hit[0]]
                        w = np.array(w, dtype=complex)
                        v = np.array(v, dtype=complex)
                        ref = np.linalg.eigvalsh(0.5 * (t1 + t1.T))
                        tolp = 1e-9 * max(scale1, 1e-300)
                        ok = (np.abs(np.sort(w.real) - ref).max() <= tolp and np.abs(w.imag).max() <= tolp and
                              np.abs(t1 @ v - v * w[None, :]).max() <= tolp and
                              np.abs(np.linalg.norm(v, axis=0) - 1).max() <= 1e-9)
                    except Exception as ex:       # noqa
                        ok = False
                        w, v = repr(ex), None
                    if not ok:
                        if "ps" not in done:
                            fail("principal stresses are the eigenvalues/eigenvectors of the tensor at the grid centre",
                                 "grid cell (%d,%d): tensor %s, reported eigenvalues %s" % (
                                     r, c, t1.tolist(), np.array(w).tolist() if v is not None else w), here)
                        done.add("ps" if not big else None)
            if len(PS) != grid * grid and not big:
                fail("principal stresses are reported at the grid centres",
                     "%d entries for a %dx%d grid" % (len(PS), grid, grid), extra)
            if big and len(S1) != grid * grid:
                collide["dict_size"] = len(S1)
    if big:
        res["collide"] = collide
    del frame
    return res


B18_N = dict(quick=12 * 6, thorough=12 * 200)
B18_BUDGET = dict(quick=24.0, thorough=400.0)


@bounded("B18", ["C18"], "Coarse-grained stress tensor: symmetric, local, linear, isotropic for pure pressure",
         bound="Voronoi tissues of >= 12 cells (36..80 seeds, straight or bowed subdivided interfaces, length scale "
               "0.1/1/25) x grid 1..12 x 3 radii from {0.5,0.75,1} u [1,3] u {4,6} cell radii x random pressures and "
               "tensions (normal, 15% exact zeros, both signs; 3 radii for grid <= 7, 2 for 8..10, 1 for 11..12); quick 6 tissues, thorough <= 200 tissues "
               "(time capped); 4-5 stress_tensor evaluations per (tissue, grid, radius)")
def run_b18(tier, seed):
    specs = [b18_spec(seed, i) for i in range(B18_N[tier])]
    # expensive grids first
    specs.sort(key=lambda s: (s["tissue"], -s["grid"]))
    results = _run_pool(b18_case, specs, B18_BUDGET[tier])
    failures, samples, digests = [], [], set()
    agg = dict(empty=0, covered=0, by_grid={}, build_errors=0)
    evaluations = 0
    coll = []
    for r in results:
        failures += r["failures"]
        if r.get("build_error"):
            agg["build_errors"] += 1
        if not r["evaluated"]:
            continue
        st = r["stats"]
        evaluations += len(st["radii"])
        if st["covered_grid_cells"] > 0:
            digests.add(r["digest"])
        agg["empty"] += st["empty_grid_cells"]
        agg["covered"] += st["covered_grid_cells"]
        agg["by_grid"][st["grid"]] = agg["by_grid"].get(st["grid"], 0) + 1
        if r.get("collide") and (r["collide"]["cells_wrong"] or (r["collide"]["dict_size"] or 0) != st["grid"] ** 2):
            coll.append((r["spec"], r["collide"]))
        if len(samples) < 4:
            samples.append(dict(spec=r["spec"], stats=st))
    if evaluations == 0 and not failures:
        raise RuntimeError("B18: no case was evaluated (worker pool failed?)")
    failures = _collapse(failures)
    if coll:
        coll.sort(key=lambda x: (-x[1]["cells_wrong"], x[0]["grid"], x[0]["idx"]))
        spec0, c0 = coll[0]
        per_grid = {}
        for r in results:
            c = r.get("collide")
            if r["evaluated"] and c:
                g = per_grid.setdefault(c["grid"], dict(cases=0, grid_cells=c["grid"] ** 2, dict_sizes=set(),
                                                        clause_violations=0))
                g["cases"] += 1
                g["dict_sizes"].add(c["dict_size"])
                g["clause_violations"] += c["cells_wrong"]
        for g in per_grid.values():
            g["dict_sizes"] = sorted(x for x in g["dict_sizes"] if x is not None)
        failures.append(dict(
            key="grid>=11-key-collision", name="one tensor per grid cell (grid >= 11)",
            input=dict(spec=spec0),
            detail="stress_tensor keys grid cell (row, column) by f'{row}{column}', which is ambiguous once an index "
                   "reaches 11 (e.g. (1,10)/(11,0) -> '110', (1,11)/(11,1) -> '111'): observed per grid %s; clause "
                   "violations are counted when grid cell (r,c) is looked up under that key, as "
                   "Frame.calculate_stress_tensor does; e.g. %s" % (per_grid, c0["examples"][:2])))
    return dict(evaluations=evaluations, distinct_nontrivial=len(digests),
                rule="one evaluation = one (tissue, grid, radius): symmetry, zero/-p*I support against independently "
                     "computed centroids, areas and histogram centres, linearity T(a s1 + b s2) = a T(s1) + b T(s2), "
                     "and Frame.principal_stress against the tensors; non-trivial = at least one grid cell with a cell "
                     "centre inside the radius; distinct = distinct (geometry, grid, radii). grid cells whose nearest "
                     "decisive centroid is within 1e-9 of the radius are skipped. totals: %s" % agg,
                samples=samples, failures=failures)


# ----------------------------------------------------------------------------------------------

def replay(failure):
    """True = the recorded failing input passes now"""
    inp = failure.get("input") or {}
    spec = inp.get("spec")
    if not spec:
        return False
    if spec.get("check") == "B17":
        r = b17_case(spec)
    else:
        r = b18_case(spec)
        if failure.get("key") == "grid>=11-key-collision":
            c = r.get("collide") or {}
            return bool(r["evaluated"]) and not c.get("cells_wrong") and c.get("dict_size") == spec["grid"] ** 2
    name = failure.get("name")
    return not any(f["name"] == name for f in r["failures"]) if name else not r["failures"]
