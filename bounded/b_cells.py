"""B20 - bounded stand-in for the clauses of C20 that need planar topology: area additivity over a hole-free tissue,
neighbours = cells sharing a vertex, signs/navigation on generated (non-convex, curved) cells.  Real forsys code on
generated tissues (bounded/gen.py); labelled bounded, never counted as proved."""
import math
import os
import random
import sys

sys.path.insert(0, os.path.dirname(os.path.dirname(os.path.abspath(__file__))))
from fvc.registry import bounded      # noqa: E402
from bounded import gen               # noqa: E402


def shoelace(pts):
    n = len(pts)
    return 0.5 * sum(pts[i][0] * pts[i - 1][1] - pts[i][1] * pts[i - 1][0] for i in range(n))


def outline_cycles(t):
    """closed walks formed by the mesh edges that belong to exactly one cell"""
    count = {}
    for cid, cyc in t.cells.items():
        for a, b in zip(cyc, cyc[1:] + cyc[:1]):
            k = (min(a, b), max(a, b))
            count[k] = count.get(k, 0) + 1
    border = [k for k, c in count.items() if c == 1]
    adj = {}
    for a, b in border:
        adj.setdefault(a, []).append(b)
        adj.setdefault(b, []).append(a)
    if any(len(v) != 2 for v in adj.values()):
        return None                       # pinched outline (cells touching in a point): not a simple polygon
    seen, cycles = set(), []
    for start in adj:
        if start in seen:
            continue
        cyc, prev, cur = [start], None, start
        seen.add(start)
        while True:
            nxt = [x for x in adj[cur] if x != prev]
            nxt = nxt[0] if nxt else adj[cur][0]
            if nxt == start:
                break
            cyc.append(nxt)
            seen.add(nxt)
            prev, cur = cur, nxt
            if len(cyc) > len(adj) + 1:
                return None
        cycles.append(cyc)
    return cycles


def make(spec):
    base = spec["base"]
    if base == "voronoi":
        t = gen.voronoi_tissue(spec["n"], spec["seed"], pts=spec["pts"])
    else:
        t = gen.BASE_TISSUES[base](seed=spec["seed"], pts=spec["pts"]) if callable(gen.BASE_TISSUES[base]) else gen.BASE_TISSUES[base]
    if spec.get("moebius"):
        t = gen.moebius_image(t, strength=spec["moebius"], seed=spec["seed"])
    if spec.get("subset") is not None:
        t = gen.subtissue(t, spec["subset"])
    if spec.get("flip"):
        t = gen.flip_cells(t, [c for i, c in enumerate(t.cells) if (spec["flip"] >> i) & 1])
    if spec.get("shift"):
        t = gen.shift_cycles(t, spec["shift"])
    if spec.get("xf"):
        t = gen.transform(t, **spec["xf"])
    return t


def check(spec):
    t = make(spec)
    fails = []
    v, e, c = gen.build(t)
    areas = {cid: cell.get_area() for cid, cell in c.items()}
    # per cell: shoelace, sign, perimeter, navigation, neighbours
    for cid, cell in c.items():
        pts = [t.vertices[x.id] for x in cell.vertices]
        a = shoelace(pts)
        per = sum(math.dist(pts[i], pts[(i + 1) % len(pts)]) for i in range(len(pts)))
        if not math.isclose(areas[cid], a, rel_tol=1e-9, abs_tol=1e-10 * per * per):       # tolerance relative to the cell's own size (any length unit)
            fails.append(("area", f"cell {cid}: get_area {areas[cid]} vs shoelace {a}"))
        s = cell.get_area_sign()
        if s != (1 if a > 0 else -1 if a < 0 else 0) and abs(a) > 1e-9 * per * per:
            fails.append(("sign", f"cell {cid}: sign {s} for area {a}"))
        if not math.isclose(cell.get_perimeter(), per, rel_tol=1e-9):
            fails.append(("perimeter", f"cell {cid}: {cell.get_perimeter()} vs {per}"))
        n = len(cell.vertices)
        for i in (0, n // 2, n - 1):
            nx = cell.get_next_vertex(cell.vertices[i])
            if nx is not cell.vertices[(i + s) % n] or cell.get_previous_vertex(nx) is not cell.vertices[i]:
                fails.append(("navigation", f"cell {cid}, position {i}"))
        want = sorted({o for o, cyc in t.cells.items() if o != cid and set(cyc) & set(t.cells[cid])})
        got = sorted(cell.calculate_neighbors())
        if got != want:
            fails.append(("neighbours", f"cell {cid}: {got} vs cells sharing a vertex {want}"))
    # additivity over a hole-free tissue
    cyc = outline_cycles(t)
    nontrivial = False
    if cyc is not None and len(cyc) == 1 and len(t.cells) > 1:
        nontrivial = True
        out = abs(shoelace([t.vertices[x] for x in cyc[0]]))
        tot = sum(abs(a) for a in areas.values())
        if not math.isclose(out, tot, rel_tol=1e-9):
            fails.append(("additivity", f"sum of |areas| {tot} vs outline area {out}"))
    return fails, nontrivial, t.shape_hash() if hasattr(t, "shape_hash") else None


def polygon_points(spec):
    """single polygons: rectangles / L-shapes / regular and star polygons with every side subdivided by `sub` interior points,
    axis-aligned or rotated, either orientation, any cyclic shift"""
    kind, sub = spec["kind"], int(spec["sub"])
    if kind == "rect":
        corners = [(0.0, 0.0), (4.0, 0.0), (4.0, 1.0), (0.0, 1.0)]
    elif kind == "L":
        corners = [(0.0, 0.0), (3.0, 0.0), (3.0, 1.0), (1.0, 1.0), (1.0, 3.0), (0.0, 3.0)]
    elif kind == "regular":
        m = int(spec["m"])
        corners = [(math.cos(2 * math.pi * i / m), math.sin(2 * math.pi * i / m)) for i in range(m)]
    else:           # star: alternating radii, non-convex
        m = int(spec["m"])
        corners = [((1.0 if i % 2 == 0 else 0.45) * math.cos(math.pi * i / m), (1.0 if i % 2 == 0 else 0.45) * math.sin(math.pi * i / m)) for i in range(2 * m)]
    pts = []
    for i, p in enumerate(corners):
        q = corners[(i + 1) % len(corners)]
        for j in range(sub + 1):
            t = j / (sub + 1)
            pts.append((p[0] + t * (q[0] - p[0]), p[1] + t * (q[1] - p[1])))
    ca, sa = math.cos(spec["angle"]), math.sin(spec["angle"])
    pts = [(spec["scale"] * (ca * x - sa * y) + spec["dx"], spec["scale"] * (sa * x + ca * y) + spec["dy"]) for x, y in pts]
    if spec["reverse"]:
        pts = pts[::-1]
    k = spec["shift"] % len(pts)
    return pts[k:] + pts[:k]


def check_polygon(spec):
    fs = gen.forsys_modules()
    pts = polygon_points(spec)
    vs = [fs.vertex.Vertex(10 + i, float(x), float(y)) for i, (x, y) in enumerate(pts)]
    cell = fs.cell.Cell(1, vs)
    fails = []
    n = len(pts)
    a = shoelace(pts)
    per = sum(math.dist(pts[i], pts[(i + 1) % n]) for i in range(n))
    if not math.isclose(cell.get_area(), a, rel_tol=1e-9, abs_tol=1e-10 * per * per):
        fails.append(("area", f"polygon {spec}: get_area {cell.get_area()} vs shoelace {a}"))
    s = cell.get_area_sign()
    want = 1 if a > 0 else -1
    if s != want:
        fails.append(("sign", f"polygon {spec}: sign {s} for area {a}"))
    if not math.isclose(cell.get_perimeter(), per, rel_tol=1e-9):
        fails.append(("perimeter", f"polygon {spec}: {cell.get_perimeter()} vs {per}"))
    for i in (0, 1, n // 2, n - 1):
        nx = cell.get_next_vertex(vs[i])
        if nx is not vs[(i + want) % n] or cell.get_previous_vertex(nx) is not vs[i]:
            fails.append(("navigation", f"polygon {spec}, position {i}"))
            break
    return fails


def polygon_specs(tier, seed):
    rnd = random.Random(seed + 77)
    out = []
    for _ in range(120 if tier == "quick" else 2000):
        kind = rnd.choice(["rect", "L", "regular", "star"])
        sub = rnd.choice([0, 1, 2, 3, 5])
        m = rnd.randrange(3, 12)
        npts = {"rect": 4, "L": 6, "regular": m, "star": 2 * m}[kind] * (sub + 1)
        out.append(dict(poly=True, kind=kind, sub=sub, m=m, angle=rnd.choice([0.0, math.pi / 2, math.pi, rnd.uniform(0, 6.28)]),
                        scale=10 ** rnd.choice([0.0, 0.0, rnd.uniform(-6, 4)]), dx=0.0, dy=0.0, reverse=rnd.random() < 0.5, shift=rnd.randrange(npts)))
        if rnd.random() < 0.5:
            out[-1]["dx"], out[-1]["dy"] = out[-1]["scale"] * rnd.uniform(-5, 5), out[-1]["scale"] * rnd.uniform(-5, 5)
    return out


def specs(tier, seed):
    rnd = random.Random(seed)
    out = []
    nb = 60 if tier == "quick" else 600
    for i in range(nb):
        base = rnd.choice(["hex_patch", "flower", "strip", "voronoi"])
        sp = dict(base=base, seed=rnd.randrange(10 ** 6), pts=rnd.choice([0, 1, 3, 8]), n=rnd.choice([12, 20, 30]))
        if rnd.random() < 0.5:
            sp["moebius"] = round(rnd.uniform(0.1, 0.9), 3)
        sp["flip"] = rnd.randrange(1 << 9) if rnd.random() < 0.5 else 0
        sp["shift"] = rnd.randrange(10 ** 6) if rnd.random() < 0.5 else 0
        if rnd.random() < 0.5:
            sp["xf"] = dict(angle=rnd.uniform(0, 6.28), shift=(rnd.uniform(-50, 50), rnd.uniform(-50, 50)), scale=10 ** rnd.uniform(-2, 2), reflect=rnd.random() < 0.3)
        elif rnd.random() < 0.4:
            # the same tissue in a very small or very large length unit (shift in that unit too, so that no precision is lost to the offset)
            sc = 10 ** rnd.choice([rnd.uniform(-7, -3), rnd.uniform(3, 6)])
            sp["xf"] = dict(angle=rnd.uniform(0, 6.28), shift=(sc * rnd.uniform(-5, 5), sc * rnd.uniform(-5, 5)), scale=sc, reflect=rnd.random() < 0.3)
        out.append(sp)
    return out


@bounded("B20", ["C20"], "cell geometry on generated tissues: area additivity over hole-free tissues, neighbours, navigation, perimeter",
         bound="quick 120 / thorough 2000 single polygons (rectangles, L-shapes, regular and star polygons, sides subdivided by 0..5 points, axis-aligned and rotated, both orientations, every cyclic shift sampled, length units 1e-6..1e4) and quick 60 / thorough 600 generated tissues (base tissues, Voronoi 12-30 cells, Moebius images, flips, shifts, similarity transforms), seeded")
def run_b20(tier, seed):
    ev, hashes, failures, samples = 0, set(), [], []
    for sp in specs(tier, seed):
        try:
            f, nt, h = check(sp)
        except Exception as ex:      # noqa
            failures.append(dict(key="B20:crash", name="crash", input=sp, detail=repr(ex)))
            continue
        ev += 1
        if nt:
            hashes.add((h, sp.get("flip"), sp.get("shift"), str(sp.get("xf"))))
        if len(samples) < 3:
            samples.append(sp)
        for name, detail in f[:3]:
            failures.append(dict(key=f"B20:{name}", name=name, input=sp, detail=detail))
    for sp in polygon_specs(tier, seed):
        try:
            f = check_polygon(sp)
        except Exception as ex:      # noqa
            failures.append(dict(key="B20:crash", name="crash", input=sp, detail=repr(ex)))
            continue
        ev += 1
        hashes.add(("poly", sp["kind"], sp["sub"], sp["m"], sp["reverse"], sp["shift"], round(sp["angle"], 6)))
        for name, detail in f[:3]:
            failures.append(dict(key=f"B20:{name}", name=name, input=sp, detail=detail))
    return dict(evaluations=ev, distinct_nontrivial=len(hashes), failures=failures, samples=samples,
                rule="random generated tissues; non-trivial = more than one cell and a single simple outline (additivity clause applies); distinct by (shape hash, flip pattern, shift, transform)")


def replay(failure):
    if failure["input"].get("poly"):
        return not check_polygon(failure["input"])
    f, _, _ = check(failure["input"])
    return not f
