"""Bounded stand-ins for the I/O properties.

B14 (C14)  Surface Evolver dumps written by an independent serialiser are parsed faithfully.
B19 (C19)  Tessellation lattices match an independent reading of scipy.spatial.Voronoi.

Both run the REAL forsys code (from $FVC_REPO if set, else /repo) on generated inputs.  Every case is
a pure function of a small JSON-able *spec* (kind, sizes, rng seed words), so a failure can be replayed
from `failure["input"]["spec"]` alone.
"""
import hashlib
import math
import multiprocessing as mp
import os
import shutil
import sys
import tempfile
import time
import traceback
from decimal import Decimal, ROUND_FLOOR

if os.environ.get("FVC_REPO"):
    sys.path.insert(0, os.environ["FVC_REPO"])
elif "/repo" not in sys.path:
    sys.path.append("/repo")

import numpy as np
from scipy.spatial import Voronoi, Delaunay

from fvc.registry import bounded

NPROC = min(16, os.cpu_count() or 1)


# ----------------------------------------------------------------------------------------------
# generic helpers
# ----------------------------------------------------------------------------------------------

def _rng(words):
    return np.random.default_rng([int(w) & 0xFFFFFFFF for w in words])


def _digest(obj):
    return hashlib.sha1(repr(obj).encode()).hexdigest()[:16]


def _run_pool(worker, specs, budget_s):
    """map worker over specs with a spawn pool; stops handing out work when the time budget is used up."""
    t0 = time.time()
    out = []
    if not specs:
        return out
    ctx = mp.get_context("spawn")
    with ctx.Pool(min(NPROC, len(specs))) as pool:
        it = pool.imap_unordered(worker, specs, chunksize=1)
        for _ in range(len(specs)):
            left = budget_s - (time.time() - t0)
            try:
                out.append(it.next(timeout=max(left, 0.05)))
            except mp.TimeoutError:
                break
            except StopIteration:
                break
        pool.terminate()
    out.sort(key=lambda r: r["order"])
    return out


def _round_candidates(text, nd):
    """the admissible values of `text` (a decimal literal) rounded to nd decimals: one value, or both
    neighbours when the literal is an exact decimal tie (the statement does not fix the tie rule)"""
    d = Decimal(text)
    q = Decimal(1).scaleb(-nd)
    lo = (d / q).to_integral_value(rounding=ROUND_FLOOR)
    frac = d / q - lo
    if frac == Decimal("0.5"):
        c = [lo, lo + 1]
    elif frac < Decimal("0.5"):
        c = [lo]
    else:
        c = [lo + 1]
    return [float(x * q) for x in c]


def _is_rounded(value, text, nd):
    try:
        v = float(value)
    except Exception:
        return False
    return any(abs(v - c) <= 1e-9 * max(1.0, abs(c)) for c in _round_candidates(text, nd))


# ----------------------------------------------------------------------------------------------
# tissue generator (independent of forsys): planar cell complexes
#   V : (nv, 2) float array        E : list of (i, j) vertex indices
#   C : list of loops, each a list of (edge_index, +1 | -1); +1 traverses E[k] from i to j
# ----------------------------------------------------------------------------------------------

def _subdivide(V, a, b, k, rng, bulge):
    """k interior points on the ridge a-b (slightly bowed so that circle fits stay well posed)"""
    pa, pb = np.array(V[a]), np.array(V[b])
    d = pb - pa
    n = np.array([-d[1], d[0]])
    ts = np.sort(rng.uniform(0.12, 0.88, size=k))
    # keep interior points apart
    ts = np.linspace(0.15, 0.85, k) * 0.7 + ts * 0.3 if k else ts
    h = bulge * rng.uniform(0.3, 1.0) * (1 if rng.random() < 0.5 else -1)
    return [tuple(pa + t * d + h * 4 * t * (1 - t) * n) for t in ts]


def make_tissue(rng, n_points, kind="voronoi", sub_max=4, bulge=0.06, min_cells=1):
    """returns dict(V, E, C, junction_count) or None when the draw is unusable"""
    L = 10.0 * math.sqrt(max(n_points, 4))
    if kind == "polygon":                      # one cell, no junction
        n = max(3, n_points)
        ang = np.sort(rng.uniform(0, 2 * np.pi, n))
        if np.min(np.diff(np.concatenate([ang, [ang[0] + 2 * np.pi]]))) < 0.5 / n:
            ang = np.linspace(0, 2 * np.pi, n, endpoint=False) + rng.uniform(0, 0.2 / n, n)
        r = rng.uniform(0.8, 1.2, n) * 10
        V = [(float(r[i] * np.cos(ang[i])), float(r[i] * np.sin(ang[i]))) for i in range(n)]
        E = [(i, (i + 1) % n) for i in range(n)]
        C = [[(i, 1) for i in range(n)]]
        return dict(V=np.array(V), E=E, C=C)
    pts = rng.uniform(0, L, size=(n_points, 2))
    polys = []
    if kind == "voronoi":
        vor = Voronoi(pts)
        base = vor.vertices
        m = 0.15 * L
        for reg in vor.regions:
            if not reg or -1 in reg:
                continue
            P = base[reg]
            if P.min() < -m or P.max() > L + m:
                continue
            polys.append(list(reg))
    elif kind == "delaunay":
        tri = Delaunay(pts)
        base = pts
        for s in tri.simplices:
            P = pts[s]
            area2 = abs((P[1][0] - P[0][0]) * (P[2][1] - P[0][1]) - (P[1][1] - P[0][1]) * (P[2][0] - P[0][0]))
            per = sum(np.linalg.norm(P[i] - P[(i + 1) % 3]) for i in range(3))
            if area2 < 0.02 * per * per:       # drop slivers
                continue
            polys.append([int(x) for x in s])
    else:
        raise ValueError(kind)
    if len(polys) < min_cells:
        return None
    # ridges
    ridge_len = []
    for p in polys:
        for i in range(len(p)):
            a, b = p[i], p[(i + 1) % len(p)]
            ridge_len.append(np.linalg.norm(base[a] - base[b]))
    if min(ridge_len) < 0.02 * np.median(ridge_len) or min(ridge_len) < 0.05:
        return None
    used = sorted({v for p in polys for v in p})
    remap = {v: i for i, v in enumerate(used)}
    V = [tuple(base[v]) for v in used]
    E = []
    chains = {}
    C = []
    for p in polys:
        loop = []
        n = len(p)
        for i in range(n):
            a, b = remap[p[i]], remap[p[(i + 1) % n]]
            key = (min(a, b), max(a, b))
            if key not in chains:
                k = int(rng.integers(0, sub_max + 1)) if sub_max > 0 else 0
                mids = _subdivide(V, key[0], key[1], k, rng, bulge)
                ids = [key[0]]
                for q in mids:
                    V.append(q)
                    ids.append(len(V) - 1)
                ids.append(key[1])
                eids = []
                for j in range(len(ids) - 1):
                    E.append((ids[j], ids[j + 1]))
                    eids.append(len(E) - 1)
                chains[key] = eids
            eids = chains[key]
            if a == key[0]:
                loop += [(e, 1) for e in eids]
            else:
                loop += [(e, -1) for e in reversed(eids)]
        C.append(loop)
    return dict(V=np.array(V, dtype=float), E=E, C=C)


# ----------------------------------------------------------------------------------------------
# B14: independent Surface Evolver serialiser
# ----------------------------------------------------------------------------------------------

_HEADER = """// {name}: Dump of structure.

// datafilename: generated.fe
vertices_predicted      {nv}
edges_predicted         {ne}
facets_predicted         {nf}
facetedges_predicted    {nfe}
bodies_predicted         {nf}
quantities_predicted            0
method_instances_predicted      0
// Total energy: 4812.53483942057
SPACE_DIMENSION 2
STRING

LINEAR

SCALE: 0.005     FIXED

PARAMETER ii =  0

TOTAL_TIME 700

VIEW_MATRIX
 0.007926505441546   0.000000000000000  -1.033560824039506
 0.000000000000000   0.007926505441546  -1.023743847050151
 0.000000000000000   0.000000000000000   1.000000000000000
slice_coeff = {{ 1.00000, 0.00000, 0.00000}}


"""

_TAIL = """read
ff := "data/steps0.dmp"

show_all_edges off
clipped off
"""


def _fmt_num(x, rng, style):
    """decimal literal for x in one of the layouts Surface Evolver prints (%.15g family)"""
    if style == "g15":
        s = "%.15g" % x
    elif style == "g17":
        s = "%.17g" % x
    elif style == "short":
        s = "%.6g" % x
    elif style == "tie":          # a literal ending in ...5 one digit past the kept ones: a decimal rounding tie
        s = "%.3f5" % x
    else:
        s = "%.12f" % x
    if "inf" in s or "nan" in s:
        s = "0"
    return s


def _ids(rng, n, mode):
    """n distinct positive ids in increasing order: dense, gapped or far apart"""
    if mode == "dense":
        return list(range(1, n + 1))
    if mode == "gaps":
        pool = rng.choice(np.arange(1, 3 * n + 8), size=n, replace=False)
        return sorted(int(x) for x in pool)
    start = int(rng.integers(1, 5000))
    steps = rng.integers(1, 40, size=n)
    return [int(x) for x in start + np.cumsum(steps)]


def b14_spec(seed, idx):
    r = _rng([seed, idx, 14])
    kinds = ["voronoi"] * 5 + ["delaunay"] * 3 + ["polygon"] * 2
    kind = kinds[idx % len(kinds)]
    if kind == "voronoi":
        n = int(r.choice([8, 12, 20, 35, 60, 90]))
    elif kind == "delaunay":
        n = int(r.choice([3, 4, 5, 8, 14, 30]))
    else:
        n = int(r.choice([3, 4, 7, 25, 60]))
    return dict(check="B14", seed=int(seed), idx=int(idx), kind=kind, n=n,
                sub_max=int(r.choice([0, 1, 3, 6, 12])),
                scale=float(r.choice([1.0, 1.0, 0.004, 37.5, 1.0e5, 0.25])),
                shift=float(r.choice([0.0, 0.0, -500.0, 12345.678])),
                idmode=str(r.choice(["dense", "gaps", "far"])),
                numstyle=str(r.choice(["g15", "g15", "g17", "short", "f12", "tie"])),
                wrap=int(r.choice([1, 2, 3, 5, 10, 10, 17, 1000])),
                density=str(r.choice(["all", "mixed", "none", "mixed"])),
                extras=int(r.choice([0, 0, 2, 7])),
                chord=bool(r.random() < 0.08),
                crlf=bool(r.random() < 0.5))


def b14_build(spec):
    """-> (dump text, expectation dict, stats dict) or None when the tissue draw is unusable"""
    rng = _rng([spec["seed"], spec["idx"], 1414])
    T = None
    for _ in range(20):
        T = make_tissue(rng, spec["n"], spec["kind"], sub_max=spec["sub_max"])
        if T is not None and 1 <= len(T["C"]) and max(len(c) for c in T["C"]) <= 60:
            break
        T = None
    if T is None:
        return None
    V, E, C = T["V"] * spec["scale"] + spec["shift"], list(T["E"]), T["C"]
    nv_att, ne_att = len(V), len(E)
    # extra, unattached vertices and edges
    extra_v = []
    extra_e = []           # (i, j, sort) with i, j indices into the combined vertex list
    lo, hi = V.min(), V.max()
    for k in range(spec["extras"]):
        extra_v.append((float(rng.uniform(lo, hi)), float(rng.uniform(lo, hi))))
    allV = [tuple(p) for p in V] + extra_v
    ex_idx = list(range(nv_att, len(allV)))
    for k in range(len(ex_idx) // 2):
        if k % 2 == 0 and len(ex_idx) >= 2:
            a, b = rng.choice(ex_idx, size=2, replace=False)           # free - free
            extra_e.append((int(a), int(b), "free"))
        else:
            a = int(rng.choice(ex_idx))                                    # dangling: free - attached
            b = int(rng.integers(0, nv_att))
            extra_e.append((a, b, "dangling") if rng.random() < 0.5 else (b, a, "dangling"))
    chord = None
    if spec["chord"] and nv_att >= 4:
        joined = {frozenset(e) for e in E}
        for _ in range(50):
            a, b = (int(x) for x in rng.choice(nv_att, size=2, replace=False))
            if frozenset((a, b)) not in joined:
                chord = (a, b, "chord")
                extra_e.append(chord)
                break
    # ids
    vperm = rng.permutation(len(allV))          # vertex index -> position in id order (interleaves extras)
    vid_list = _ids(rng, len(allV), spec["idmode"])
    vid = {int(i): vid_list[int(p)] for i, p in enumerate(vperm)}
    allE = [(a, b, "face") for (a, b) in E] + extra_e
    eperm = rng.permutation(len(allE))
    eid_list = _ids(rng, len(allE), spec["idmode"])
    eid = {int(i): eid_list[int(p)] for i, p in enumerate(eperm)}
    fid_list = _ids(rng, len(C), spec["idmode"])
    # random recorded orientation per edge
    flip = rng.random(len(allE)) < 0.5
    rec_edges = {}
    for i, (a, b, sort) in enumerate(allE):
        v1, v2 = (b, a) if flip[i] else (a, b)
        if spec["density"] == "all":
            has = True
        elif spec["density"] == "none":
            has = False
        else:
            has = rng.random() < 0.6
        dens_text = None
        if has:
            dv = float(rng.choice([rng.uniform(0.2, 3.0), rng.uniform(0, 1e-4), 0.0, rng.uniform(5, 500), 1.0,
                                   rng.uniform(0.9, 1.1)]))
            dens_text = ("%.4f5" % dv) if spec["numstyle"] == "tie" else _fmt_num(dv, rng, spec["numstyle"])
        trailer = ""
        if rng.random() < 0.3:
            trailer = "  original %d" % int(rng.integers(1, 999))
        rec_edges[i] = dict(id=eid[i], v1=vid[v1], v2=vid[v2], dens=dens_text, trailer=trailer, sort=sort,
                            iv1=v1, iv2=v2)
    # text
    nl = "\r\n" if spec["crlf"] else "\n"
    out = []
    vtext = {}
    order_v = sorted(range(len(allV)), key=lambda i: vid[i])
    out.append("vertices        /*  coordinates  */    ")
    for i in order_v:
        xs = _fmt_num(allV[i][0], rng, spec["numstyle"])
        ys = _fmt_num(allV[i][1], rng, spec["numstyle"])
        vtext[i] = (xs, ys)
        out.append("%3d   %s  %s" % (vid[i], xs.rjust(16), ys.rjust(16)))
    out.append("")
    out.append("edges  ")
    for i in sorted(range(len(allE)), key=lambda i: eid[i]):
        r = rec_edges[i]
        line = "%3d     %d  %d" % (r["id"], r["v1"], r["v2"])
        if r["dens"] is not None:
            line += "      density %s " % r["dens"]
        line += r["trailer"]
        out.append(line)
    out.append("")
    out.append("faces    /* edge loop */      ")
    exp_cells = {}
    multi = neg = 0
    press_text = {}
    face_sign = {}
    for ci, loop in enumerate(C):
        loop = list(loop)
        if rng.random() < 0.5:                      # store the face in the other rotational sense
            loop = [(e, -d) for (e, d) in reversed(loop)]
            face_sign[ci] = -1
        else:
            face_sign[ci] = 1
        s = int(rng.integers(0, len(loop)))
        loop = loop[s:] + loop[:s]
        toks = []
        tails = []
        for (e, d) in loop:
            r = rec_edges[e]
            # recorded orientation relative to the geometric one
            a, b = allE[e][0], allE[e][1]
            same = (r["iv1"] == a)
            ref_positive = (d == 1) == same
            toks.append(str(r["id"] if ref_positive else -r["id"]))
            neg += 0 if ref_positive else 1
            tail_index = a if d == 1 else b
            tails.append(vid[tail_index])
        area = "%.6g" % float(rng.uniform(-600, 600))
        w = spec["wrap"]
        if w >= 1000:
            w = len(toks) + 5
        widths = []
        rest = len(toks)
        while rest > 0:
            k = max(1, int(w if rng.random() < 0.7 else rng.integers(1, w + 1)))
            k = min(k, rest)
            widths.append(k)
            rest -= k
        comment_alone = rng.random() < 0.3 and len(widths) >= 1
        pos = 0
        lines = []
        for li, k in enumerate(widths):
            chunk = " ".join(toks[pos:pos + k])
            pos += k
            prefix = ("%3d   " % fid_list[ci]) if li == 0 else "               "
            last = li == len(widths) - 1
            if last and not comment_alone:
                lines.append(prefix + chunk + " /*area %s*/" % area)
            else:
                lines.append(prefix + chunk + " \\")
        if comment_alone:
            lines.append("               /*area %s*/" % area)
        multi += 1 if len(lines) > 1 else 0
        out += lines
        pv = float(rng.choice([rng.uniform(0.01, 0.4), rng.uniform(-0.3, 0), rng.uniform(0, 1e-5), 0.0,
                               rng.uniform(1, 50)]))
        press_text[ci] = ("%.4f5" % pv) if spec["numstyle"] == "tie" else _fmt_num(pv, rng, spec["numstyle"])
        exp_cells[fid_list[ci]] = dict(cycle=tails, ptext=press_text[ci], nedges=len(toks), nlines=len(lines))
    out.append("")
    out.append("bodies  /* facets */")
    for ci in range(len(C)):
        vol = "%.6g" % float(rng.uniform(100, 600))
        out.append("%3d       %d  volume %s  /*actual: %s*/ lagrange_multiplier %s  centerofmass " % (
            fid_list[ci], face_sign[ci] * fid_list[ci], vol, vol, press_text[ci]))
    out.append("")
    text = _HEADER.format(name="generated", nv=len(allV), ne=len(allE), nf=len(C),
                          nfe=sum(len(c) for c in C)).replace("\n", nl)
    text += nl.join(out) + nl + _TAIL.replace("\n", nl)
    exp_vertices = {vid[i]: vtext[i] for i in range(nv_att)}
    exp_edges = {rec_edges[i]["id"]: rec_edges[i] for i in range(ne_att)}
    stats = dict(cells=len(C), multi_line_faces=multi, negative_refs=neg,
                 no_density=sum(1 for i in range(ne_att) if rec_edges[i]["dens"] is None),
                 min_face=min(len(c) for c in C), max_face=max(len(c) for c in C),
                 extra_vertices=len(extra_v), extra_edges=len(extra_e), chord=chord is not None)
    expectation = dict(vertices=exp_vertices, edges=exp_edges, cells=exp_cells,
                       chord_id=(rec_edges[len(allE) - 1]["id"] if chord is not None else None),
                       dropped_vertices=[vid[i] for i in range(nv_att, len(allV))],
                       dropped_edges=[rec_edges[i]["id"] for i in range(ne_att, len(allE))])
    return text, expectation, stats


def _b14_key(spec):
    return "B14/%s/n%d/s%d/i%d" % (spec["kind"], spec["n"], spec["seed"], spec["idx"])


def b14_case(spec):
    """run one generated dump through forsys; returns dict(order, stats, failures, sample)"""
    res = dict(order=spec["idx"], spec=spec, failures=[], stats=None, digest=None, evaluated=False)
    built = b14_build(spec)
    if built is None:
        return res
    text, exp, stats = built
    res["stats"] = stats
    res["digest"] = _digest(text)
    res["evaluated"] = True
    key = _b14_key(spec)

    def fail(name, detail, extra=None):
        res["failures"].append(dict(key=key + ":" + name, name=name,
                                    input=dict(spec=spec, stats=stats, record=extra), detail=str(detail)[:600]))

    import forsys.surface_evolver as fse
    import forsys.frames as ffr
    fd, path = tempfile.mkstemp(suffix=".dmp", prefix="fvc_b14_", dir=os.environ.get("FVC_B14_TMP") or None)
    try:
        with os.fdopen(fd, "w", newline="") as f:
            f.write(text)
        try:
            se = fse.SurfaceEvolver(path)
        except Exception:
            fail("parse raises", traceback.format_exc()[-500:])
            return res
        vs, es, cs = se.vertices, se.edges, se.cells
        # ---- vertices
        ev = exp["vertices"]
        if set(vs) != set(ev):
            missing = sorted(set(ev) - set(vs))[:5]
            surplus = sorted(set(vs) - set(ev))[:5]
            kept_drop = [k for k in surplus if k in exp["dropped_vertices"]]
            fail("vertex set (one per attached record; unattached dropped)",
                 "missing=%s surplus=%s (of which unattached records kept: %s)" % (missing, surplus, kept_drop))
        for k in sorted(set(vs) & set(ev)):
            v = vs[k]
            if getattr(v, "id", None) != k:
                fail("vertex id", "dict key %s holds vertex id %r" % (k, getattr(v, "id", None)))
                break
            if not (_is_rounded(v.x, ev[k][0], 3) and _is_rounded(v.y, ev[k][1], 3)):
                fail("vertex coordinates rounded to 3 decimals",
                     "vertex %d parsed (%r, %r), record (%s, %s)" % (k, v.x, v.y, ev[k][0], ev[k][1]),
                     dict(vertex=k, text=list(ev[k])))
                break
        # ---- edges
        ee = exp["edges"]
        surplus = set(es) - set(ee)
        missing = set(ee) - set(es)
        chord_kept = exp["chord_id"] is not None and exp["chord_id"] in surplus
        if chord_kept:
            surplus = surplus - {exp["chord_id"]}
            res["chord_kept"] = dict(spec=spec, edge=exp["chord_id"])
        if surplus or missing:
            fail("edge set (one per face edge record; unattached dropped)",
                 "missing=%s surplus=%s" % (sorted(missing)[:5], sorted(surplus)[:5]))
        # a dropped edge leaves no trace: every kept vertex lists exactly the kept edges ending at it (Frame splits
        # interfaces at vertices with more than two listed edges, so a stale entry changes what a frame reports)
        ends = {}
        for k, e in es.items():
            for v in (e.v1, e.v2):
                ends.setdefault(getattr(v, "id", None), set()).add(k)
        for k in sorted(vs):
            listed = sorted(vs[k].ownEdges)
            if listed != sorted(ends.get(k, set()) - ({exp["chord_id"]} if chord_kept else set())) and listed != sorted(ends.get(k, set())):
                fail("vertices list exactly the kept edges ending at them (dropped edges leave no trace)",
                     "vertex %d lists edges %s, the parsed edges ending at it are %s" % (k, listed[:8], sorted(ends.get(k, set()))[:8]))
                break
        for k in sorted(set(es) & set(ee)):
            e = es[k]
            r = ee[k]
            if (getattr(e.v1, "id", None), getattr(e.v2, "id", None)) != (r["v1"], r["v2"]):
                fail("edge joins the recorded vertices",
                     "edge %d parsed (%r,%r) record (%d,%d)" % (k, e.v1.id, e.v2.id, r["v1"], r["v2"]))
                break
            if e.v1 is not vs.get(r["v1"]) or e.v2 is not vs.get(r["v2"]):
                fail("edge joins the recorded vertices", "edge %d endpoints are not the lattice's vertex objects" % k)
                break
            ok = _is_rounded(e.gt, r["dens"], 4) if r["dens"] is not None else (float(e.gt) == 1.0)
            if not ok:
                fail("edge reference tension = density (4 decimals; 1 if absent)",
                     "edge %d gt=%r record density=%s" % (k, e.gt, r["dens"]), dict(edge=k, density=r["dens"]))
                break
        # ---- cells
        ec = exp["cells"]
        if set(cs) != set(ec):
            fail("cell set (one per face)", "missing=%s surplus=%s" % (sorted(set(ec) - set(cs))[:5],
                                                                       sorted(set(cs) - set(ec))[:5]))
        for k in sorted(set(cs) & set(ec)):
            c = cs[k]
            got = [getattr(v, "id", None) for v in c.vertices]
            if got != ec[k]["cycle"]:
                fail("cell vertex cycle follows the signed edge loop",
                     "face %d (%d edges on %d lines): parsed cycle %s..., expected tails %s..." % (
                         k, ec[k]["nedges"], ec[k]["nlines"], got[:8], ec[k]["cycle"][:8]),
                     dict(face=k, edges=ec[k]["nedges"], lines=ec[k]["nlines"]))
                break
            if any(v is not vs.get(v.id) for v in c.vertices):
                fail("cell vertex cycle follows the signed edge loop", "face %d uses foreign vertex objects" % k)
                break
            if not _is_rounded(c.gt_pressure, ec[k]["ptext"], 4):
                fail("cell reference pressure = Lagrange multiplier (4 decimals)",
                     "face %d gt_pressure=%r record %s" % (k, c.gt_pressure, ec[k]["ptext"]),
                     dict(face=k, multiplier=ec[k]["ptext"]))
                break
        # ---- frame: interface reference tension = mean density of its mesh edges
        if res["failures"] or chord_kept or len(cs) < 2:
            return res
        try:
            fr = ffr.Frame(0, vs, es, cs, gt=True)
            df = fr.get_gt_tensions(with_border=True)
        except Exception:
            res["frame_error"] = traceback.format_exc()[-400:]
            if len(cs) >= 3:
                fail("frame from parsed dump raises", res["frame_error"])
            return res
        pair = {}
        for k, r in ee.items():
            pair.setdefault(frozenset((r["v1"], r["v2"])), []).append(k)
        dens = {k: (_round_candidates(r["dens"], 4) if r["dens"] is not None else [1.0]) for k, r in ee.items()}
        rows = {}
        if len(fr.big_edges):
            rows = {int(i): float(g) for i, g in zip(df["id"], df["gt"])}
        varied = 0
        for bid, be in fr.big_edges.items():
            ids = [v.id for v in be.vertices]
            mine = []
            for a, b in zip(ids[:-1], ids[1:]):
                cand = pair.get(frozenset((a, b)), [])
                if len(cand) != 1:
                    fail("interface mesh edges", "interface %s: vertices %d,%d joined by %d recorded edges" % (
                        bid, a, b, len(cand)))
                    return res
                mine.append(cand[0])
            if list(be.edges) != mine:
                fail("interface mesh edges", "interface %s lists edges %s, polyline is made of %s" % (
                    bid, list(be.edges)[:8], mine[:8]))
                return res
            lo = sum(min(dens[k]) for k in mine) / len(mine)
            hi = sum(max(dens[k]) for k in mine) / len(mine)
            varied += 1 if len({dens[k][0] for k in mine}) > 1 else 0
            tol = 1e-9 * max(1.0, abs(hi))
            if not (lo - tol <= float(be.gt) <= hi + tol):
                fail("interface reference tension = mean density of its mesh edges",
                     "interface %s (%d mesh edges) gt=%r expected %r" % (bid, len(mine), be.gt, lo),
                     dict(interface=ids[:12], edges=mine[:12]))
                return res
            if bid not in rows or abs(rows[bid] - float(be.gt)) > tol:
                fail("get_gt_tensions reports the interface reference tension",
                     "interface %s table=%r object=%r" % (bid, rows.get(bid), be.gt))
                return res
        if len(rows) != len(fr.big_edges):
            fail("get_gt_tensions reports the interface reference tension",
                 "%d rows for %d interfaces" % (len(rows), len(fr.big_edges)))
        res["interfaces"] = len(fr.big_edges)
        res["interfaces_varied"] = varied
        del fr
    finally:
        try:
            os.remove(path)
        except OSError:
            pass
    return res


def _collapse(failures, max_per_name=4):
    """keep at most a few failing inputs per clause (the rest are counted in the first entry's detail)"""
    by = {}
    for f in failures:
        by.setdefault(f["name"], []).append(f)
    out = []
    for name, fs in by.items():
        fs[0]["detail"] += "  [%d failing inputs for this clause in this run]" % len(fs)
        out += fs[:max_per_name]
    return out


B14_N = dict(quick=1200, thorough=24000)
B14_BUDGET = dict(quick=21.0, thorough=400.0)


@bounded("B14", ["C14"], "Surface Evolver dumps from an independent serialiser are parsed faithfully",
         bound="generated tissues (Voronoi / Delaunay / single polygon; 1..~90 cells; faces of 3..60+ edges wrapped "
               "at 1..17 tokens per line or unwrapped; ids dense/gapped/far apart; +/- edge references; edges "
               "with/without density; 0..7 unattached vertices and edges; coordinates 1e-3..1e6); quick <= 1200 "
               "dumps, thorough <= 24000 dumps (time capped)")
def run_b14(tier, seed):
    specs = [b14_spec(seed, i) for i in range(B14_N[tier])]
    scratch = tempfile.mkdtemp(prefix="fvc_b14_")      # workers killed at the time cap leave their dump here
    os.environ["FVC_B14_TMP"] = scratch
    try:
        results = _run_pool(b14_case, specs, B14_BUDGET[tier])
    finally:
        os.environ.pop("FVC_B14_TMP", None)
        shutil.rmtree(scratch, ignore_errors=True)
    failures, samples = [], []
    digests = set()
    agg = dict(cells=0, multi=0, neg=0, nodens=0, minf=10 ** 9, maxf=0, interfaces=0, varied=0, extras=0)
    chord = []
    evaluations = 0
    for r in results:
        if not r["evaluated"]:
            continue
        evaluations += 1
        failures += r["failures"]
        st = r["stats"]
        if r.get("chord_kept"):
            chord.append(r["chord_kept"])
        nontrivial = st["cells"] >= 1 and (st["multi_line_faces"] > 0 or st["negative_refs"] > 0)
        if nontrivial:
            digests.add(r["digest"])
        agg["cells"] += st["cells"]
        agg["multi"] += st["multi_line_faces"]
        agg["neg"] += st["negative_refs"]
        agg["nodens"] += st["no_density"]
        agg["minf"] = min(agg["minf"], st["min_face"])
        agg["maxf"] = max(agg["maxf"], st["max_face"])
        agg["extras"] += st["extra_vertices"] + st["extra_edges"]
        agg["interfaces"] += r.get("interfaces", 0)
        agg["varied"] += r.get("interfaces_varied", 0)
        if len(samples) < 4:
            samples.append(dict(spec=r["spec"], stats=st, interfaces=r.get("interfaces")))
    if evaluations == 0:
        raise RuntimeError("B14: no case was evaluated (worker pool failed?)")
    failures = _collapse(failures)
    if chord:
        failures.append(dict(key="unattached-chord-edge-kept", name="edges that belong to no face are dropped",
                             input=dict(spec=chord[0]["spec"], edge=chord[0]["edge"]),
                             detail="an edge record joining two face vertices but referenced by no face stays in "
                                    ".edges (edge id %s); seen in %d generated dumps of this run" % (
                                        chord[0]["edge"], len(chord))))
    return dict(evaluations=evaluations, distinct_nontrivial=len(digests),
                rule="one evaluation = one generated dump parsed by SurfaceEvolver and compared record by record "
                     "(+ Frame(gt=True) interface means when >= 2 cells); non-trivial = at least one face wrapped "
                     "over several lines or one negative edge reference; distinct = distinct dump text. "
                     "totals: %s" % agg,
                samples=samples, failures=failures)


# ----------------------------------------------------------------------------------------------
# B19: tessellation lattices vs an independent reading of scipy.spatial.Voronoi
# ----------------------------------------------------------------------------------------------

def b19_spec(seed, idx, tier="quick"):
    r = _rng([seed, idx, 19])
    kinds = ["random", "jitter_sq", "jitter_hex", "square", "hex"]
    kind = kinds[idx % len(kinds)]
    big = 300 if tier == "thorough" else 150
    if kind == "random":
        n = int(r.choice([6, 9, 15, 30, 60, 110, big]))
        shape = [n, 0]
    else:
        nx = int(r.integers(2, 18 if tier == "thorough" else 13))
        ny = int(r.integers(3, 18 if tier == "thorough" else 13))
        while nx * ny < 6 or nx * ny > big:
            nx = int(r.integers(2, 18))
            ny = int(r.integers(3, 18))
        shape = [nx, ny]
    return dict(check="B19", seed=int(seed), idx=int(idx), kind=kind, shape=shape,
                spacing=float(r.choice([1.0, 2.0, 0.5, 10.0, 7.3, 0.137])),
                origin=[float(r.choice([0.0, 0.0, -3.0, 100.25, 0.1234567])), float(r.choice([0.0, 5.0, -0.71]))],
                jitter=float(r.choice([1e-7, 1e-4, 1e-2, 0.1, 0.3])),
                helper=bool(r.random() < 0.5),
                md=str(r.choice(["inf", "inf", "q0.2", "q0.5", "q0.8", "q0.95", "default"])))


def b19_centres(spec):
    r = _rng([spec["seed"], spec["idx"], 1919])
    a = spec["spacing"]
    ox, oy = spec["origin"]
    kind = spec["kind"]
    if kind == "random":
        n = spec["shape"][0]
        L = a * math.sqrt(n) * 3
        P = r.uniform(0, L, size=(n, 2)) + np.array([ox, oy])
        return [(float(x), float(y)) for x, y in P]
    nx, ny = spec["shape"]
    pts = []
    for i in range(nx):
        for j in range(ny):
            if kind in ("square", "jitter_sq"):
                x, y = ox + a * i, oy + a * j
            else:
                x, y = ox + a * (i + 0.5 * (j % 2)), oy + a * j * math.sqrt(3) / 2
            if kind.startswith("jitter"):
                x += a * spec["jitter"] * r.uniform(-1, 1)
                y += a * spec["jitter"] * r.uniform(-1, 1)
            pts.append((float(x), float(y)))
    return pts


def _canon_cycle(seq):
    """canonical form of a cyclic sequence, either direction"""
    n = len(seq)
    best = None
    for s in (seq, seq[::-1]):
        m = min(s)
        for i in range(n):
            if s[i] == m:
                c = tuple(s[i:] + s[:i])
                if best is None or c < best:
                    best = c
    return best


def _dedupe_cyclic(seq):
    out = []
    for p in seq:
        if not out or out[-1] != p:
            out.append(p)
    while len(out) > 1 and out[0] == out[-1]:
        out.pop()
    return out


def _b19_key(spec):
    return "B19/%s/%dx%d/a%g/o%g,%g/j%g/%s/md=%s/s%d/i%d" % (
        spec["kind"], spec["shape"][0], spec["shape"][1], spec["spacing"], spec["origin"][0], spec["origin"][1],
        spec["jitter"] if spec["kind"].startswith("jitter") else 0, "helper" if spec["helper"] else "plain",
        spec["md"], spec["seed"], spec["idx"])


def b19_case(spec):
    res = dict(order=spec["idx"], spec=spec, failures=[], evaluated=False, digest=None, stats=None)
    import forsys.tessellation as ft
    key = _b19_key(spec)

    def fail(name, detail, extra=None):
        res["failures"].append(dict(key=key + ":" + name, name=name, input=dict(spec=spec, extra=extra),
                                    detail=str(detail)[:700]))

    centres = b19_centres(spec)
    if len({c for c in centres}) != len(centres):
        return res
    if spec["helper"]:       # note: the ring repeats its four corner points; Qhull ignores the duplicates
        try:
            centres = centres + [(float(x), float(y)) for x, y in ft.add_voronoi_centers(centres)]
        except Exception:
            fail("add_voronoi_centers raises", traceback.format_exc()[-400:])
            return res
    # ---- independent reading of the Voronoi diagram
    with np.errstate(all="ignore"):
        vor = Voronoi(centres)
        regs = []
        for reg in vor.regions:
            if len(reg) == 0 or -1 in reg:
                continue
            P = vor.vertices[reg]
            d = P[:, None, :] - P[None, :, :]
            diam = float(np.sqrt((d ** 2).sum(-1)).max())
            regs.append((reg, P, diam))
    if not regs:
        return res
    diams = sorted(x[2] for x in regs)
    if spec["md"] == "inf":
        md = float("inf")
    elif spec["md"] == "default":
        md = 75.0
    else:
        q = float(spec["md"][1:])
        i = min(len(diams) - 1, max(0, int(q * len(diams))))
        # a cut-off strictly between two distinct diameters
        j = i
        while j + 1 < len(diams) and diams[j + 1] - diams[i] < 1e-6 * max(1.0, diams[i]):
            j += 1
        md = diams[i] * 1.0005 if j + 1 >= len(diams) else 0.5 * (diams[j] + diams[j + 1])
    if any(abs(x - md) < 1e-7 * max(1.0, x) for x in diams):
        return res
    spec_md = md
    expected = []
    ambiguous = False
    for reg, P, diam in regs:
        if diam > md:
            continue
        K = P * 1000.0
        if np.abs(P).max() > 1e8:
            ambiguous = True            # three decimals are at the limit of double precision out there
        if np.any(np.abs(np.abs(K - np.floor(K)) - 0.5) < 1e-5 + 8 * np.finfo(float).eps * np.abs(K)):
            ambiguous = True            # a corner sits on a rounding tie: either neighbour would be "rounded"
        pts = [(int(round(p[0])), int(round(p[1]))) for p in np.rint(K)]
        cyc = _dedupe_cyclic(pts)
        expected.append(cyc)
    if ambiguous:
        return res
    res["evaluated"] = True
    res["digest"] = _digest((centres, md))
    merged = sum(1 for (reg, P, diam), cyc in zip([x for x in regs if x[2] <= md], expected) if len(cyc) < len(reg))
    res["stats"] = dict(centres=len(centres), bounded_regions=len(regs), expected_cells=len(expected),
                        max_distance=(md if math.isfinite(md) else "inf"), regions_with_coincident_corners=merged)
    extra = dict(max_distance=(md if math.isfinite(md) else "inf"), n_centres=len(centres),
                 centres=[list(c) for c in centres] if len(centres) <= 40 else None)
    degenerate = [c for c in expected if len(c) < 3 or len(set(c)) != len(c)]
    if degenerate:
        res["evaluated"] = False       # region collapses under rounding: no cycle to compare against
        return res
    # ---- forsys
    try:
        kw = {} if spec["md"] == "default" else dict(max_distance=spec_md)
        if regs:                # a sweep of the cut-off over the same centres, tight first: the measured call must not see the earlier one
            try:
                ft.create_lattice_elements(centres, max_distance=float(sorted(x[2] for x in regs)[len(regs) // 2]))
            except Exception:      # noqa
                pass
        el = ft.create_lattice_elements(centres, **kw)
        vs, es, cs = ft.create_lattice(*el)
    except Exception:
        tb = traceback.format_exc()
        res["raised"] = tb[-300:]
        if merged and "with the same vertex twice" in tb:
            fail(COINCIDENT, "%d region(s) have consecutive corners that round to the same point; %s" % (
                merged, tb.strip().splitlines()[-1]), extra)
        else:
            fail("lattice construction raises", tb[-500:], extra)
        return res

    def pt(v):
        return (int(round(float(v.x) * 1000)), int(round(float(v.y) * 1000)))

    with np.errstate(all="ignore"):
        # cells <-> regions
        got = []
        for c in cs.values():
            got.append(_canon_cycle([pt(v) for v in c.vertices]))
        want = [_canon_cycle(c) for c in expected]
        if len(cs) != len(expected):
            fail("one cell per bounded region below the cut-off",
                 "%d cells, %d bounded regions with diameter <= %r" % (len(cs), len(expected), md), extra)
        elif sorted(got) != sorted(want):
            miss = [c for c in want if c not in got][:2]
            fail("cell cycle = region corners rounded to 3 decimals",
                 "regions without a matching cell (milli-units): %s" % (miss,), extra)
        for c in cs.values():
            for v in c.vertices:
                if any(abs(q * 1000 - round(q * 1000)) > 1e-6 + 1e-14 * abs(q * 1000) for q in (float(v.x), float(v.y))):
                    fail("cell cycle = region corners rounded to 3 decimals",
                         "vertex %s at (%r,%r) is not rounded" % (v.id, v.x, v.y), extra)
                    break
            else:
                continue
            break
        # shared ridges: unique vertices and unique edges
        seen = {}
        for v in vs.values():
            if pt(v) in seen:
                fail("neighbouring regions share the vertices of their common ridge",
                     "vertices %s and %s both at %s" % (seen[pt(v)], v.id, (v.x, v.y)), extra)
                break
            seen[pt(v)] = v.id
        pairs = {}
        for e in es.values():
            k = frozenset((id(e.v1), id(e.v2)))
            if k in pairs:
                fail("neighbouring regions share the mesh edges of their common ridge",
                     "edges %s and %s join the same vertices" % (pairs[k], e.id), extra)
                break
            pairs[k] = e.id
        # every common ridge of two kept regions is one mesh edge owned by both cells
        by_cycle = {}
        for c in cs.values():
            by_cycle.setdefault(_canon_cycle([pt(v) for v in c.vertices]), c)
        ridge_owner = {}
        for cyc in expected:
            for a, b in zip(cyc, cyc[1:] + cyc[:1]):
                ridge_owner.setdefault(frozenset((a, b)), []).append(_canon_cycle(cyc))
        shared = 0
        vid_at = {pt(v): v for v in vs.values()}
        for rk, owners in ridge_owner.items():
            if len(owners) != 2:
                continue
            shared += 1
            a, b = tuple(rk)
            va, vb = vid_at.get(a), vid_at.get(b)
            if va is None or vb is None:
                continue
            c1, c2 = by_cycle.get(owners[0]), by_cycle.get(owners[1])
            if c1 is None or c2 is None:
                continue
            if frozenset((id(va), id(vb))) not in pairs:
                fail("neighbouring regions share the mesh edges of their common ridge",
                     "no mesh edge between %s and %s" % (a, b), extra)
                break
            if not all(any(x is v for x in c.vertices) for c in (c1, c2) for v in (va, vb)):
                fail("neighbouring regions share the vertices of their common ridge",
                     "ridge %s-%s not in both cells" % (a, b), extra)
                break
        res["stats"]["shared_ridges"] = shared
        # rotational sense
        signs = set()
        for c in cs.values():
            signs.add(float(np.sign(c.get_area())))
        if len(signs) > 1 or 0.0 in signs:
            fail("all cells stored in the same rotational sense", "signs of Cell.get_area(): %s" % sorted(signs),
                 extra)
        # mesh consistency
        ends = {}
        for e in es.values():
            for v in (e.v1, e.v2):
                ends.setdefault(id(v), set()).add(e.id)
        incells = {}
        for c in cs.values():
            ids = [id(v) for v in c.vertices]
            if len(set(ids)) != len(ids):
                fail("mesh is consistent: no cell repeats a vertex", "cell %s cycle %s" % (
                    c.id, [v.id for v in c.vertices]), extra)
                break
            for v in c.vertices:
                incells.setdefault(id(v), set()).add(c.id)
            n = len(c.vertices)
            bad = [(c.vertices[i].id, c.vertices[(i + 1) % n].id) for i in range(n)
                   if frozenset((id(c.vertices[i]), id(c.vertices[(i + 1) % n]))) not in pairs]
            if bad:
                fail("mesh is consistent: consecutive cycle vertices are joined by a mesh edge",
                     "cell %s: no edge for %s" % (c.id, bad[:3]), extra)
                break
        for v in vs.values():
            oe, oc = list(v.ownEdges), list(v.ownCells)
            if len(set(oe)) != len(oe) or set(oe) != ends.get(id(v), set()):
                fail("mesh is consistent: ownEdges = edges ending at the vertex",
                     "vertex %s ownEdges=%s, edges ending there=%s" % (v.id, oe, sorted(ends.get(id(v), set()))),
                     extra)
                break
            if len(set(oc)) != len(oc) or set(oc) != incells.get(id(v), set()):
                fail("mesh is consistent: ownCells = cells containing the vertex",
                     "vertex %s ownCells=%s, cells containing it=%s" % (v.id, oc, sorted(incells.get(id(v), set()))),
                     extra)
                break
    return res


COINCIDENT = "lattice construction raises: region corners coincide after rounding"
B19_N = dict(quick=900, thorough=12000)
B19_BUDGET = dict(quick=21.0, thorough=400.0)


def _aggregate_known(failures, name, key, what):
    """fold all failures of one clause into a single entry with a fixed key (for adjudication)"""
    hit = [f for f in failures if f["name"] == name]
    if not hit:
        return failures
    rest = [f for f in failures if f["name"] != name]
    hit.sort(key=lambda f: (f["input"].get("extra") or {}).get("n_centres", 10 ** 9))
    first = hit[0]
    rest.append(dict(key=key, name=name, input=first["input"],
                     detail="%s; %d failing inputs in this run, e.g. %s | first: %s" % (
                         what, len(hit), [f["key"].split(":")[0] for f in hit[:4]], first["detail"][-300:])))
    return rest


@bounded("B19", ["C19"], "Tessellation lattices match an independent reading of the Voronoi diagram",
         bound="centre sets of 6..300 points (quick <= 150): uniform random, jittered square/hexagonal lattices "
               "(jitter 1e-7..0.3 spacings), exact square and exact hexagonal lattices (spacing 0.137..10, several "
               "origins), with/without add_voronoi_centers ring, max_distance in {inf, default 75, cut between the "
               "20/50/80/95% quantiles of region diameters}; quick <= 900 cases, thorough <= 12000 (time capped)")
def run_b19(tier, seed):
    specs = [b19_spec(seed, i, tier) for i in range(B19_N[tier])]
    # big cases first so that the time cap cuts small ones
    results = _run_pool(b19_case, specs, B19_BUDGET[tier])
    failures, samples, digests = [], [], set()
    agg = dict(cells=0, shared_ridges=0, coincident=0, raised=0, by_kind={})
    evaluations = 0
    for r in results:
        failures += r["failures"]
        if not r["evaluated"]:
            continue
        evaluations += 1
        st = r["stats"]
        if st["expected_cells"] >= 1:
            digests.add(r["digest"])
        agg["cells"] += st["expected_cells"]
        agg["shared_ridges"] += st.get("shared_ridges", 0)
        agg["coincident"] += st["regions_with_coincident_corners"]
        agg["raised"] += 1 if r.get("raised") else 0
        agg["by_kind"][r["spec"]["kind"]] = agg["by_kind"].get(r["spec"]["kind"], 0) + 1
        if len(samples) < 5:
            samples.append(dict(spec=r["spec"], stats=st))
    if evaluations == 0 and not failures:
        raise RuntimeError("B19: no case was evaluated (worker pool failed?)")
    kinds = {}
    for f in failures:
        if f["name"] == COINCIDENT:
            k = f["input"]["spec"]["kind"] + ("+helper" if f["input"]["spec"]["helper"] else "")
            kinds[k] = kinds.get(k, 0) + 1
    failures = _aggregate_known(failures, COINCIDENT, "coincident-corners-assertion",
                                "create_lattice raises AssertionError (SmallEdge with the same vertex twice) when two "
                                "consecutive Voronoi corners of a region round to the same 3-decimal point; by kind: %s"
                                % kinds)
    failures = _collapse(failures)
    return dict(evaluations=evaluations, distinct_nontrivial=len(digests),
                rule="one evaluation = one centre set + cut-off run through create_lattice_elements/create_lattice "
                     "and compared with scipy.spatial.Voronoi regions (cycles as cyclic sequences of distinct "
                     "milli-unit points, either direction); non-trivial = at least one bounded region below the "
                     "cut-off; distinct = distinct (centres, cut-off). cases with a corner on a rounding tie, a corner beyond 1e8 or a "
                     "diameter within 1e-7 of the cut-off are skipped. totals: %s" % agg,
                samples=samples, failures=failures)


# ----------------------------------------------------------------------------------------------

def replay(failure):
    """True = the recorded failing input passes now"""
    inp = failure.get("input") or {}
    spec = inp.get("spec")
    if not spec:
        return False
    if spec.get("check") == "B14":
        r = b14_case(spec)
        if failure.get("key") == "unattached-chord-edge-kept":
            return not r.get("chord_kept")
    else:
        r = b19_case(spec)
    name = failure.get("name")
    return not any(f["name"] == name for f in r["failures"]) if name else not r["failures"]
