"""Bounded stand-ins for the static inference properties:
B02 (C02, C01) assembled force-balance system vs closed-form tangents
B01 (C01)      recovery of the tensions of equilibrium tissues
B05 (C05)      per-instance optimality certificate of the reported tensions
B16 (C16)      angle-limit exclusion

Every case is a small JSON-able `spec`; `_run_case(spec)` regenerates the input from the spec, runs the REAL forsys code
and compares with expectations computed here from the analytic ground truth of bounded/gen.py.  `replay` re-runs the spec
stored in a failure.  FVC_REPO selects a scratch copy of forsys.

Protocol: before every call into forsys the numpy error state is reset to the numpy default (ForceMatrix.solve leaves
np.seterr(all='raise') behind, which would make the outcome of a case depend on what ran before it in the same process).

Known defects of the tree are classified with the exact keys KF-C02-sign-forcing / KF-C05-fix-stress (and
KF-C06-multiplier-pose in b_invariance); every other failure is keyed `<check>:<clause>[:<class>[:<configuration>]]`.
"""
import contextlib
import hashlib
import io
import itertools
import json
import math
import multiprocessing as mp
import os
import sys
import time
import traceback
import warnings
from collections import Counter, defaultdict

if os.environ.get("FVC_REPO"):
    sys.path.insert(0, os.environ["FVC_REPO"])

import numpy as np
import scipy.optimize as _sco

from fvc.registry import bounded
from bounded import gen

NPROC = 16
KF_SIGN = "KF-C02-sign-forcing"
KF_FIX = "KF-C05-fix-stress"
KF_MULT = "KF-C06-multiplier-pose"

TOL_TWO = 1e-12          # two-point interfaces: the tangent is the segment
TOL_ARC = 1e-5           # exact arcs, >= 3 points, turning >= FLAT_TURN
TOL_FLAT = 3e-3          # >= 3 points on a straight line or on an arc turning by < FLAT_TURN: circle fit ill-posed
FLAT_TURN = 1e-2
SF_EPS = 1e-9            # a tangent component below this is not subject to the sign-forcing predicate


def _fs():
    return gen.forsys_modules()


def _np_default():
    # `import forsys` sets np.seterr(all='raise') (forsys/__init__.py) and ForceMatrix.solve / solve_system set it again:
    # that is the error state every user of the package runs in, and the taubinSVD -> dlite fallback of
    # calculate_circle_center (except FloatingPointError) relies on it.  Every case starts from exactly that state.
    np.seterr(all="raise")


# ======================================================================================================
# tissues from specs
# ======================================================================================================
def _polys_to_tissue(polys, coord, meta):
    """polys: list of integer-coordinate polygons (counter-clockwise); coord: (a, b) -> (x, y).  Vertices are shared by
    integer key; corners of other polygons lying strictly inside a side are inserted into that side (T-junctions)."""
    allpts = sorted({p for poly in polys for p in poly})
    full = []
    for poly in polys:
        cyc = []
        n = len(poly)
        for i in range(n):
            a, b = poly[i], poly[(i + 1) % n]
            mids = []
            for p in allpts:
                if p == a or p == b:
                    continue
                cr = (b[0] - a[0]) * (p[1] - a[1]) - (b[1] - a[1]) * (p[0] - a[0])
                if cr != 0:
                    continue
                dt = (p[0] - a[0]) * (b[0] - a[0]) + (p[1] - a[1]) * (b[1] - a[1])
                if 0 < dt < (b[0] - a[0]) ** 2 + (b[1] - a[1]) ** 2:
                    mids.append((dt, p))
            cyc.append(a)
            cyc.extend(p for _, p in sorted(mids))
        full.append(cyc)
    vid, vertices, edges, cells = {}, {}, {}, {}
    ekey = {}
    for c, cyc in enumerate(full):
        ids = []
        for p in cyc:
            if p not in vid:
                vid[p] = len(vid)
                vertices[vid[p]] = coord(*p)
            ids.append(vid[p])
        cells[c] = ids
        for u, w in zip(ids, ids[1:] + ids[:1]):
            k = frozenset((u, w))
            if k not in ekey:
                ekey[k] = len(edges)
                edges[ekey[k]] = (u, w)
    return gen.Tissue(vertices, edges, cells, meta=meta)


def lattice(kind, nx, ny, scale=10.0):
    """axis-aligned lattices with exactly vanishing tangent components: 'square' (4-fold junctions), 'brick' (running
    bond: T-junctions, two antiparallel interfaces and a perpendicular one), 'hex' (pointy-top hexagons, vertical
    interfaces).  Straight interfaces, unit tensions (hex and square are in force balance, brick is not)."""
    polys = []
    if kind == "square":
        for j in range(ny):
            for i in range(nx):
                polys.append([(i, j), (i + 1, j), (i + 1, j + 1), (i, j + 1)])
        coord = lambda a, b: (a * scale, b * scale)                     # noqa
    elif kind == "brick":
        for j in range(ny):
            o = j % 2
            for i in range(nx):
                polys.append([(2 * i + o, j), (2 * i + 2 + o, j), (2 * i + 2 + o, j + 1), (2 * i + o, j + 1)])
        coord = lambda a, b: (a * scale * 0.5, b * scale * 0.6)         # noqa
    elif kind == "hex":
        hx, hy = scale * math.sqrt(3) / 2, scale / 2
        for j in range(ny):
            for i in range(nx):
                ca, cb = 2 * i + (j % 2), 3 * j
                polys.append([(ca + 1, cb - 1), (ca + 1, cb + 1), (ca, cb + 2), (ca - 1, cb + 1), (ca - 1, cb - 1),
                              (ca, cb - 2)])
        coord = lambda a, b: (a * hx, b * hy)                           # noqa
    else:
        raise ValueError(kind)
    return _polys_to_tissue(polys, coord, dict(gen="lattice", kind="lattice", lattice=kind, nx=nx, ny=ny))


def reorder_cells(t, order):
    """same tissue with the cells dict (= construction order) permuted; order: 'reverse' or an int seed"""
    ids = list(t.cells)
    if order == "reverse":
        ids = ids[::-1]
    else:
        ids = [ids[i] for i in np.random.default_rng(int(order)).permutation(len(ids))]
    out = t.copy()
    out.cells = {c: list(t.cells[c]) for c in ids}
    out.cell_orient = {c: t.cell_orient[c] for c in ids}
    out._derived = None
    return out


def add_noise(t, sigma, seed):
    """perturb every vertex by an isotropic Gaussian of standard deviation sigma x (median mesh-edge length).
    The analytic ground truth (centres, tensions as equilibrium values, pressures) no longer applies."""
    rng = np.random.default_rng(seed)
    L = np.median([math.hypot(t.vertices[a][0] - t.vertices[b][0], t.vertices[a][1] - t.vertices[b][1])
                   for a, b in t.edges.values()])
    out = t.copy()
    out.vertices = {v: (p[0] + sigma * L * float(d[0]), p[1] + sigma * L * float(d[1]))
                    for (v, p), d in zip(t.vertices.items(), rng.standard_normal((len(t.vertices), 2)))}
    out.edge_center = {e: None for e in t.edges}
    out.edge_turn = {e: 0 for e in t.edges}
    out.meta = dict(t.meta, noisy=True, noise=dict(sigma=sigma, seed=seed))
    out._derived = None
    return out


def tissue_size(t):
    arr = np.array(list(t.vertices.values()))
    return float(np.hypot(*(arr.max(0) - arr.min(0))))


def _resolve_xf(t, x):
    """xf spec -> kwargs of gen.transform.  angle | align={iface,end,axis,delta} (rotation that puts the analytic tangent of
    interface #iface (mod count) at its end #end at `delta` radians from coordinate axis #axis (0:+x 1:+y 2:-x 3:-y));
    shift (absolute) | shift_rel (in tissue sizes); scale; reflect"""
    angle = float(x.get("angle", 0.0))
    if x.get("align") is not None and t.interfaces:
        a = x["align"]
        itf = t.interfaces[int(a["iface"]) % len(t.interfaces)]
        ends = list(itf["tangent_at"])
        j = ends[int(a["end"]) % len(ends)]
        tx, ty = itf["tangent_at"][j]
        if x.get("reflect"):
            ty = -ty
        angle = int(a["axis"]) * math.pi / 2 + float(a["delta"]) - math.atan2(ty, tx)
    shift = x.get("shift")
    if shift is None:
        sr = x.get("shift_rel", (0.0, 0.0))
        s = tissue_size(t) * float(x.get("scale", 1.0))
        shift = (sr[0] * s, sr[1] * s)
    return dict(angle=angle, shift=(float(shift[0]), float(shift[1])), scale=float(x.get("scale", 1.0)),
                reflect=bool(x.get("reflect", False)))


def make_tissue(ts):
    """ts: dict(base, seed, [n | kind,nx,ny], [pts], [subset], [moebius, mseed], [resample], [noise={sigma,seed}], [xf],
    [shift], [flip], [cellorder], [renum, gaps]) applied in this order."""
    base = ts["base"]
    pts = int(ts.get("pts", 0) or 0)
    if base == "voronoi":
        t = gen.voronoi_tissue(ts["n"], ts["seed"], pts=0)
        if ts.get("subset") is not None:
            t = gen.subtissue(t, ts["subset"])
        if pts:
            t = gen.resample(t, pts)
    elif base == "lattice":
        t = lattice(ts["kind"], ts["nx"], ts["ny"])
        if ts.get("subset") is not None:
            t = gen.subtissue(t, ts["subset"])
        if pts:
            t = gen.resample(t, pts)
    else:
        t = gen.strip(ts.get("n", 6), ts["seed"], pts=pts) if base == "strip" else gen.BASE_TISSUES[base](ts["seed"], pts=pts)
        if ts.get("subset") is not None:
            t = gen.subtissue(t, ts["subset"])
    if ts.get("moebius") is not None:
        t = gen.moebius_image(t, strength=ts["moebius"], seed=ts.get("mseed", 0))
    if ts.get("resample") is not None:
        t = gen.resample(t, ts["resample"])
    if ts.get("noise") is not None:
        t = add_noise(t, ts["noise"]["sigma"], ts["noise"]["seed"])
    if ts.get("xf") is not None:
        t = gen.transform(t, **_resolve_xf(t, ts["xf"]))
    if ts.get("shift") is not None:
        t = gen.shift_cycles(t, ts["shift"])
    if ts.get("flip"):
        t = gen.flip_cells(t, [c for c in ts["flip"] if c in t.cells])
    if ts.get("cellorder") is not None:
        t = reorder_cells(t, ts["cellorder"])
    if ts.get("renum") is not None:
        t = gen.renumber(t, ts["renum"], gaps=ts.get("gaps", True))
    return t


def tissue_hash(t):
    s = repr((sorted((c, tuple(v)) for c, v in t.cells.items()),
              sorted((v, float("%.9g" % p[0]), float("%.9g" % p[1])) for v, p in t.vertices.items())))
    return hashlib.sha1(s.encode()).hexdigest()[:12]


# ======================================================================================================
# ground truth helpers
# ======================================================================================================
def canon(path):
    p = tuple(int(x) for x in path)
    r = p[::-1]
    return p if p <= r else r


def vertex_cells(t):
    m = defaultdict(set)
    for c, cyc in t.cells.items():
        for v in cyc:
            m[v].add(c)
    return m


def arc_turning(t, itf):
    """total turning angle (rad) of a ground-truth arc interface, 0 for straight"""
    c = itf["center"]
    if itf["kind"] != "arc" or c is None:
        return 0.0
    tot = 0.0
    P = [t.vertices[v] for v in itf["path"]]
    for a, b in zip(P, P[1:]):
        ax, ay, bx, by = a[0] - c[0], a[1] - c[1], b[0] - c[0], b[1] - c[1]
        tot += abs(math.atan2(ax * by - ay * bx, ax * bx + ay * by))
    return tot


class Truth:
    """analytic description of a tissue: internal interfaces, mandatory / forbidden junctions, tangents"""

    def __init__(self, t):
        self.t = t
        self.vc = vertex_cells(t)
        self.by_ends = defaultdict(list)
        self.internal = []
        for itf in t.interfaces:
            p = itf["path"]
            self.by_ends[frozenset((p[0], p[-1]))].append(itf)
            n = [len(self.vc.get(v, ())) for v in p]
            if all(k >= 2 for k in n) and (n[0] >= 3 or n[-1] >= 3) and p[0] != p[-1]:
                self.internal.append(itf)
        self.n_int_at = Counter()
        for itf in self.internal:
            self.n_int_at[itf["path"][0]] += 1
            self.n_int_at[itf["path"][-1]] += 1

    def find(self, ids):
        """ground-truth interface whose path contains the vertex list `ids` (same ends)"""
        s = set(ids)
        cand = [i for i in self.by_ends.get(frozenset((ids[0], ids[-1])), []) if s <= set(i["path"])]
        return cand[0] if len(cand) == 1 else None

    def junction_rule(self, j, ignore_four):
        """'must' | 'may' | 'no' : does the statement demand / allow / forbid an equation pair for vertex j"""
        nc, ni = len(self.vc.get(j, ())), self.n_int_at.get(j, 0)
        if nc < 3 or ni < 3:
            return "no"
        if ignore_four:
            if ni >= 4:
                return "no"
            return "must" if nc == 3 else "may"          # 3 internal interfaces but >= 4 cells: not decided by the statement
        return "must"

    def iface_class(self, itf, n):
        if n == 2:
            return "two-point"
        if itf["kind"] == "arc" and arc_turning(self.t, itf) >= FLAT_TURN:
            return "arc"
        if itf["kind"] in ("arc", "straight"):
            return "flat"
        return "mixed"

    def tangent(self, itf, ids, j):
        """expected coefficient pair of the interface seen by forsys as vertex list `ids` at its end j"""
        if len(ids) == 2:
            o = ids[1] if ids[0] == j else ids[0]
            P, Q = self.t.vertices[j], self.t.vertices[o]
            d = (Q[0] - P[0], Q[1] - P[1])
            n = math.hypot(*d)
            return (d[0] / n, d[1] / n)
        return itf["tangent_at"][j]


def first_chord(pos, ids, j):
    o = ids[1] if ids[0] == j else ids[-2]
    return (pos[o][0] - pos[j][0], pos[o][1] - pos[j][1])


def sf_predicate(d, tg):
    """KF-C02-sign-forcing predicate: the component signs of the tangent tg agree with those of the first chord d
    (0 counts as +) in one component and disagree in the other.  Returns the index of the disagreeing component or None"""
    dis = []
    for i in (0, 1):
        s = 1.0 if d[i] >= 0 else -1.0
        if abs(tg[i]) > SF_EPS and (1.0 if tg[i] > 0 else -1.0) != s:
            dis.append(i)
    return dis[0] if len(dis) == 1 else None


# ======================================================================================================
# driving forsys
# ======================================================================================================
class Run:
    """one inference; plain-data views of the result"""

    def __init__(self, t, fit="dlite", method=None, ign=False, angle=None, mesh_ne=None, solve=True,
                 allow_negatives=False, pressures=False, extra=None, move=None):
        fs = _fs()
        _np_default()
        if move is not None:
            # the tissue is handed over displaced by -move and its vertices are then moved in place by +move, the way
            # TimeSeries does for ForSys(frames, cm=True): everything read later must come from the live positions
            # `move` is in tissue sizes: an absolute displacement would cost digits on a tissue given in a small unit
            # ((x - d) + d != x in floating point) and show up as an error of the harness, not of forsys
            size = tissue_size(t)
            mx, my = float(move[0]) * size, float(move[1]) * size
            self.frame = gen.to_frame(gen.transform(t, shift=(-mx, -my)))
            for v in self.frame.vertices.values():
                v.x += mx
                v.y += my
        elif mesh_ne:
            v, e, c = gen.build(t)
            v, e, c, _ = fs.virtual_edges.generate_mesh(v, e, c, ne=int(mesh_ne))
            self.frame = fs.frames.Frame(0, v, e, c, time=0.0)
        else:
            self.frame = gen.to_frame(t)
        self.F = fs.ForSys({0: self.frame}, cm=False)
        kw = dict(circle_fit_method=fit)
        if angle is not None:
            kw["angle_limit"] = angle
        _np_default()
        self.F.build_force_matrix(when=0, metadata={"ignore_four": bool(ign)}, **kw)
        self.fm = self.F.force_matrices[0]
        self.M = np.array(self.fm.matrix, dtype=float)
        self.cols = [[int(x) for x in p] for p in self.fm.big_edges_to_use]
        self.rows = {int(k): int(r) for k, r in self.fm.map_vid_to_row.items()}
        self.ibe = [[int(x) for x in b.get_vertices_ids()] for b in self.frame.internal_big_edges]
        self.pos = {int(k): (float(v.x), float(v.y)) for k, v in self.frame.vertices.items()}
        self.forces = None
        self.pressures = None
        if solve:
            _np_default()
            kws = dict(allow_negatives=allow_negatives)
            if method is not None:
                kws["method"] = method
            kws.update(extra or {})
            self.F.solve_stress(when=0, **kws)
            self.forces = dict(self.F.frames[0].forces)
            if pressures:
                self.solve_pressures()
        _np_default()

    def solve_pressures(self):
        _np_default()
        self.F.build_pressure_matrix(when=0)
        self.pm = self.F.pressure_matrices[0]
        self.F.solve_pressure(when=0, method="lagrange_pressure")
        df = self.frame.get_pressures()
        self.pressures = {int(c): float(p) for c, p in zip(df["id"], df["pressure"])}
        _np_default()
        return self.pressures

    def tension_by_path(self):
        """canonical vertex path -> reported value, for every internal interface (position in Frame.forces)"""
        return {canon(p): float(self.forces[i]) for i, p in enumerate(self.ibe)}


def try_run(spec, t, fails, **kw):
    """Run(...) or None; an exception / a non-finite assembled matrix is recorded in `fails`.  Non-finite coefficients
    (taubinSVD on exactly collinear points) get one key per check and fit, whatever happens downstream."""
    fit = kw.get("fit", "dlite")
    try:
        run = Run(t, **kw)
    except Exception as e:      # noqa
        name = f"raises:{fit}:{kw.get('method')}"
        try:
            kw2 = dict(kw, solve=False)
            if not np.all(np.isfinite(Run(t, **kw2).M)):
                name = f"nonfinite-coefficients:{fit}"
        except Exception:      # noqa
            pass
        fails.append(_fail(spec, name, f"inference raised {type(e).__name__}: {str(e)[:200]}"))
        return None
    if not np.all(np.isfinite(run.M)):
        fails.append(_fail(spec, f"nonfinite-coefficients:{fit}", f"assembled matrix has {int((~np.isfinite(run.M)).sum())} "
                                                                  f"non-finite coefficients (no exception raised)"))
        return None
    return run


def aug_system(M):
    """augmented system of the statement: force-balance rows + 'sum of tensions = number of interfaces', one extra
    non-negative multiplier unknown entering every force-balance row with coefficient 1; b = 0 except the last entry"""
    r, c = M.shape
    A = np.zeros((r + 1, c + 1))
    A[:r, :c] = M
    A[:r, c] = 1.0
    A[r, :c] = 1.0
    b = np.zeros(r + 1)
    b[r] = c
    return A, b.round(3)


def nnls_certified(A, b):
    """own non-negative least squares: scipy nnls, then a KKT test of the result.  Returns z, residual norm, ok"""
    with np.errstate(all="ignore"):
        z, _ = _sco.nnls(A, b, maxiter=50 * A.shape[1] + 200)
        g = A.T @ (A @ z - b)
        sc = max(1.0, float(np.linalg.norm(A, 2)) ** 2) * max(1.0, float(np.abs(z).max()))
        ok = bool(np.all(z >= 0) and np.all(g >= -1e-9 * sc) and np.all(np.abs(g[z > 1e-12]) <= 1e-9 * sc))
        return z, float(np.linalg.norm(A @ z - b)), ok


def best_multiplier_residual(M, x):
    """residual of the augmented system at (x, lambda) minimised over lambda >= 0"""
    r = M @ x
    lam = max(0.0, -float(r.mean())) if len(r) else 0.0
    return float(math.sqrt(float(((r + lam) ** 2).sum()) + (x.sum() - len(x)) ** 2)), lam


RTOL = {None: 1e-8, "lsq_linear": 1e-5, "lsq": 1e-5}
XTOL = {None: 1e-6, "lsq_linear": 1e-4, "lsq": 1e-2}    # lsq: lmfit (bounded Levenberg-Marquardt) stops on its own ftol/xtol; B01 uses the same 1e-2


def certificate(M, x, method):
    """optimality certificate of reported tensions x (aligned with the columns of M) for the augmented problem.
    None if the own optimum could not be certified.  verdicts: list of (clause, detail)"""
    A, b = aug_system(M)
    z, r_opt, cert = nnls_certified(A, b)
    if not cert:
        return None
    nb = float(np.linalg.norm(b))
    r_rep, lam = best_multiplier_residual(M, np.maximum(x, 0.0))
    consistent = r_opt <= 1e-8 * nb
    square = A.shape[0] == A.shape[1]
    s = svals(A)
    unique = A.shape[0] >= A.shape[1] and s[-1] >= 1e-4 * s[0]
    cond = float(s[0] / max(s[-1], 1e-300))
    out = dict(r_opt=r_opt, r_rep=r_rep, lam=lam, consistent=consistent, square=square, unique=unique, cond=cond, z=z, verdicts=[])
    out["fb_consistent"] = fb = bool(consistent and np.linalg.norm(M @ z[:-1]) <= 1e-8 * nb)
    if method == "lsq_linear":
        if not fb:
            return out                                   # outside the statement: force balance itself has no exact solution
        N = M.T @ M                                      # the back-end works on the normal equations: conditioning squared
        sn = svals(aug_system(N)[0])
        scale = max(1.0, 1e-3 * float(sn[0] / max(sn[-1], 1e-300)))
    else:
        scale = max(1.0, 1e-3 * cond)
    rtol = RTOL[method] * (scale if method == "lsq_linear" else 1.0)
    xtol = XTOL[method] * scale * max(1.0, float(np.abs(z).max()))
    out["gap"] = (r_rep - r_opt) / max(nb, r_opt)
    # the inversion path solves the square system exactly and does not look at the sign of the multiplier
    inv_neg = False
    if method is None and square and unique:
        with np.errstate(all="ignore"):
            try:
                zi = np.linalg.solve(A, b)
                inv_neg = bool(zi[-1] < 0 and np.all(zi[:-1] >= 0) and np.abs(zi[:-1] - x).max() <= 1e-8 * max(1.0, 1e-3 * cond))
                out["exact_solution"] = zi
            except np.linalg.LinAlgError:
                pass
    bad_opt = r_rep - r_opt > rtol * max(nb, r_opt)
    dx = float(np.abs(x - z[:-1]).max()) if unique else 0.0
    out["dx"] = dx
    bad_min = unique and dx > xtol
    if inv_neg and (bad_opt or bad_min):
        out["verdicts"].append(("inversion-negative-multiplier",
                                f"square system {A.shape}: the reported tensions are the exact solution of the augmented system with "
                                f"multiplier {out['exact_solution'][-1]:.6g} < 0; with any multiplier >= 0 their residual is {r_rep:.10g} "
                                f"but the optimum over non-negative candidates is {r_opt:.10g}; max |tension - optimal tension| = {dx:.3g}"))
        return out
    if bad_opt:
        out["verdicts"].append(("not-optimal", f"residual of (reported tensions, best multiplier {lam:.4g}) = {r_rep:.12g}, certified "
                                               f"optimum over non-negative candidates = {r_opt:.12g} (excess {(r_rep - r_opt):.3g} > "
                                               f"{rtol:.3g} x {max(nb, r_opt):.4g}); system {A.shape}"))
    if bad_min:
        k = int(np.abs(x - z[:-1]).argmax())
        out["verdicts"].append(("not-minimiser", f"unique optimum (sigma_min/sigma_max={1 / cond:.3g}) has tension {z[k]:.9g} at "
                                                 f"position {k}, reported {x[k]:.9g} (max |diff| {dx:.3g} > {xtol:.3g})"))
    return out


def svals(A):
    with np.errstate(all="ignore"):
        return np.linalg.svd(A, compute_uv=False) if min(A.shape) else np.zeros(0)


# ======================================================================================================
# B02
# ======================================================================================================
def _case_b02(spec):
    t = make_tissue(spec["tissue"])
    fit, ign = spec["fit"], bool(spec["ign"])
    info = dict(hash=tissue_hash(t), nontrivial=False, count=Counter())
    fails = []
    tr = Truth(t)
    try:
        run = Run(t, fit=fit, ign=ign, solve=False, move=spec.get("move"))
    except Exception as e:      # noqa
        fails.append(_fail(spec, "build-raises", f"build_force_matrix raised {type(e).__name__}: {e}"))
        return dict(spec=spec, info=info, fails=fails)
    M, cols, rows = run.M, run.cols, run.rows
    cfg = f"{fit}"
    # ---- one column per internal interface
    exp_cols = Counter(canon(i["path"]) for i in tr.internal)
    got_cols = Counter(canon(p) for p in cols)
    if exp_cols != got_cols:
        miss = list((exp_cols - got_cols))[:2]
        extra = list((got_cols - exp_cols))[:2]
        fails.append(_fail(spec, "columns", f"unknowns are not exactly the internal interfaces: expected {len(tr.internal)} "
                                            f"got {len(cols)}; missing e.g. {miss}, unexpected/duplicated e.g. {extra}"))
    if M.shape[1] != len(cols):
        fails.append(_fail(spec, "columns", f"matrix has {M.shape[1]} columns for {len(cols)} unknowns"))
        return dict(spec=spec, info=info, fails=fails)
    if run.ibe != cols:                 # positions in Frame.forces are positions in Frame.internal_big_edges
        fails.append(_fail(spec, "internal-list", f"Frame.internal_big_edges lists {len(run.ibe)} interfaces, the unknowns are {len(cols)} "
                                                  f"(no angle limit): not the same list in the same order"))
    # ---- one row pair per junction
    rvals = sorted(rows.values())
    if rvals != list(range(0, 2 * len(rows), 2)) or M.shape[0] != 2 * len(rows):
        fails.append(_fail(spec, "row-map", f"map_vid_to_row values {rvals[:6]}.. do not index the {M.shape[0]} rows pairwise"))
        return dict(spec=spec, info=info, fails=fails)
    cand = set(tr.n_int_at) | set(rows)
    must_missing = [j for j in sorted(cand) if tr.junction_rule(j, ign) == "must" and j not in rows]
    forbidden = [j for j in sorted(rows) if tr.junction_rule(j, ign) == "no"]
    if must_missing:
        j = must_missing[0]
        fails.append(_fail(spec, "rows-missing", f"{len(must_missing)} junctions with >=3 cells and >=3 internal interfaces "
                                                 f"have no equation pair, e.g. vertex {j} (cells {len(tr.vc[j])}, internal "
                                                 f"interfaces {tr.n_int_at[j]}, ignore_four={ign})"))
    if forbidden:
        j = forbidden[0]
        fails.append(_fail(spec, "rows-unexpected", f"{len(forbidden)} vertices have an equation pair although the statement "
                                                    f"gives them none, e.g. vertex {j} (cells {len(tr.vc.get(j, ()))}, internal "
                                                    f"interfaces {tr.n_int_at.get(j, 0)}, ignore_four={ign})"))
    info["count"]["ambiguous_junctions"] += sum(1 for j in rows if tr.junction_rule(j, ign) == "may")
    if not np.all(np.isfinite(M)):
        bad = sorted({("straight>=3" if (tr.find(cols[k]) or {}).get("kind") == "straight" else "other", len(cols[k]))
                      for k in np.nonzero(~np.isfinite(M).all(axis=0))[0]})
        allflat = all(b[0] == "straight>=3" and b[1] >= 3 for b in bad)
        fails.append(_fail(spec, f"coef-nonfinite:{'straight-multipoint' if allflat else 'other'}:{cfg}",
                           f"{int((~np.isfinite(M)).sum())} non-finite coefficients; affected columns (kind, points): {bad[:4]}"))
        return dict(spec=spec, info=info, fails=fails)
    # ---- coefficients
    matched = [tr.find(p) for p in cols]
    worst = {}
    for j, r in rows.items():
        for k, p in enumerate(cols):
            got = (float(M[r, k]), float(M[r + 1, k]))
            itf = matched[k]
            if itf is None or (p[0] != j and p[-1] != j):
                if p[0] != j and p[-1] != j:
                    info["count"]["coef_zero"] += 1
                    if got != (0.0, 0.0):
                        worst.setdefault("coef-nonzero-elsewhere", (1.0, f"junction {j}, column {k} (interface {p[:3]}..{p[-1]}) "
                                                                            f"does not end there but has coefficients {got}"))
                continue
            cls = tr.iface_class(itf, len(p))
            if cls == "mixed":
                continue
            tg = tr.tangent(itf, p, j)
            tol = dict([("two-point", TOL_TWO), ("arc", TOL_ARC), ("flat", TOL_FLAT)])[cls]
            if spec.get("move") and cls == "two-point":
                tol = 1e-9          # the live positions are (x - d) + d: a rounding of the harness relative to the chord length
            err = max(abs(got[0] - tg[0]), abs(got[1] - tg[1]))
            info["count"]["coef_" + cls] += 1
            d = first_chord(run.pos, p, j)
            ax = sf_predicate(d, tg)
            if ax is not None:
                info["count"]["ends_with_sign_forcing_predicate"] += 1
            if err <= tol:
                continue
            name, key = f"coef:{cls}:{cfg}", None
            if cls == "flat" and err > 0.05:
                name = f"coef:flat-fit-breakdown:{cfg}"            # far beyond ill-conditioning: e.g. the fitted centre lies on the line itself
            if ax is not None:
                mir = list(tg)
                mir[ax] = -mir[ax]
                if max(abs(got[0] - mir[0]), abs(got[1] - mir[1])) <= tol:
                    name, key = "coef:mirrored-in-axis", KF_SIGN
            det = (f"junction {j}, interface {p[:3]}..{p[-1]} ({len(p)} points, {cls}): coefficient pair "
                   f"({got[0]:.9g}, {got[1]:.9g}) expected unit tangent ({tg[0]:.9g}, {tg[1]:.9g}), |diff|={err:.3g} > {tol:g}; "
                   f"first chord ({d[0]:.4g}, {d[1]:.4g})")
            if name not in worst or err > worst[name][0]:
                worst[name] = (err, det, key)
    for name, w in sorted(worst.items()):
        fails.append(_fail(spec, name, w[1], key=(w[2] if len(w) > 2 else None)))
    info["nontrivial"] = len(rows) > 0
    info["rows"], info["cols"] = len(rows), len(cols)
    return dict(spec=spec, info=info, fails=fails)


# ======================================================================================================
# B01
# ======================================================================================================
B01_TOL_TIGHT, B01_TOL_LOOSE = 1e-4, 1e-2
GAP = 1e-3


def sign_forcing_ends(tr, run):
    """number of (inferred interface, kept junction) ends that satisfy the KF-C02-sign-forcing predicate"""
    n = 0
    for p in run.cols:
        itf = tr.find(p)
        if itf is None or len(p) == 2:
            continue
        for j in (p[0], p[-1]):
            if j in run.rows and sf_predicate(first_chord(run.pos, p, j), tr.tangent(itf, p, j)) is not None:
                n += 1
    return n


def analytic_matrix(tr, run):
    """analytic coefficient matrix restricted to the junctions forsys kept, columns as forsys orders them"""
    A = np.zeros((2 * len(run.rows), len(run.cols)))
    ok = True
    for k, p in enumerate(run.cols):
        itf = tr.find(p)
        if itf is None:
            ok = False
            continue
        for j in (p[0], p[-1]):
            if j in run.rows:
                tg = tr.tangent(itf, p, j)
                A[run.rows[j], k], A[run.rows[j] + 1, k] = tg
    return A, ok


def uniqueness(A):
    """(unique up to scale?, s_max/s_2nd-smallest, s_min/s_max)"""
    r, c = A.shape
    if c < 2 or r < c - 1:
        return False, float("inf"), 0.0
    s = svals(A)
    s = np.concatenate([s, np.zeros(max(0, c - len(s)))])
    s0 = s[0] if s[0] > 0 else 1.0
    return bool(s[c - 1] <= 1e-9 * s0 and s[c - 2] >= GAP * s0), float(s0 / max(s[c - 2], 1e-300)), float(s[c - 1] / s0)


def multiplier_absorbs(M, got, exp):
    """the reported tensions balance the assembled equations much worse than the true ones, and a constant added to every
    equation (the multiplier unknown) accounts for the difference"""
    rg = M @ got
    r_got, r_true = float(np.linalg.norm(rg)), float(np.linalg.norm(M @ exp))
    r_mult = float(np.linalg.norm(rg - rg.mean()))
    return r_got > 10 * max(r_true, 1e-12) and r_mult < 0.1 * r_got


def _case_b01(spec):
    t = make_tissue(spec["tissue"])
    fit, method, ne = spec["fit"], spec.get("method"), spec.get("mesh")
    info = dict(hash=tissue_hash(t), nontrivial=False, count=Counter())
    fails = []
    tr = Truth(t)
    mean_t = np.mean([i["tension"] for i in tr.internal]) if tr.internal else 1.0
    run = try_run(spec, t, fails, fit=fit, method=method, mesh_ne=ne)
    if run is None:
        return dict(spec=spec, info=info, fails=fails)
    if not run.cols or not run.rows:
        info["count"]["no_equations"] += 1
        return dict(spec=spec, info=info, fails=fails)
    # sanity gate of the ground truth: force balance at the kept junctions
    res = gen.force_residuals(t)
    worst_res = max(res.get(j, 0.0) for j in run.rows)
    two_point_arc = any(len(p) == 2 and (tr.find(p) or {}).get("kind") == "arc" for p in run.cols)
    if worst_res > 1e-8 * mean_t or two_point_arc:
        info["rejected"] = True
        return dict(spec=spec, info=info, fails=fails)
    A, ok = analytic_matrix(tr, run)
    if not ok:
        fails.append(_fail(spec, "interfaces", "an inferred interface is not a ground-truth interface"))
        return dict(spec=spec, info=info, fails=fails)
    uniq, cond, smin = uniqueness(A)
    if not uniq:
        info["count"]["skipped_not_unique"] += 1
        return dict(spec=spec, info=info, fails=fails)
    classes = {tr.iface_class(tr.find(p), len(p)) for p in run.cols}
    loose = (method == "lsq") or ("flat" in classes)
    tol = (B01_TOL_LOOSE * max(1.0, cond if "flat" in classes else 1.0)) if loose else B01_TOL_TIGHT
    if method == "lsq_linear" and not loose:
        tol *= 10.0          # lsq_linear works on the normal equations (squared conditioning): 1e-3 on the mean-one scale
    tt = np.array([tr.find(p)["tension"] for p in run.cols])
    exp = tt / tt.mean()
    excluded = sign_forcing_ends(tr, run) > 0
    info["count"]["excluded_sign_forcing" if excluded else ("evaluated_loose" if loose else "evaluated_tight")] += 1
    aug_rank_def = svals(aug_system(A)[0])[-1] <= 1e-9 if A.shape[0] + 1 >= A.shape[1] + 1 else True
    if aug_rank_def:
        info["count"]["augmented_system_rank_deficient"] += 1
    pos_of = {canon(p): i for i, p in enumerate(run.ibe)}
    got = np.array([float(run.forces[pos_of[canon(p)]]) for p in run.cols])
    cls_name = "flat" if "flat" in classes else ("arc" if "arc" in classes else "two-point")
    bad = None
    if not np.all(np.isfinite(got)):
        bad = ("nonfinite", f"reported tensions contain non-finite values")
    else:
        err = np.abs(got - exp)
        k = int(err.argmax())
        info["maxerr"] = float(err[k])
        if err[k] > tol:
            bad = ("tension", f"interface {run.cols[k][:3]}..{run.cols[k][-1]}: reported {got[k]:.9g}, true tension / mean = "
                              f"{exp[k]:.9g} (|diff| {err[k]:.3g} > {tol:g}); max over {len(got)} interfaces; s_max/s_(n-1) of the "
                              f"analytic system = {cond:.3g}, matrix {A.shape}")
    # the per-interface accessors must tell the same story
    if bad is None:
        df = run.frame.get_tensions()
        stress = {int(i): float(s) for i, s in zip(df["id"], df["stress"])}
        for b in run.frame.internal_big_edges:
            want = float(run.forces[pos_of[canon(b.get_vertices_ids())]])
            if abs(float(b.tension) - want) > 1e-12 * max(1, abs(want)) or abs(stress.get(int(b.big_edge_id), np.nan) - want) > 1e-12 * max(1, abs(want)):
                bad = ("accessors", f"interface {b.get_vertices_ids()[:3]}: Frame.forces says {want}, BigEdge.tension "
                                    f"{b.tension}, get_tensions() {stress.get(int(b.big_edge_id))}")
                break
    if bad is not None:
        if excluded:
            fails.append(_fail(spec, bad[0] + ":sign-forcing", bad[1] + f"  [{sign_forcing_ends(tr, run)} interface ends satisfy the "
                                                                       f"sign-forcing predicate]", key=KF_SIGN))
        else:
            cerr = np.abs(run.M - A)
            ctol = np.array([dict([("two-point", TOL_TWO), ("arc", TOL_ARC), ("flat", TOL_FLAT), ("mixed", 1.0)])[tr.iface_class(tr.find(p), len(p))]
                             for p in run.cols])
            over = cerr > ctol[None, :]
            if bad[0] == "tension" and over.any():
                r_, k_ = np.unravel_index(int(np.where(over, cerr, 0).argmax()), cerr.shape)
                cl_ = tr.iface_class(tr.find(run.cols[k_]), len(run.cols[k_]))
                fails.append(_fail(spec, f"tension:coefficient-error:{cl_}:{fit}", bad[1] + f"  [cause: coefficient of interface "
                                   f"{run.cols[k_][:3]}..{run.cols[k_][-1]} ({len(run.cols[k_])} points, {cl_}) is {run.M[r_, k_]:.6g}, analytic "
                                   f"{A[r_, k_]:.6g}; no sign-forcing predicate end]"))
            elif bad[0] == "tension" and not aug_rank_def and multiplier_absorbs(run.M, got, exp):
                rg, rt = float(np.linalg.norm(run.M @ got)), float(np.linalg.norm(run.M @ exp))
                fails.append(_fail(spec, "tension:multiplier-absorbs-residual", bad[1] + f"  [all coefficients are within the B02 tolerance; "
                                   f"the true tensions leave a force-balance residual |M x| = {rt:.3g}, the reported ones {rg:.3g}, which a "
                                   f"multiplier {-float((run.M @ got).mean()):.3g} added to every equation cancels: the {run.M.shape[0]}+1 equations "
                                   f"in {run.M.shape[1]}+1 unknowns are solved exactly instead of in the least-squares sense]"))
            elif aug_rank_def and bad[0] == "tension":
                fails.append(_fail(spec, "tension:augmented-rank-deficient", bad[1] + "  [force balance determines the tensions up to "
                                   "scale (one-dimensional null space) but the augmented system with the multiplier column does not "
                                   "have full column rank]"))
            else:
                fails.append(_fail(spec, f"{bad[0]}:{cls_name}:{fit}:{method}{':mesh' if ne else ''}", bad[1]))
    info["nontrivial"] = not excluded
    info["rows"], info["cols"] = len(run.rows), len(run.cols)
    info["square"] = A.shape[0] == A.shape[1]
    return dict(spec=spec, info=info, fails=fails)


# ======================================================================================================
# B05
# ======================================================================================================
def _case_b05(spec):
    t = make_tissue(spec["tissue"])
    fit, method = spec["fit"], spec.get("method")
    info = dict(hash=tissue_hash(t), nontrivial=False, count=Counter())
    fails = []
    if method == "fix_stress":
        try:
            run = Run(t, fit=fit, method=method)
            x = np.array([run.forces[i] for i in range(len(run.ibe))], dtype=float)
            if len(x) != len(run.ibe) or not np.all(np.isfinite(x)) or np.any(x < 0):
                fails.append(_fail(spec, "fix_stress-result", f"fix_stress returned {x[:6]}.. for {len(run.ibe)} interfaces"))
        except Exception as e:      # noqa
            fails.append(_fail(spec, "fix_stress-raises", f"solve_stress(method='fix_stress') raised {type(e).__name__}: "
                                                          f"{str(e)[:200]}", key=KF_FIX))
        info["nontrivial"] = True
        return dict(spec=spec, info=info, fails=fails)
    run = try_run(spec, t, fails, fit=fit, method=method, extra=spec.get("extra"))
    if run is None:
        return dict(spec=spec, info=info, fails=fails)
    M = run.M
    if run.cols != run.ibe:
        fails.append(_fail(spec, "internal-list", f"{len(run.cols)} unknowns but Frame.internal_big_edges lists {len(run.ibe)} interfaces"))
        return dict(spec=spec, info=info, fails=fails)
    if not run.cols or not len(run.rows):
        info["count"]["no_equations"] += 1
        return dict(spec=spec, info=info, fails=fails)
    x = np.array([float(run.forces[i]) for i in range(len(run.ibe))])
    tag = f"{method}"
    if len(run.forces) != len(run.ibe):
        fails.append(_fail(spec, "result-length", f"{len(run.forces)} reported values for {len(run.ibe)} internal interfaces"))
        return dict(spec=spec, info=info, fails=fails)
    if not np.all(np.isfinite(x)):
        fails.append(_fail(spec, f"nonfinite:{tag}", f"reported tensions not finite: {x[:6]}"))
        return dict(spec=spec, info=info, fails=fails)
    if np.any(x < 0):
        fails.append(_fail(spec, f"negative:{tag}", f"allow_negatives=False but min reported tension = {x.min():.6g}"))
    c = certificate(M, x, method)
    if c is None:
        info["count"]["own_optimum_not_certified"] += 1
        return dict(spec=spec, info=info, fails=fails)
    info["count"]["square" if c["square"] else "rectangular"] += 1
    info["count"]["consistent" if c["consistent"] else "inconsistent"] += 1
    if c["unique"]:
        info["count"]["unique_optimum"] += 1
    if method == "lsq_linear" and not c["fb_consistent"]:
        info["count"]["lsq_linear_on_inconsistent_system_not_judged"] += 1
    shape = f"{'square' if c['square'] else 'rect'}:{'consistent' if c['consistent'] else 'inconsistent'}"
    for clause, detail in c["verdicts"]:
        if clause == "inversion-negative-multiplier":
            fails.append(_fail(spec, clause, detail))
        else:
            fails.append(_fail(spec, f"{clause}:{tag}:{shape}", detail))
    if c["consistent"] and abs(x.mean() - 1.0) > 1e-6:
        fails.append(_fail(spec, f"mean-not-one:{tag}", f"consistent system (optimal residual {c['r_opt']:.3g}) but mean reported "
                                                        f"tension = {x.mean():.9g}"))
    info["nontrivial"] = True
    info["rows"], info["cols"] = len(run.rows), len(run.cols)
    return dict(spec=spec, info=info, fails=fails)


# ======================================================================================================
# B16
# ======================================================================================================
def _case_b16(spec):
    t = make_tissue(spec["tissue"])
    fit, method, limit = spec["fit"], spec.get("method"), spec["limit"]
    info = dict(hash=tissue_hash(t), nontrivial=False, count=Counter())
    fails = []
    fs = _fs()
    angle = None if limit == "default" else float(limit)
    base = try_run(spec, t, fails, fit=fit, solve=False, angle=angle)           # fresh ForSys: matrix only
    if base is None:
        return dict(spec=spec, info=info, fails=fails)
    fr = base.frame
    # independent flagging of junctions
    ends = set()
    for p in base.ibe:
        ends.update((p[0], p[-1]))
    flagged, borderline = set(), False
    lim = math.inf if angle is None else angle
    _np_default()
    with np.errstate(all="ignore"):
        for j in ends:
            vs = [fr.big_edges[b].get_versor_from_vertex(j, fit_method=fit) for b in fr.vertices[j].own_big_edges]
            if not all(np.all(np.isfinite(v)) for v in vs):
                info["rejected"] = True
                return dict(spec=spec, info=info, fails=fails)
            mx = max((math.acos(max(-1.0, min(1.0, float(np.dot(a, b))))) for a, b in itertools.combinations(vs, 2)), default=0.0)
            if abs(mx - lim) < 1e-7:
                borderline = True
            if mx >= lim:
                flagged.add(j)
    if borderline:
        info["count"]["skipped_borderline_angle"] += 1
        return dict(spec=spec, info=info, fails=fails)
    excluded = [i for i, p in enumerate(base.ibe) if p[0] in flagged and p[-1] in flagged]
    kept = [p for i, p in enumerate(base.ibe) if i not in set(excluded)]
    info["excluded"], info["internal"] = len(excluded), len(base.ibe)
    if limit == "default" and excluded:
        fails.append(_fail(spec, "default-excludes", f"default limit but {len(excluded)} interfaces flagged by the own computation (cannot happen)"))
    if base.cols != kept:
        fails.append(_fail(spec, "columns", f"unknowns are not the non-excluded internal interfaces in order: expected {len(kept)} "
                                            f"(excluded positions {excluded[:6]}), matrix has {len(base.cols)}; first difference at "
                                            f"{next((i for i, (a, b) in enumerate(zip(base.cols, kept)) if a != b), min(len(kept), len(base.cols)))}"))
        return dict(spec=spec, info=info, fails=fails)
    if set(base.fm.deletes) != flagged:
        info["count"]["deletes_differs_but_columns_equal"] += 1
    if not kept or not base.rows:
        info["count"]["nothing_left"] += 1
        # still run the solver: must not report anything but -1 ... not decided by the statement; skip
        return dict(spec=spec, info=info, fails=fails)
    try:
        run = Run(t, fit=fit, method=method, angle=angle)
    except Exception as e:      # noqa
        if method == "lsq" and excluded:
            fails.append(_fail(spec, "lsq-with-exclusion-raises", f"solve_stress(method='lsq') with {len(excluded)} excluded "
                                                                  f"interfaces raised {type(e).__name__}: {str(e)[:160]}",
                               key="lsq-with-exclusion-raises"))
        else:
            fails.append(_fail(spec, f"solve-raises:{method}", f"solve_stress raised {type(e).__name__}: {str(e)[:200]}"))
        info["nontrivial"] = bool(excluded)
        return dict(spec=spec, info=info, fails=fails)
    if len(run.forces) != len(base.ibe):
        fails.append(_fail(spec, "result-length", f"{len(run.forces)} values for {len(base.ibe)} internal interfaces"))
        return dict(spec=spec, info=info, fails=fails)
    x = np.array([float(run.forces[i]) for i in range(len(base.ibe))])
    wrong_m1 = [i for i in range(len(x)) if (x[i] == -1.0) != (i in set(excluded))]
    if wrong_m1:
        fails.append(_fail(spec, "minus-one-positions", f"-1 reported at positions {[i for i in range(len(x)) if x[i] == -1.0][:8]}, "
                                                        f"excluded interfaces are at {excluded[:8]}"))
        return dict(spec=spec, info=info, fails=fails)
    xs = np.array([x[i] for i in range(len(x)) if i not in set(excluded)])
    if not np.all(np.isfinite(xs)):
        fails.append(_fail(spec, "nonfinite", f"reported {xs[:5]}"))
        return dict(spec=spec, info=info, fails=fails)
    c = certificate(base.M, xs, method)
    if c is None:
        info["count"]["own_optimum_not_certified"] += 1
        return dict(spec=spec, info=info, fails=fails)
    if c["unique"]:
        info["count"]["unique_optimum"] += 1
    for clause, detail in c["verdicts"]:
        if clause == "inversion-negative-multiplier":
            # "the solution of the restricted system" as the inversion path defines it; the defect is reported by B05
            info["count"]["inverse_path_solution_accepted"] += 1
            continue
        fails.append(_fail(spec, f"restricted-{clause}:{method}", f"{len(excluded)} excluded at positions {excluded[:6]}; " + detail))
    info["nontrivial"] = bool(excluded) or limit == "default"
    info["rows"], info["cols"] = len(base.rows), len(base.cols)
    return dict(spec=spec, info=info, fails=fails)


# ======================================================================================================
# case generation
# ======================================================================================================
_SUBSETS = {}


def base_subsets(base):
    if base not in _SUBSETS:
        t = gen.BASE_TISSUES[base](0)
        _SUBSETS[base] = [s for s in gen.connected_subsets(t) if len(s) >= 3 and has_equation(gen.subtissue(t, s))]
    return _SUBSETS[base]


def has_equation(t):
    """some vertex has >= 3 cells and >= 3 internal interfaces"""
    tr = Truth(t)
    return any(tr.junction_rule(j, False) == "must" for j in tr.n_int_at)


def rand_xf(rng, t_ifaces=40, near_axis=0.4):
    """random pose: rotation (uniform, or aligned to within delta of an axis), reflection, scale, shift"""
    x = {}
    u = rng.random()
    if u < near_axis:
        delta = float(rng.choice([0.0, 1e-12, 1e-9, 1e-6, 1e-4, 0.1 * math.pi / 180, 0.5 * math.pi / 180]) * rng.choice([-1, 1]))
        x["align"] = dict(iface=int(rng.integers(t_ifaces)), end=int(rng.integers(2)), axis=int(rng.integers(4)), delta=delta)
    elif u < 0.9:
        x["angle"] = float(rng.uniform(0, 2 * math.pi))
    if rng.random() < 0.3:
        x["reflect"] = True
    if rng.random() < 0.3:
        x["scale"] = float(10 ** rng.uniform(-5, 3))
    if rng.random() < 0.3:
        x["shift_rel"] = [float(v) for v in rng.uniform(-3, 3, 2)]
    elif rng.random() < 0.2:
        # far from the origin (10..500 tissue sizes): the circle fit works on absolute coordinates
        r, a = float(10 ** rng.uniform(1, math.log10(500))), float(rng.uniform(0, 2 * math.pi))
        x["shift_rel"] = [r * math.cos(a), r * math.sin(a)]
    return x or None


def pick_fit(rng, ts, keep=0.15):
    """taubinSVD on exactly collinear multi-point interfaces yields non-finite coefficients (reported once per check):
    only a fraction `keep` of those combinations is generated"""
    fit = str(rng.choice(["dlite", "taubinSVD"]))
    if (fit == "taubinSVD" and ts.get("moebius") is None and ts.get("noise") is None and (ts.get("pts") or 0) >= 1
            and rng.random() >= keep):
        fit = "dlite"
    return fit


def small_tissue_spec(rng, pts_choices, moebius=None, subset_p=0.6, voronoi_p=0.25, vor_subset_p=0.8, vor_n=(25, 40)):
    """random small tissue: a base tissue (whole or a connected subset) or a random subset of a Voronoi tissue"""
    if rng.random() < voronoi_p:
        n = int(rng.choice(list(vor_n)))
        seed = int(rng.integers(40))
        ts = dict(base="voronoi", n=n, seed=seed)
        t = gen.voronoi_tissue(n, seed, pts=0)
        if rng.random() < vor_subset_p and len(t.cells) > 5:
            size = int(rng.integers(4, min(len(t.cells), 16) + 1))
            ts["subset"] = [int(c) for c in gen.random_connected_subset(t, size, int(rng.integers(1 << 30)), holes=int(rng.integers(0, 2)))]
    else:
        base = str(rng.choice(["hex_patch", "flower"]))
        ts = dict(base=base, seed=int(rng.integers(50)))
        if rng.random() < subset_p:
            subs = base_subsets(base)
            ts["subset"] = [int(c) for c in subs[int(rng.integers(len(subs)))]]
    ts["pts"] = int(rng.choice(pts_choices))
    if moebius is not None:
        ts["moebius"] = float(moebius)
        ts["mseed"] = int(rng.integers(1000))
    return ts


def no_big_lsq(ts, m):
    """the Levenberg-Marquardt back-end takes 5-20 s on whole 25/40-site Voronoi tissues: use the default there"""
    return None if (m == "lsq" and ts.get("base") == "voronoi" and not ts.get("subset")) else m


def cases_b02(tier, seed):
    rng = np.random.default_rng(seed + 202)
    n_arc, n_str, n_lat, n_even = (480, 260, 160, 100) if tier == "quick" else (9000, 5000, 3000, 2500)
    out = []
    for _ in range(n_arc):
        ts = small_tissue_spec(rng, list(range(0, 16)), moebius=float(rng.choice([0.05, 0.2, 0.4, 0.6, 0.8, 0.95])))
        ts["xf"] = rand_xf(rng)
        out.append(dict(check="B02", tissue=ts, fit=str(rng.choice(["dlite", "taubinSVD"])), ign=bool(rng.random() < 0.3)))
        if rng.random() < 0.15:      # vertices moved in place after the frame was built (centre-of-mass shift of a time series)
            out[-1]["move"] = [float(rng.uniform(-3, 3)), float(rng.uniform(-3, 3))]
    for _ in range(n_str):
        ts = small_tissue_spec(rng, [0, 0, 0, 1, 2, 3, 5, 8, 15])
        ts["xf"] = rand_xf(rng)
        out.append(dict(check="B02", tissue=ts, fit=pick_fit(rng, ts, 0.3), ign=bool(rng.random() < 0.3)))
    for _ in range(n_even):          # straight interfaces with an even number of points, one of them (nearly) on an axis
        ts = dict(base=str(rng.choice(["flower", "hex_patch"])), seed=int(rng.integers(50)), pts=int(rng.choice([2, 4, 6, 8, 10, 12, 14])),
                  xf=dict(align=dict(iface=int(rng.integers(40)), end=int(rng.integers(2)), axis=int(rng.integers(4)),
                                     delta=float(rng.choice([0.0, 1e-12, 1e-9, -1e-9, 1e-7])))))
        out.append(dict(check="B02", tissue=ts, fit="dlite", ign=False))
    for _ in range(n_lat):
        kind = str(rng.choice(["square", "brick", "hex"]))
        ts = dict(base="lattice", kind=kind, nx=int(rng.integers(3, 5)), ny=int(rng.integers(3, 5)), seed=0,
                  pts=int(rng.choice([0, 0, 1, 2, 3])))
        if rng.random() < 0.5:                                # ragged borders, holes: vertices with 3 cells but 2 internal interfaces
            lt = lattice(kind, ts["nx"], ts["ny"])
            ts["subset"] = [int(c) for c in gen.random_connected_subset(lt, int(rng.integers(3, len(lt.cells))), int(rng.integers(1 << 30)),
                                                                        holes=int(rng.integers(0, 2)))]
        u = rng.random()
        if u < 0.45:
            ts["xf"] = None
        elif u < 0.7:
            ts["xf"] = dict(angle=float(rng.integers(1, 4)) * math.pi / 2)
        elif u < 0.85:
            ts["xf"] = dict(angle=float(rng.integers(0, 4)) * math.pi / 2 + float(rng.choice([1e-9, 1e-4, 2e-3]) * rng.choice([-1, 1])))
        else:
            ts["xf"] = dict(angle=float(rng.uniform(0, 2 * math.pi)), reflect=bool(rng.random() < 0.5))
        out.append(dict(check="B02", tissue=ts, fit=pick_fit(rng, ts, 0.3), ign=bool(rng.random() < 0.5)))
    return out


def cases_b01(tier, seed):
    rng = np.random.default_rng(seed + 101)
    n = 600 if tier == "quick" else 10000
    out = []
    methods = [None, "lsq_linear", "lsq"]
    for i in range(n):
        curved = rng.random() < 0.6
        if curved:
            ts = small_tissue_spec(rng, list(range(1, 17)), moebius=float(rng.choice([0.1, 0.3, 0.5, 0.7, 0.9])), subset_p=0.35)
        else:
            ts = small_tissue_spec(rng, [0, 0, 0, 0, 1, 2, 4, 7, 16], subset_p=0.35)
        if ts["base"] == "voronoi" and rng.random() < 0.5:
            ts.pop("subset", None)                          # whole Voronoi tissue
        ts["xf"] = rand_xf(rng, near_axis=0.15)
        mesh = int(rng.integers(2, 13)) if (ts["pts"] >= 2 and rng.random() < 0.3) else None
        m = methods[int(rng.choice([0, 0, 1, 2]))]
        out.append(dict(check="B01", tissue=ts, fit=pick_fit(rng, ts), method=no_big_lsq(ts, m), mesh=mesh))
    return out


def cases_b05(tier, seed):
    rng = np.random.default_rng(seed + 505)
    n = 600 if tier == "quick" else 10000
    out = [dict(check="B05", tissue=dict(base="flower", seed=0, pts=0), fit="dlite", method="fix_stress"),
           dict(check="B05", tissue=dict(base="hex_patch", seed=1, pts=3, moebius=0.6, mseed=2, noise=dict(sigma=0.05, seed=3)),
                fit="dlite", method="fix_stress")]
    for i in range(n):
        u = rng.random()
        if u < 0.65:                                          # noisy
            curved = rng.random() < 0.5
            ts = small_tissue_spec(rng, [0, 0, 1, 2, 4, 7] if not curved else [2, 3, 5, 8],
                                   moebius=(float(rng.choice([0.5, 0.7, 0.9])) if curved else None), subset_p=0.4)
            ts["noise"] = dict(sigma=float(rng.choice([0.01, 0.05, 0.15, 0.3])), seed=int(rng.integers(1 << 30)))
            m = [None, None, "lsq"][int(rng.integers(3))]
        else:                                                 # consistent
            curved = rng.random() < 0.6
            ts = small_tissue_spec(rng, [0, 0, 1, 3] if not curved else [2, 3, 5, 8],
                                   moebius=(float(rng.choice([0.3, 0.6, 0.9])) if curved else None), subset_p=0.4)
            m = [None, "lsq_linear", "lsq"][int(rng.integers(3))]
        if rng.random() < 0.3:
            ts["xf"] = dict(angle=float(rng.uniform(0, 6.28)), scale=float(10 ** rng.uniform(-3, 3)),
                            shift_rel=[float(v) for v in rng.uniform(-5, 5, 2)])
        out.append(dict(check="B05", tissue=ts, fit=pick_fit(rng, ts), method=no_big_lsq(ts, m)))
    return out


def cases_b16(tier, seed):
    rng = np.random.default_rng(seed + 1616)
    n = 380 if tier == "quick" else 5500
    out = []
    for i in range(n):
        curved = rng.random() < 0.5
        ts = small_tissue_spec(rng, [0, 0, 1, 2, 4] if not curved else [2, 3, 5, 8],
                               moebius=(float(rng.choice([0.4, 0.7, 0.9])) if curved else None), subset_p=0.3)
        if rng.random() < 0.6:
            ts["noise"] = dict(sigma=float(rng.choice([0.02, 0.1, 0.3])), seed=int(rng.integers(1 << 30)))
        if rng.random() < 0.5:
            ts["xf"] = dict(angle=float(rng.uniform(0, 6.28)))
        u = rng.random()
        limit = "default" if u < 0.1 else (math.pi if u < 0.15 else
                                           float(rng.uniform(0.5 * math.pi, 0.667 * math.pi) if u < 0.25 else rng.uniform(0.667 * math.pi, math.pi)))
        m = "lsq" if rng.random() < 0.12 else None
        out.append(dict(check="B16", tissue=ts, fit=pick_fit(rng, ts), method=no_big_lsq(ts, m), limit=limit))
    # 'lsq' back-end with an exclusion: one fixed case known to exclude 2 of 16 interfaces, and a dozen likely ones
    out.append(dict(check="B16", tissue=dict(base="hex_patch", seed=40, pts=4, noise=dict(sigma=0.3, seed=1062975607)), fit="dlite",
                    method="lsq", limit=2.6990012373655876))
    for _ in range(12 if tier == "quick" else 120):
        ts = dict(base=str(rng.choice(["hex_patch", "flower"])), seed=int(rng.integers(50)), pts=int(rng.choice([0, 2, 4])),
                  noise=dict(sigma=0.3, seed=int(rng.integers(1 << 30))))
        out.append(dict(check="B16", tissue=ts, fit="dlite", method="lsq", limit=float(rng.uniform(2.5, 2.9))))
    return out


# ======================================================================================================
# runner (shared with b_invariance)
# ======================================================================================================
def _key(spec):
    return hashlib.sha1(json.dumps(spec, sort_keys=True, default=str).encode()).hexdigest()[:16]


def _fail(spec, name, detail, key=None):
    return dict(key=key or f"{spec['check']}:{name}", name=name, input=spec, detail=str(detail)[:1500])


_CASE = dict(B02=_case_b02, B01=_case_b01, B05=_case_b05, B16=_case_b16)


def guarded(fn, spec):
    t0 = time.time()
    try:
        with contextlib.redirect_stdout(io.StringIO()), warnings.catch_warnings():
            warnings.simplefilter("ignore")
            with np.errstate():
                r = fn(spec)
    except Exception:      # noqa
        r = dict(spec=spec, info=dict(count=Counter(), crashed=True),
                 fails=[_fail(spec, "check-crashed", traceback.format_exc()[-1200:])])
    finally:
        _np_default()
    r["info"]["count"] = dict(r["info"].get("count", {}))
    r["seconds"] = round(time.time() - t0, 3)
    return r


def _run_case(spec):
    return guarded(_CASE[spec["check"]], spec)


def _cost(spec):
    ts = spec.get("tissue") or {}
    cells = len(ts["subset"]) if ts.get("subset") else (ts.get("n", 9) if ts.get("base") == "voronoi" else 9)
    return (ts.get("pts", 0) + 2) * cells * (3 if spec.get("method") == "lsq" else 1)


_POOL = None


def get_pool():
    global _POOL
    if _POOL is None:
        import atexit
        n = min(NPROC, os.cpu_count() or 1)
        _POOL = (mp.get_context("spawn").Pool(n), n)
        atexit.register(close_pool)
        _POOL[0].map(_warm, range(2 * n), chunksize=1)        # workers import forsys now: not charged to a check's budget
    return _POOL


def _warm(i):
    _fs()
    time.sleep(0.05)
    return i


def close_pool():
    global _POOL
    if _POOL is not None:
        try:
            _POOL[0].terminate()
            _POOL[0].join()
        except Exception:      # noqa
            pass
        _POOL = None


def run_all(specs, fn, budget):
    """run the cases on the shared spawn pool; stop collecting after `budget` seconds (the remaining cases are reported
    as `not_run`, never as passed)"""
    specs = sorted(specs, key=lambda s: -_cost(s))
    serial = mp.current_process().daemon or os.environ.get("FVC_BOUNDED_SERIAL") or len(specs) < 8
    out = []
    if not serial:
        pool, n = get_pool()
    t0 = time.time()
    if serial:
        for s in specs:
            if time.time() - t0 > budget:
                break
            out.append(fn(s))
        return out, len(specs) - len(out)
    it = pool.imap_unordered(fn, specs)            # chunksize 1: the plain iterator supports next(timeout)
    try:
        while True:
            left = budget - (time.time() - t0)
            if left <= 0:
                raise mp.TimeoutError()
            out.append(it.next(timeout=left))
    except StopIteration:
        pass
    except mp.TimeoutError:
        close_pool()
    return out, len(specs) - len(out)


def aggregate(results, not_run, rule, extra_nontrivial_key=()):
    results = sorted(results, key=lambda r: _key(r["spec"]))
    nontrivial = {(r["info"].get("hash"), json.dumps({k: v for k, v in r["spec"].items() if k != "tissue"}, sort_keys=True, default=str))
                  for r in results if r["info"].get("nontrivial")}
    groups = defaultdict(list)
    for r in results:
        for f in r["fails"]:
            groups[f["key"]].append(f)
    failures = []
    for key in sorted(groups):
        fs_ = groups[key]
        rep = dict(min(fs_, key=lambda f: (len(json.dumps(f["input"], default=str)), json.dumps(f["input"], sort_keys=True, default=str))))
        if len(fs_) > 1:
            rep["detail"] += f"  [{len(fs_)} generated inputs fail with this key; smallest shown]"
        failures.append(rep)
    counts = Counter()
    for r in results:
        counts.update(r["info"].get("count", {}))
    samples = []
    for r in results[:: max(1, len(results) // 4)][:4]:
        samples.append(dict(input=r["spec"], observed={k: v for k, v in r["info"].items() if k != "count"}, failures=len(r["fails"])))
    out = dict(evaluations=len(results), distinct_nontrivial=len(nontrivial), rule=rule, samples=samples, failures=failures,
               rejected=sum(1 for r in results if r["info"].get("rejected")), not_run=not_run,
               counts=dict(sorted(counts.items())), cpu_seconds=round(sum(r.get("seconds", 0) for r in results), 1))
    return out


def _budget(tier, share=4):
    """seconds after which a check stops collecting results (the file's checks together stay within 45 s / 10 min)"""
    return (40.0 if tier == "quick" else 570.0) / share


@bounded("B02", ["C02", "C01"], "assembled force-balance system equals the closed-form unit tangents, per coefficient",
         bound="Moebius images (exact arcs, strength 0.05..0.95) and straight versions of: whole / connected sub-tissues of the "
               "9-cell hexagonal patch, 7-cell flower, 7-cell strip, random connected subsets (with holes) of 25/40-site Voronoi "
               "tissues; 0..15 interior points per interface; poses: uniform rotations, rotations putting a chosen tangent at "
               "0, 1e-12 .. 0.5 degree from a coordinate axis, reflections, scales 1e-3..1e3, shifts; square / brick / hexagon "
               "lattices 3..4 x 3..4 (whole and random connected subsets with holes) at 0, k*90 degrees, k*90 +- 1e-9..2e-3 and "
               "arbitrary angles; 100 (quick) straight tissues with an even number of points per interface and one interface "
               "0..1e-7 rad from an axis; fit in {dlite, taubinSVD}; ignore_four on/off; quick 1000 cases, thorough 19500")
def run_b02(tier, seed):
    res, nr = run_all(cases_b02(tier, seed), _run_case, _budget(tier))
    return aggregate(res, nr,
                     "case = (tissue spec, fit, ignore_four) -> build_force_matrix on the real code. Expected: columns = ground-truth "
                     "interfaces all of whose vertices lie on >=2 cells with an end on >=3 cells; row pairs = vertices with >=3 cells and "
                     ">=3 such interfaces (with ignore_four: none for >=4 interfaces; vertices with 3 interfaces but >=4 cells are not "
                     "judged); coefficient pair = analytic unit tangent at the junction (segment direction for two-point interfaces), "
                     f"exact 0 elsewhere. Tolerances (absolute on unit vectors): two-point {TOL_TWO:g}; arcs with >=3 points turning by "
                     f">= {FLAT_TURN:g} rad {TOL_ARC:g}; 'flat' = >=3 points on a straight line or an arc turning < {FLAT_TURN:g} rad "
                     f"(circle fit ill-posed) {TOL_FLAT:g}, counted separately (counts.coef_flat; a flat mismatch > 0.05 is keyed "
                     "coef:flat-fit-breakdown). A mismatch is keyed "
                     f"{KF_SIGN} only if the predicate holds at that end and the pair equals the mirrored tangent. non-trivial = "
                     "at least one equation pair; distinct = distinct (geometry hash, fit, ignore_four)")


@bounded("B01", ["C01"], "static inference returns true tension / mean true tension on equilibrium tissues",
         bound="equilibrium tissues: Voronoi (tension = site distance; hexagonal patch, flower, strip, 25/40-site random, whole and "
               "connected subsets) with 0..16 interior points and their Moebius images (strength 0.1..0.9, 1..16 points); random "
               "rotations / near-axis rotations / reflections / scales 1e-3..1e3 / shifts; generate_mesh(ne=2..12) on 30 % of the "
               "cases with >=2 points; method in {default, lsq_linear, lsq} x fit in {dlite, taubinSVD}; quick 600, thorough 10000")
def run_b01(tier, seed):
    res, nr = run_all(cases_b01(tier, seed), _run_case, _budget(tier))
    return aggregate(res, nr,
                     "case = (tissue, fit, method, optional generate_mesh). Gate: analytic force residual at the kept junctions "
                     "<= 1e-8 x mean tension (else rejected). Evaluated only if the analytic coefficient matrix restricted to the kept "
                     f"junctions has singular values s_n <= 1e-9 s_1 and s_(n-1) >= {GAP:g} s_1 (else counts.skipped_not_unique). "
                     "Expected reported value = true tension / mean true tension over the inferred interfaces; tolerance on the mean-one "
                     f"scale: {B01_TOL_TIGHT:g} if every interface is two-point or an arc turning >= {FLAT_TURN:g} rad and the method is "
                     f"default or lsq_linear, {B01_TOL_LOOSE:g} for method 'lsq', {B01_TOL_LOOSE:g} x max(1, s_1/s_(n-1)) when an interface "
                     "has >=3 points on a (nearly) straight line. A tension failure whose cause is a coefficient outside the B02 tolerance is "
                     "keyed tension:coefficient-error. Frame.forces, BigEdge.tension and get_tensions() must agree. Cases with an interface end "
                     f"satisfying the sign-forcing predicate are excluded (counts.excluded_sign_forcing) and reported under {KF_SIGN} "
                     "if they fail. non-trivial = evaluated and not excluded")


@bounded("B05", ["C05"], "reported tensions are a certified optimum of the augmented non-negative least-squares problem",
         bound="noisy tissues (vertex noise 0.01..0.3 mesh-edge lengths on straight and Moebius tissues, 0..8 points) and "
               "consistent tissues, whole and sub-tissues (square and rectangular systems), random scale 1e-3..1e3 / rotation / "
               "shift on 30 %; method default and 'lsq' everywhere, 'lsq_linear' on consistent systems; fix_stress twice; "
               "allow_negatives=False; quick 602, thorough 10002")
def run_b05(tier, seed):
    res, nr = run_all(cases_b05(tier, seed), _run_case, _budget(tier))
    return aggregate(res, nr,
                     "case = (tissue, fit, method). After solve_stress the augmented system [[M,1],[1^T,0]] z = (0,..,0,n) is rebuilt "
                     "from ForceMatrix.matrix; own optimum = scipy nnls certified by a KKT test (gradient >= -1e-9 on the zero set, "
                     "|gradient| <= 1e-9 on the support, relative to |A|^2 |z|). Clause optimal: residual(reported tensions, best "
                     "multiplier >= 0) - optimal residual <= rtol x max(|b|, optimum) with rtol 1e-8 (default), 1e-6 (lsq_linear), "
                     "1e-5 (lsq). Clause minimiser (only if the augmented matrix has full column rank, sigma_min >= 1e-4 sigma_max): "
                     "|reported - own| <= xtol x max(1, 1e-3 sigma_max/sigma_min), xtol 1e-6 / 1e-5 / 1e-3. No negative value, all "
                     "finite, |mean - 1| <= 1e-6 when the optimal residual <= 1e-8 |b|. non-trivial = at least one equation")


@bounded("B16", ["C16"], "angle-limit exclusion: flagged set, -1 positions and solution of the restricted system",
         bound="straight and Moebius tissues (whole and sub-tissues), 60 % with vertex noise, random rotation; angle limit uniform "
               "in [0.5 pi, pi], exactly pi, and the default; fit in {dlite, taubinSVD}; back-end default (88 %) and 'lsq'; "
               "plus 13 (quick) / 121 (thorough) noisy 'lsq' cases with limits 2.5..2.9; quick 393, thorough 5621")
def run_b16(tier, seed):
    res, nr = run_all(cases_b16(tier, seed), _run_case, _budget(tier))
    return aggregate(res, nr,
                     "case = (tissue, fit, limit, method). Flagged junctions recomputed from BigEdge.get_versor_from_vertex of all "
                     "interfaces at each end vertex of an internal interface (max pairwise arccos >= limit; cases with an angle "
                     "within 1e-7 of the limit are skipped); excluded = internal interfaces with both ends flagged. Checked: matrix "
                     "columns = the non-excluded interfaces in order; Frame.forces == -1 exactly at the excluded positions; other "
                     "values vs own certified NNLS of the augmented restricted system (residual excess <= 1e-8 |b| (lsq 1e-5), values "
                     "within 1e-6 (lsq 1e-3) x max(1, 1e-3 cond) when the optimum is unique); default limit excludes nothing. "
                     "non-trivial = at least one interface excluded (or default limit)")


def replay(failure):
    """re-run the recorded input; True if it passes now"""
    spec = failure["input"]
    r = _run_case(spec)
    for f in r["fails"]:
        print("still failing:", f["key"], "-", f["detail"][:600])
    return not r["fails"]
