"""Builtins, container methods and library front ends (numpy, itertools, copy, dataclasses, ...) of the
fvc interpreter.  Everything here is a *model*: exact under assumption A-real unless marked
axiomatised.  The models are differential-tested against CPython/numpy by fvc/selftest.py.
"""
import builtins as _bi
import itertools as _it
import math as _math
from fractions import Fraction

import z3

from . import sym
from .sym import SymError, is_sym
from . import npmodel as npm
from .npmodel import NDArr


class ModelFn:
    def __init__(self, name, fn):
        self.name, self.fn = name, fn

    def fvc_getattr(self, it, name):
        if self.name == "dict" and name == "fromkeys":
            def fromkeys(it_, keys, value=None):
                d = _I().IDict()
                for k in it_.iterate(keys):
                    if it_.dict_find(d, k) < 0:
                        it_.dict_set(d, k, value)
                return d
            return ModelFn("dict.fromkeys", fromkeys)
        raise SymError(f"attribute '{name}' on {self.name}")

    def __repr__(self):
        return f"<model {self.name}>"


class BuiltinMethod:
    def __init__(self, obj, name):
        self.obj, self.name = obj, name


class LibModule:
    def __init__(self, name, table, fallback_opaque=True):
        self.name, self.table, self.fallback_opaque = name, table, fallback_opaque

    def get(self, attr):
        from .interp import OpaqueCallable, IRaise
        if attr in self.table:
            v = self.table[attr]
            if isinstance(v, _LazyConst):
                return v.f()
            return v
        if self.fallback_opaque:
            return OpaqueCallable(self.name + "." + attr)
        raise IRaise(AttributeError(f"module '{self.name}' has no attribute '{attr}'"))


class _Sentinel:
    def __init__(self, n):
        self.n = n

    def __repr__(self):
        return self.n


DATACLASS = _Sentinel("dataclass")


def _I():
    from . import interp
    return interp


def _lst(it, x):
    return list(it.iterate(x))


# ------------------------------------------------------------------------------------------------
# builtins

def b_len(it, x):
    I = _I()
    if isinstance(x, (list, tuple, str, range, I.IDict, I.ISet, I.DictView, NDArr)):
        try:
            return len(x)
        except TypeError as ex:
            raise I.IRaise(ex)
    if hasattr(x, "fvc_len"):
        return x.fvc_len(it)
    if isinstance(x, I.IObj):
        try:
            f = x.cls.lookup("__len__")
        except KeyError:
            raise I.IRaise(TypeError(f"object of type '{x.cls.name}' has no len()"))
        return it.call_function(f, [x], {})
    raise I.IRaise(TypeError(f"object of type '{type(x).__name__}' has no len()"))


def b_range(it, *a):
    if any(is_sym(sym.concretize(npm.unwrap0(x))) for x in a):
        from . import modeb
        if len(a) == 1:
            return modeb.SymRange(0, a[0])
        if len(a) == 2:
            return modeb.SymRange(a[0], a[1])
        raise SymError("symbolic range with a step")
    a = [it.concrete_int(x) for x in a]
    return range(*a)


def b_abs(it, x):
    x = npm.unwrap0(x)
    if isinstance(x, NDArr):
        return npm.unary(sym.py_abs, x)
    return sym.py_abs(x)


def _minmax(it, args, kwargs, is_max):
    I = _I()
    kwargs = dict(kwargs)
    has_default = "default" in kwargs
    default = kwargs.pop("default", None)
    key = kwargs.pop("key", None)
    if kwargs:
        raise SymError("min/max with unknown keyword")
    if key is not None:
        xs = _lst(it, args[0]) if len(args) == 1 else list(args)
        if not xs:
            if has_default:
                return default
            raise I.IRaise(ValueError("min()/max() arg is an empty sequence"))
        ks = [npm.unwrap0(it.call(key, [e], {})) for e in xs]
        best = 0
        for i in range(1, len(xs)):
            if all(not is_sym(k) for k in (ks[i], ks[best])):
                better = ks[i] > ks[best] if is_max else ks[i] < ks[best]
            else:
                better = it.decide(sym.gt(ks[i], ks[best]) if is_max else sym.lt(ks[i], ks[best]))
            if better:
                best = i
        return xs[best]
    xs = _lst(it, args[0]) if len(args) == 1 else list(args)
    if not xs:
        if has_default and len(args) == 1:
            return default
        raise I.IRaise(ValueError("min()/max() arg is an empty sequence"))
    xs = [npm.unwrap0(x) for x in xs]
    if all(not is_sym(x) for x in xs):
        if all(isinstance(x, (int, float, Fraction, str, bool)) for x in xs):
            return max(xs) if is_max else min(xs)
    acc = xs[0]
    for x in xs[1:]:
        c = sym.gt(x, acc) if is_max else sym.lt(x, acc)
        acc = sym.ite(c, x, acc)
    return acc


def b_sum(it, xs, start=0):
    acc = start
    for x in it.iterate(xs):
        acc = it.binop(_ADD, acc, x)
    return acc


import ast as _ast
_ADD = _ast.Add()


def b_int(it, x=0):
    I = _I()
    x = npm.unwrap0(x)
    if isinstance(x, str):
        try:
            return int(x)
        except ValueError as ex:
            raise I.IRaise(ex)
    if isinstance(x, NDArr):
        raise I.IRaise(TypeError("only length-1 arrays can be converted to Python scalars"))
    if hasattr(x, "fvc_int"):
        return x.fvc_int(it)
    if not (sym.is_num(x) or isinstance(x, bool)):
        raise I.IRaise(TypeError(f"int() argument must be a string or a real number, not '{type(x).__name__}'"))
    return sym.to_int(x)


def b_float(it, x=0.0):
    I = _I()
    x = npm.unwrap0(x)
    if isinstance(x, str):
        try:
            return float(x)
        except ValueError as ex:
            raise I.IRaise(ex)
    if hasattr(x, "fvc_float"):
        return x.fvc_float(it)
    if x is None or isinstance(x, (I.IObj, list, tuple, I.IDict)):
        raise I.IRaise(TypeError(f"float() argument must be a string or a real number, not '{type(x).__name__}'"))
    if isinstance(x, NDArr):
        raise I.IRaise(TypeError("only length-1 arrays can be converted to Python scalars"))
    if isinstance(x, npm.Uninit):
        raise SymError("read of uninitialised np.empty cell")
    if isinstance(x, bool):
        return float(x)
    if isinstance(x, int):
        return float(x)
    if is_sym(x):
        return sym.to_real(x) if not sym.is_symbool(x) else sym.to_real(x)
    return x


def b_round(it, x, k=0):
    x = npm.unwrap0(x)
    if isinstance(x, NDArr):
        return npm.unary(lambda e: sym.py_round(e, k), x)
    return sym.py_round(x, k)


def b_isinstance(it, x, t):
    I = _I()
    ts = t if isinstance(t, tuple) else (t,)
    for tt in ts:
        if isinstance(tt, ModelFn):
            n = tt.name
            if n == "int" and ((isinstance(x, int) and not isinstance(x, bool)) or (is_sym(x) and z3.is_int(x)) or isinstance(x, bool)):
                return True
            if n == "float" and (isinstance(x, (float, Fraction)) or (is_sym(x) and z3.is_real(x))):
                return True
            if n == "str" and isinstance(x, str):
                return True
            if n == "list" and isinstance(x, list):
                return True
            if n == "tuple" and isinstance(x, tuple):
                return True
            if n == "dict" and isinstance(x, I.IDict):
                return True
            if n == "set" and isinstance(x, I.ISet):
                return True
            if n == "bool" and (isinstance(x, bool) or sym.is_symbool(x)):
                return True
        elif isinstance(tt, I.IClass):
            if isinstance(x, I.IObj):
                c = [x.cls]
                while c:
                    k = c.pop()
                    if k is tt:
                        return True
                    c.extend(b for b in k.bases if isinstance(b, I.IClass))
        elif isinstance(tt, type):
            if isinstance(x, tt) and issubclass(tt, BaseException):
                return True
    return False


class TypeOf:
    def __init__(self, name):
        self.name = name

    def __repr__(self):
        return f"<class '{self.name}'>"


def b_type(it, x):
    I = _I()
    if isinstance(x, I.IObj):
        return x.cls
    if isinstance(x, bool) or sym.is_symbool(x):
        return BUILTINS["bool"]
    if isinstance(x, str):
        return BUILTINS["str"]
    if isinstance(x, list):
        return BUILTINS["list"]
    if isinstance(x, tuple):
        return BUILTINS["tuple"]
    if isinstance(x, I.IDict):
        return BUILTINS["dict"]
    if isinstance(x, I.ISet):
        return BUILTINS["set"]
    if isinstance(x, int) or (is_sym(x) and z3.is_int(x)):
        return BUILTINS["int"]
    if isinstance(x, (float, Fraction)) or is_sym(x):
        return BUILTINS["float"]
    if x is None:
        return NONETYPE
    if isinstance(x, NDArr):
        return NDARRAY_T
    if isinstance(x, range):
        return BUILTINS["range"]
    if isinstance(x, BaseException):
        return type(x)
    raise SymError("type() of " + type(x).__name__)


NONETYPE = _Sentinel("NoneType")
NDARRAY_T = _Sentinel("ndarray")


def b_list(it, x=()):
    return _lst(it, x)


def b_tuple(it, x=()):
    return tuple(_lst(it, x))


def b_set(it, x=()):
    return it.make_set(_lst(it, x))


def b_dict(it, x=None, **kw):
    I = _I()
    d = I.IDict()
    if x is not None:
        if isinstance(x, I.IDict):
            for k, v in x.items_:
                it.dict_set(d, k, v)
        else:
            for pair in it.iterate(x):
                k, v = _lst(it, pair)
                it.dict_set(d, k, v)
    for k, v in kw.items():
        it.dict_set(d, k, v)
    return d


def b_enumerate(it, x, start=0):
    from . import modeb
    if isinstance(x, modeb.SymSeq):
        return modeb.SymEnumerate(x)
    return _I().LiveIter(((i, v) for i, v in enumerate(it.iterate(x), start)))


def b_zip(it, *xs):
    return _I().LiveIter(zip(*[it.iterate(x) for x in xs]))


def b_map(it, f, *xs):
    return _I().LiveIter((it.call(f, list(a), {}) for a in zip(*[it.iterate(x) for x in xs])))


def b_filter(it, f, xs):
    def gen():
        for x in it.iterate(xs):
            if it.truth(x if f is None else it.call(f, [x], {})):
                yield x
    return _I().LiveIter(gen())


def b_reversed(it, x):
    I = _I()
    if isinstance(x, (list, tuple, range, str)):
        return I.LiveIter(iter(list(reversed(x))))
    if isinstance(x, I.DictView):
        return I.LiveIter(iter(list(reversed(x.snapshot()))))
    if isinstance(x, I.IDict):
        return I.LiveIter(iter([k for k, _ in reversed(x.items_)]))
    raise I.IRaise(TypeError(f"'{type(x).__name__}' object is not reversible"))


def b_sorted(it, x, key=None, reverse=False):
    xs = _lst(it, x)
    if key is not None:
        ks = [it.call(key, [e], {}) for e in xs]
    else:
        ks = xs
    if any(is_sym(k) or not isinstance(k, (int, float, str, Fraction, tuple)) for k in ks):
        if not all(sym.is_num(k) for k in ks):
            raise SymError("sorted() on symbolic non-numeric keys")
        order = []                      # stable insertion sort, every comparison a branch decision
        for i in range(len(xs)):
            pos = len(order)
            while pos > 0 and it.decide(sym.lt(ks[i], ks[order[pos - 1]])):
                pos -= 1
            order.insert(pos, i)
        if reverse:                     # sorted(reverse=True) keeps the original order of equal elements
            groups, out = [], []
            for i in order:
                if groups and it.decide(sym.eq(ks[groups[-1][0]], ks[i])):
                    groups[-1].append(i)
                else:
                    groups.append([i])
            for g in reversed(groups):
                out.extend(g)
            order = out
        return [xs[i] for i in order]
    order = sorted(range(len(xs)), key=lambda i: ks[i], reverse=reverse)
    return [xs[i] for i in order]


def b_any(it, xs):
    return sym.b_or(*[_as_bool(it, x) for x in it.iterate(xs)])


def b_all(it, xs):
    return sym.b_and(*[_as_bool(it, x) for x in it.iterate(xs)])


def _as_bool(it, x):
    x = npm.unwrap0(x)
    if isinstance(x, bool) or sym.is_symbool(x):
        return x
    if is_sym(x):
        return sym.concretize(sym.to_arith(x) != 0)
    return it.truth(x)


def b_next(it, x, *default):
    I = _I()
    if isinstance(x, I.LiveIter):
        try:
            return next(x.it)
        except StopIteration:
            if default:
                return default[0]
            raise I.IRaise(StopIteration())
    if isinstance(x, list):
        # generator expressions are evaluated eagerly to lists by the interpreter
        if x:
            return x.pop(0)
        if default:
            return default[0]
        raise I.IRaise(StopIteration())
    raise SymError("next() on " + type(x).__name__)


def b_iter(it, x):
    return _I().LiveIter(iter(_lst(it, x)))


def b_str(it, x=""):
    I = _I()
    if isinstance(x, Fraction):
        return str(float(x))
    if is_sym(x) or isinstance(x, (I.IObj, NDArr)):
        return I.SymStr([x])
    if isinstance(x, list):
        return str(x)
    return str(x)


def b_bool(it, x=False):
    return it.truth(x)


def b_print(it, *a, **k):
    return None


def b_open(it, *a, **k):
    I = _I()
    try:
        return I.NativeValue(open(*[I.NativeValue.unwrap(x) for x in a], **k))
    except OSError as ex:
        raise I.IRaise(ex)


def b_repr(it, x):
    return repr(x)


def b_hasattr(it, o, n):
    I = _I()
    try:
        it.getattr(o, n)
        return True
    except I.IRaise:
        return False


def b_getattr(it, o, n, *d):
    I = _I()
    try:
        return it.getattr(o, n)
    except I.IRaise:
        if d:
            return d[0]
        raise


BUILTINS = {}
for _n, _f in [("len", b_len), ("range", b_range), ("abs", b_abs), ("sum", b_sum), ("int", b_int),
               ("float", b_float), ("round", b_round), ("isinstance", b_isinstance), ("type", b_type),
               ("list", b_list), ("tuple", b_tuple), ("set", b_set), ("dict", b_dict),
               ("enumerate", b_enumerate), ("zip", b_zip), ("map", b_map), ("filter", b_filter),
               ("reversed", b_reversed), ("sorted", b_sorted), ("any", b_any), ("all", b_all),
               ("next", b_next), ("iter", b_iter), ("str", b_str), ("bool", b_bool), ("print", b_print),
               ("open", b_open), ("repr", b_repr), ("hasattr", b_hasattr), ("getattr", b_getattr)]:
    BUILTINS[_n] = ModelFn(_n, _f)
BUILTINS["min"] = ModelFn("min", lambda it, *a, **k: _minmax(it, a, k, False))
BUILTINS["max"] = ModelFn("max", lambda it, *a, **k: _minmax(it, a, k, True))
for _n in ["Exception", "ValueError", "KeyError", "IndexError", "TypeError", "AttributeError",
           "NotImplementedError", "ModuleNotFoundError", "ImportError", "FloatingPointError",
           "ZeroDivisionError", "AssertionError", "RuntimeError", "StopIteration", "DeprecationWarning",
           "ArithmeticError", "LookupError", "OSError", "NameError", "BaseException", "UserWarning", "Warning"]:
    BUILTINS[_n] = getattr(_bi, _n)
BUILTINS["None"] = None
BUILTINS["True"] = True
BUILTINS["False"] = False
BUILTINS["NotImplemented"] = NotImplemented
BUILTINS["object"] = _Sentinel("object")


# ------------------------------------------------------------------------------------------------
# container methods

def call_builtin_method(it, obj, name, args, kwargs):
    I = _I()
    if isinstance(obj, list):
        return _list_method(it, obj, name, args, kwargs)
    if isinstance(obj, I.IDict):
        return _dict_method(it, obj, name, args, kwargs)
    if isinstance(obj, I.ISet):
        return _set_method(it, obj, name, args, kwargs)
    if isinstance(obj, str):
        try:
            r = getattr(obj, name)(*[I.NativeValue.unwrap(a) for a in args], **kwargs)
        except (ValueError, TypeError, IndexError, AttributeError) as ex:
            raise I.IRaise(ex)
        return r
    if isinstance(obj, tuple):
        if name == "index":
            return _seq_index(it, list(obj), args[0])
        if name == "count":
            return _seq_count(it, obj, args[0])
    if isinstance(obj, I.DictView):
        if name == "isdisjoint":
            raise SymError("dictview method")
    raise I.IRaise(AttributeError(f"'{type(obj).__name__}' object has no attribute '{name}'"))


def _seq_index(it, lst, x):
    I = _I()
    for i, e in enumerate(lst):
        if e is x or it.decide(it.eq(e, x)):
            return i
    raise I.IRaise(ValueError(f"{I._msgval(x)} is not in list"))


def _seq_count(it, lst, x):
    acc = 0
    for e in lst:
        acc = sym.add(acc, sym.ite(it.eq(e, x), 1, 0) if is_sym(it.eq(e, x)) else (1 if it.eq(e, x) else 0))
    return acc


def _list_method(it, lst, name, args, kwargs):
    I = _I()
    if name == "append":
        lst.append(args[0])
        return None
    if name == "extend":
        lst.extend(_lst(it, args[0]))
        return None
    if name == "insert":
        lst.insert(it.concrete_int(args[0]), args[1])
        return None
    if name == "pop":
        if not lst:
            raise I.IRaise(IndexError("pop from empty list"))
        if args:
            return lst.pop(it.index_of(args[0], len(lst)))
        return lst.pop()
    if name == "remove":
        i = _seq_index(it, lst, args[0])
        del lst[i]
        return None
    if name == "index":
        return _seq_index(it, lst, args[0])
    if name == "count":
        return _seq_count(it, lst, args[0])
    if name == "copy":
        return list(lst)
    if name == "clear":
        old = list(lst)
        lst.clear()
        return None
    if name == "reverse":
        lst.reverse()
        return None
    if name == "sort":
        lst[:] = b_sorted(it, lst, **kwargs)
        return None
    raise I.IRaise(AttributeError(f"'list' object has no attribute '{name}'"))


def _dict_method(it, d, name, args, kwargs):
    I = _I()
    if name == "get":
        i = it.dict_find(d, args[0])
        if i < 0:
            return args[1] if len(args) > 1 else kwargs.get("default", None)
        return d.items_[i][1]
    if name in ("items", "keys", "values"):
        return I.DictView(d, name)
    if name == "pop":
        i = it.dict_find(d, args[0])
        if i < 0:
            if len(args) > 1:
                return args[1]
            raise I.IRaise(KeyError(I._msgval(args[0])))
        v = d.items_[i][1]
        del d.items_[i]
        d._reindex()
        return v
    if name == "update":
        for k, v in args[0].items_:
            it.dict_set(d, k, v)
        return None
    if name == "copy":
        return I.IDict(d.items_)
    if name == "clear":
        old = [v for _, v in d.items_]
        d.items_.clear()
        d._reindex()
        for v in old:
            it.drop_ref(v)
        return None
    if name == "setdefault":
        i = it.dict_find(d, args[0])
        if i < 0:
            it.dict_set(d, args[0], args[1] if len(args) > 1 else None)
            return args[1] if len(args) > 1 else None
        return d.items_[i][1]
    raise I.IRaise(AttributeError(f"'dict' object has no attribute '{name}'"))


def _set_method(it, s, name, args, kwargs):
    I = _I()
    if name == "add":
        if not it.truth(it.contains(s, args[0])):
            s.elems.append(args[0])
        return None
    if name == "update":
        for a in args:
            for x in it.iterate(a):
                if not it.truth(it.contains(s, x)):
                    s.elems.append(x)
        return None
    if name in ("remove", "discard"):
        for i, e in enumerate(s.elems):
            if it.decide(it.eq(e, args[0])):
                del s.elems[i]
                return None
        if name == "remove":
            raise I.IRaise(KeyError(I._msgval(args[0])))
        return None
    if name == "copy":
        return I.ISet(s.elems)
    if name == "union":
        r = I.ISet(s.elems)
        _set_method(it, r, "update", args, {})
        return r
    if name == "intersection":
        other = it.make_set(_lst(it, args[0]))
        return I.ISet([x for x in s.elems if it.truth(it.contains(other, x))])
    raise I.IRaise(AttributeError(f"'set' object has no attribute '{name}'"))


# ------------------------------------------------------------------------------------------------
# numpy front end

def _arr(it, x):
    I = _I()
    if isinstance(x, NDArr):
        return x
    if isinstance(x, (I.LiveIter, I.DictView, I.ISet)):
        x = _lst(it, x)
    if isinstance(x, (I.IObj, I.IDict, str)) or x is None:
        raise SymError("array of objects")
    if isinstance(x, (list, tuple)):
        if x and all(isinstance(e, I.IObj) for e in x):
            return NDArr(list(x), (len(x),), "object")       # 1-D object array (np.concatenate of vertex lists)
        x = _deep_list(it, x)
    return npm.asarray(x)


def _deep_list(it, x):
    I = _I()
    out = []
    for e in x:
        if isinstance(e, (list, tuple)):
            out.append(_deep_list(it, e))
        elif isinstance(e, (I.LiveIter, I.DictView)):
            out.append(_deep_list(it, _lst(it, e)))
        elif isinstance(e, (I.IObj, I.IDict, str)):
            raise SymError("array of objects")
        else:
            out.append(e)
    return out


def _ret(a):
    return npm.unwrap0(a)


def np_array(it, x, dtype=None):
    a = _arr(it, x)
    a = a.copy() if isinstance(x, NDArr) else a
    if dtype is not None:
        a = _astype(it, a, dtype)
    return a


def _astype(it, a, dtype):
    if isinstance(dtype, ModelFn) and dtype.name == "int" or dtype == "int":
        return npm.unary(sym.to_int, a, "int")
    if isinstance(dtype, ModelFn) and dtype.name == "bool":
        return npm.unary(lambda x: _as_bool(it, x), a, "bool")
    if isinstance(dtype, ModelFn) and dtype.name == "float" or dtype is FLOAT64 or dtype == "float":
        def f(x):
            if isinstance(x, npm.Uninit):
                return x
            return b_float(it, x)
        return npm.unary(f, a, "float")
    raise SymError("astype " + repr(dtype))


FLOAT64 = _Sentinel("float64")


def np_sum(it, x, axis=None):
    a = _arr(it, x)
    if axis is None:
        return it.sum_list(a.data)
    if a.ndim == 2:
        r, c = a.shape
        if axis == 0:
            return NDArr([it.sum_list([a.data[i * c + j] for i in range(r)]) for j in range(c)], (c,))
        if axis in (1, -1):
            return NDArr([it.sum_list(a.data[i * c:(i + 1) * c]) for i in range(r)], (r,))
    if a.ndim == 1 and axis in (0, -1):
        return it.sum_list(a.data)
    raise SymError("sum axis")


def np_mean(it, x, axis=None):
    a = _arr(it, x)
    if axis is not None:
        raise SymError("mean axis")
    if a.size == 0:
        raise sym.DivByZero()
    return sym.truediv(it.sum_list(a.data), a.size, it.decide)


def np_std(it, x):
    a = _arr(it, x)
    m = np_mean(it, a)
    var = np_mean(it, NDArr([sym.mul(sym.sub(e, m), sym.sub(e, m)) for e in a.data], a.shape))
    return sym.sqrt(var, it.decide)


def np_dot(it, a, b):
    a, b = _arr(it, a), _arr(it, b)
    if a.ndim == 0 or b.ndim == 0:
        return _ret(npm.elementwise(sym.mul, a, b))
    I = _I()
    return it.matmul(a, b)


def np_sign(it, x):
    return _ret(npm.unary(sym.sign, _arr(it, x)))


def np_sqrt(it, x):
    return _ret(npm.unary(lambda e: sym.sqrt(e, it.decide), _arr(it, x), "float"))


def np_arccos(it, x):
    return _ret(npm.unary(lambda e: sym.arccos(e, it.decide), _arr(it, x), "float"))


def np_abs(it, x):
    return _ret(npm.unary(sym.py_abs, _arr(it, x)))


def np_around(it, x, decimals=0):
    return _ret(npm.unary(lambda e: sym.py_round(e, decimals), _arr(it, x)))


def np_diff(it, x):
    a = _arr(it, x)
    if a.ndim != 1:
        raise SymError("diff ndim")
    d = [sym.sub(a.data[i + 1], a.data[i]) for i in range(len(a.data) - 1)]
    return NDArr(d, (len(d),), a.dtype)


def np_gradient(it, x):
    I = _I()
    a = _arr(it, x)
    if a.ndim != 1:
        raise SymError("gradient ndim")
    n = len(a.data)
    if n < 2:
        raise I.IRaise(ValueError("Shape of array too small to calculate a numerical gradient, at least (edge_order + 1) elements are required."))
    f = a.data
    out = [sym.sub(f[1], f[0])]
    for i in range(1, n - 1):
        out.append(sym.truediv(sym.sub(f[i + 1], f[i - 1]), 2, it.decide))
    out.append(sym.sub(f[n - 1], f[n - 2]))
    return NDArr(out, (n,), "float")


def np_any(it, x, axis=None):
    a = _arr(it, x)
    if axis is not None:
        return _reduce_axis(it, a, axis, lambda xs: sym.b_or(*[_as_bool(it, e) for e in xs]), "bool")
    return sym.b_or(*[_as_bool(it, e) for e in a.data])


def np_all(it, x, axis=None):
    a = _arr(it, x)
    if axis is not None:
        return _reduce_axis(it, a, axis, lambda xs: sym.b_and(*[_as_bool(it, e) for e in xs]), "bool")
    return sym.b_and(*[_as_bool(it, e) for e in a.data])


def _reduce_axis(it, a, axis, f, dtype):
    if a.ndim == 1:
        return f(a.data)
    if a.ndim != 2:
        raise SymError("reduce ndim")
    r, c = a.shape
    if axis == 0:
        return NDArr([f([a.data[i * c + j] for i in range(r)]) for j in range(c)], (c,), dtype)
    return NDArr([f(a.data[i * c:(i + 1) * c]) for i in range(r)], (r,), dtype)


def _nz(it, e):
    if isinstance(e, npm.Uninit):
        raise SymError("read of uninitialised np.empty cell")
    b = _as_bool(it, e)
    return sym.ite(b, 1, 0) if is_sym(b) else (1 if b else 0)


def np_count_nonzero(it, x, axis=None):
    a = _arr(it, x)
    if axis is not None:
        return _reduce_axis(it, a, axis, lambda xs: it.sum_list([_nz(it, e) for e in xs]), "int")
    return it.sum_list([_nz(it, e) for e in a.data])


def np_where(it, cond):
    a = _arr(it, cond)
    if a.ndim != 1:
        raise SymError("where ndim")
    idx = [i for i, e in enumerate(a.data) if it.truth(e)]     # forks on symbolic entries
    return (NDArr(idx, (len(idx),), "int"),)


def np_concatenate(it, arrs, axis=0):
    return npm.concatenate([_arr(it, a) for a in it.iterate(arrs)], axis)


def np_vstack(it, arrs):
    return npm.vstack([_arr(it, a) for a in it.iterate(arrs)])


def np_hstack(it, arrs):
    return npm.hstack([_arr(it, a) for a in it.iterate(arrs)])


def np_append(it, a, v):
    return npm.append(_arr(it, a), _arr(it, v))


def np_insert(it, a, idx, v):
    if isinstance(idx, (list, tuple, NDArr)):
        # numpy: every index refers to a position of the ORIGINAL array; the value is inserted before it (stable for equal indices)
        arr = _arr(it, a)
        if arr.ndim != 1:
            raise SymError("insert ndim")
        ids = [it.concrete_int(i) for i in _arr(it, idx).data]
        n = len(arr.data)
        vals = _arr(it, v).data if isinstance(v, (list, tuple, NDArr)) else [v] * len(ids)
        if len(vals) != len(ids):
            vals = [vals[0]] * len(ids) if len(vals) == 1 else None
        if vals is None:
            raise SymError("np.insert values/indices shapes")
        norm = []
        for i in ids:
            if i < -n or i > n:
                raise _I().IRaise(IndexError(f"index {i} is out of bounds for axis 0 with size {n}"))
            norm.append(i + n if i < 0 else i)
        out = []
        order = sorted(range(len(norm)), key=lambda k: norm[k])
        pos = 0
        for k in order:
            out.extend(arr.data[pos:norm[k]])
            pos = max(pos, norm[k])
            out.append(vals[k])
        out.extend(arr.data[pos:])
        return NDArr(out, (len(out),), arr.dtype)
    return npm.insert(_arr(it, a), it.concrete_int(idx), v)


def np_delete(it, a, idx, axis=None):
    if is_sym(npm.unwrap0(idx)):
        raise SymError("np.delete at a symbolic index")
    if isinstance(idx, (list, NDArr)):
        idx = [it.concrete_int(i) for i in _arr(it, idx).data]
    return npm.delete(_arr(it, a), idx, axis)


def np_roll(it, a, k):
    return npm.roll(_arr(it, a), k)


def np_split(it, a, idx):
    return npm.split(_arr(it, a), _arr(it, idx))


def np_clip(it, x, lo, hi):
    def f(e):
        e = sym.ite(sym.lt(e, lo), lo, e)
        return sym.ite(sym.gt(e, hi), hi, e)
    return _ret(npm.unary(f, _arr(it, x)))


def np_max(it, x, axis=None):
    a = _arr(it, x)
    if a.size == 0:
        raise _I().IRaise(ValueError("zero-size array to reduction operation maximum which has no identity"))
    return _minmax(it, (a.data,), {}, True)


def np_min(it, x, axis=None):
    a = _arr(it, x)
    if a.size == 0:
        raise _I().IRaise(ValueError("zero-size array to reduction operation minimum which has no identity"))
    return _minmax(it, (a.data,), {}, False)


def np_argmax(it, x):
    a = _arr(it, x)
    if a.size == 0:
        raise _I().IRaise(ValueError("attempt to get argmax of an empty sequence"))
    best = 0
    for i in range(1, a.size):
        if it.decide(sym.gt(a.data[i], a.data[best])):
            best = i
    return best


def np_hypot(it, a, b):
    def f(x, y):
        return sym.sqrt(sym.add(sym.mul(x, x), sym.mul(y, y)), it.decide)
    return _ret(npm.elementwise(f, _arr(it, a), _arr(it, b)))


def np_cross(it, a, b):
    a, b = _arr(it, a), _arr(it, b)
    if a.shape == (2,) and b.shape == (2,):
        return sym.sub(sym.mul(a.data[0], b.data[1]), sym.mul(a.data[1], b.data[0]))
    if a.shape == (3,) and b.shape == (3,):
        x, y = a.data, b.data
        return NDArr([sym.sub(sym.mul(x[1], y[2]), sym.mul(x[2], y[1])), sym.sub(sym.mul(x[2], y[0]), sym.mul(x[0], y[2])),
                      sym.sub(sym.mul(x[0], y[1]), sym.mul(x[1], y[0]))], (3,))
    raise SymError("np.cross shapes")


def np_cumsum(it, x):
    a = _arr(it, x)
    if a.ndim != 1:
        raise SymError("cumsum ndim")
    out, acc = [], 0
    for e in a.data:
        acc = sym.add(acc, e)
        out.append(acc)
    return NDArr(out, (len(out),), a.dtype)


def _np_order(it, a):
    order = []
    for i in range(len(a.data)):
        pos = len(order)
        while pos > 0 and it.decide(sym.lt(a.data[i], a.data[order[pos - 1]])):
            pos -= 1
        order.insert(pos, i)
    return order


def np_sort(it, x):
    a = _arr(it, x)
    if a.ndim != 1:
        raise SymError("sort ndim")
    return NDArr([a.data[i] for i in _np_order(it, a)], a.shape, a.dtype)


def np_argsort(it, x, kind=None):
    a = _arr(it, x)
    if a.ndim != 1:
        raise SymError("argsort ndim")
    if any(is_sym(e) for e in a.data) and kind not in ("stable", "mergesort"):
        raise SymError("np.argsort of symbolic values without kind='stable' (the order of ties is unspecified)")
    o = _np_order(it, a)
    return NDArr(o, (len(o),), "int")


def np_array_equal(it, a, b):
    a, b = _arr(it, a), _arr(it, b)
    if a.shape != b.shape:
        return False
    return sym.b_and(*[_as_bool(it, sym.eq(x, y)) for x, y in zip(a.data, b.data)]) if a.data else True


def np_isfinite(it, x):
    def f(e):
        return not (isinstance(e, float) and (_math.isnan(e) or _math.isinf(e)))
    return _ret(npm.unary(f, _arr(it, x), "bool"))


def np_flatnonzero(it, x):
    a = _arr(it, x)
    idx = [i for i, e in enumerate(a.data) if it.truth(e)]
    return NDArr(idx, (len(idx),), "int")


def np_argmin(it, x):
    a = _arr(it, x)
    if a.size == 0:
        raise _I().IRaise(ValueError("attempt to get argmin of an empty sequence"))
    best = 0
    for i in range(1, a.size):
        if it.decide(sym.lt(a.data[i], a.data[best])):       # first minimum, as numpy
            best = i
    return best


_median_ctr = [0]


def np_median(it, x):
    """exact characterisation for an odd number of values: a member with at least (n+1)/2 values on
    either side; even n: mean of the two middle order statistics (not needed by forsys windows)"""
    a = _arr(it, x)
    n = a.size
    if n == 0:
        raise sym.DivByZero()
    vals = a.data
    if all(not is_sym(v) for v in vals):
        s = sorted(vals)
        return s[n // 2] if n % 2 else sym.truediv(sym.add(s[n // 2 - 1], s[n // 2]), 2, it.decide)
    if n % 2 == 0:
        raise SymError("median of an even number of symbolic values")
    _median_ctr[0] += 1
    m = z3.Real(f"median_{_median_ctr[0]}")
    zs = [sym.to_real(v) for v in vals]
    half = (n + 1) // 2
    sym.emit_fact(z3.And(z3.Or(*[m == v for v in zs]),
                         z3.Sum([z3.If(v <= m, 1, 0) for v in zs]) >= half,
                         z3.Sum([z3.If(v >= m, 1, 0) for v in zs]) >= half), "A-median(exact, odd n)")
    return m


def np_isnan(it, x):
    def f(e):
        return isinstance(e, float) and _math.isnan(e)
    return _ret(npm.unary(f, _arr(it, x), "bool"))


def np_isclose(it, a, b, rtol=1e-05, atol=1e-08, equal_nan=False):
    """numpy's definition over the reals: |a - b| <= atol + rtol * |b|  (finite values; A-real)"""
    from fractions import Fraction as _F
    rt, at = _F(str(rtol)), _F(str(atol))

    def f(x, y):
        return sym.le(sym.py_abs(sym.sub(x, y)), sym.add(at, sym.mul(rt, sym.py_abs(y))))
    return _ret(npm.elementwise(f, _arr(it, a), _arr(it, b), "bool"))


def np_allclose(it, a, b, rtol=1e-05, atol=1e-08, equal_nan=False):
    r = np_isclose(it, a, b, rtol, atol)
    return sym.b_and(*[_as_bool(it, e) for e in (r.data if isinstance(r, NDArr) else [r])])


def np_linspace(it, a, b, n=50):
    n = it.concrete_int(n)
    if n == 1:
        return NDArr([a], (1,))
    step = sym.truediv(sym.sub(b, a), n - 1, it.decide)
    d = [sym.add(a, sym.mul(step, i)) for i in range(n - 1)] + [b]
    return NDArr(d, (n,))


def np_norm(it, x):
    a = _arr(it, x)
    return sym.sqrt(it.sum_list([sym.mul(e, e) for e in a.data]), it.decide)


def np_intersect1d(it, a, b):
    a, b = _arr(it, a), _arr(it, b)
    if any(is_sym(v) for v in a.data + b.data):
        raise SymError("intersect1d on symbolic ids")
    r = sorted(set(a.data) & set(b.data))
    return NDArr(r, (len(r),), "int")


def np_nonzero(it, x):
    a = _arr(it, x)
    if a.ndim != 1:
        raise SymError("nonzero ndim")
    idx = [i for i, e in enumerate(a.data) if it.truth(e)]
    return (NDArr(idx, (len(idx),), "int"),)


def np_transpose(it, x):
    return npm.transpose(_arr(it, x))


def _np_table():
    t = {}
    for n, f in [("array", np_array), ("asarray", np_array), ("sum", np_sum), ("mean", np_mean), ("std", np_std),
                 ("dot", np_dot), ("sign", np_sign), ("sqrt", np_sqrt), ("arccos", np_arccos), ("abs", np_abs),
                 ("around", np_around), ("round", np_around), ("diff", np_diff), ("gradient", np_gradient),
                 ("any", np_any), ("all", np_all), ("count_nonzero", np_count_nonzero), ("where", np_where),
                 ("concatenate", np_concatenate), ("vstack", np_vstack), ("hstack", np_hstack),
                 ("append", np_append), ("insert", np_insert), ("delete", np_delete), ("roll", np_roll),
                 ("split", np_split), ("clip", np_clip), ("max", np_max), ("min", np_min), ("argmax", np_argmax),
                 ("median", np_median), ("isnan", np_isnan), ("linspace", np_linspace),
                 ("intersect1d", np_intersect1d), ("nonzero", np_nonzero), ("transpose", np_transpose),
                 ("isclose", np_isclose), ("allclose", np_allclose), ("argmin", np_argmin), ("hypot", np_hypot), ("cross", np_cross),
                 ("cumsum", np_cumsum), ("sort", np_sort), ("argsort", np_argsort), ("array_equal", np_array_equal), ("isfinite", np_isfinite), ("flatnonzero", np_flatnonzero)]:
        t[n] = ModelFn("np." + n, f)
    t["zeros"] = ModelFn("np.zeros", lambda it, shape, dtype="float": npm.zeros(_shape(it, shape)))
    t["ones"] = ModelFn("np.ones", lambda it, shape: npm.ones(_shape(it, shape)))
    def np_empty(it, shape=None, dtype=None):
        sh = npm.unwrap0(shape)
        if is_sym(sym.concretize(sh)) if not isinstance(sh, (tuple, list)) else False:
            from . import modeb
            return modeb.SymSeq(sh, array=modeb.fresh("empty", z3.ArraySort(z3.IntSort(), z3.RealSort())), name="empty")
        return npm.empty(_shape(it, shape))
    t["empty"] = ModelFn("np.empty", np_empty)
    t["arange"] = ModelFn("np.arange", lambda it, *a: npm.arange(*[it.concrete_int(x) for x in a]))
    t["seterr"] = ModelFn("np.seterr", lambda it, **k: None)
    t["pi"] = PI_VALUE
    t["inf"] = float("inf")
    t["nan"] = float("nan")
    t["float64"] = FLOAT64
    t["ndarray"] = NDARRAY_T
    I = _I()
    t["linalg"] = LibModule("numpy.linalg", {"norm": ModelFn("np.linalg.norm", np_norm),
                                             "LinAlgError": LinAlgError})
    return t


class LinAlgError(ValueError):
    pass


class _Pi:
    """np.pi: the symbolic constant pi_ with 3.14159 < pi_ < 3.1416 (fact emitted on first use)"""


def _shape(it, s):
    if isinstance(s, (tuple, list)):
        return tuple(it.concrete_int(x) for x in s)
    return (it.concrete_int(s),)


def pi_value():
    sym.emit_fact(z3.And(sym.PI > z3.RealVal("3.14159"), sym.PI < z3.RealVal("3.1416")), "A-pi")
    return sym.PI


class _LazyConst:
    def __init__(self, f):
        self.f = f


PI_VALUE = _LazyConst(pi_value)


def ndarray_attr(it, a, name):
    I = _I()
    if name == "shape":
        return a.shape
    if name == "T":
        return npm.transpose(a)
    if name == "size":
        return a.size
    if name == "ndim":
        return a.ndim
    if name == "dtype":
        return BUILTINS["float"] if a.dtype == "float" else BUILTINS["int"]
    table = {
        "astype": lambda it_, dtype: _astype(it, a, dtype),
        "flatten": lambda it_: npm.flatten(a),
        "ravel": lambda it_: npm.flatten(a),
        "round": lambda it_, k=0: npm.unary(lambda e: sym.py_round(e, k), a),
        "reshape": lambda it_, *s: npm.reshape(a, s[0] if len(s) == 1 and isinstance(s[0], (tuple, list)) else s),
        "tolist": lambda it_: a.tolist(),
        "sum": lambda it_, axis=None: np_sum(it, a, axis),
        "mean": lambda it_: np_mean(it, a),
        "std": lambda it_: np_std(it, a),
        "max": lambda it_: np_max(it, a),
        "min": lambda it_: np_min(it, a),
        "any": lambda it_, axis=None: np_any(it, a, axis),
        "all": lambda it_, axis=None: np_all(it, a, axis),
        "copy": lambda it_: a.copy(),
        "dot": lambda it_, b: np_dot(it, a, b),
        "item": lambda it_: a.data[0],
        "transpose": lambda it_: npm.transpose(a),
    }
    if name in table:
        return ModelFn("ndarray." + name, table[name])
    raise I.IRaise(AttributeError(f"'numpy.ndarray' object has no attribute '{name}'"))


def scalar_attr(it, x, name):
    I = _I()
    if name == "round":
        return ModelFn("scalar.round", lambda it_, k=0: sym.py_round(x, k))
    if name == "astype":
        return ModelFn("scalar.astype", lambda it_, dtype: _astype(it, npm.asarray(x), dtype).data[0])
    if name in ("item", "flatten", "tolist"):
        return ModelFn("scalar." + name, lambda it_: x)
    if name == "real":
        return x
    if name == "insert" or name == "append":
        raise I.IRaise(AttributeError(f"'float' object has no attribute '{name}'"))
    raise I.IRaise(AttributeError(f"'{type(x).__name__}' object has no attribute '{name}'"))


# ------------------------------------------------------------------------------------------------
# other libraries

def _itertools_table():
    I = _I()

    def chain_from_iterable(it, xs):
        out = []
        for x in it.iterate(xs):
            out.extend(it.iterate(x))
        return out

    class Chain:
        def fvc_getattr(self, it, name):
            if name == "from_iterable":
                return ModelFn("itertools.chain.from_iterable", chain_from_iterable)
            raise SymError("itertools.chain." + name)

        def fvc_call(self, it, args, kwargs):
            out = []
            for x in args:
                out.extend(it.iterate(x))
            return out

    return {
        "combinations": ModelFn("itertools.combinations", lambda it, xs, r: [tuple(c) for c in _it.combinations(_lst(it, xs), it.concrete_int(r))]),
        "product": ModelFn("itertools.product", lambda it, *xs, repeat=1: [tuple(c) for c in _it.product(*[_lst(it, x) for x in xs], repeat=repeat)]),
        "permutations": ModelFn("itertools.permutations", lambda it, xs, r=None: [tuple(c) for c in _it.permutations(_lst(it, xs), r)]),
        "chain": Chain(),
    }


def _copy_shallow(it, x):
    I = _I()
    if isinstance(x, list):
        return list(x)
    if isinstance(x, I.IDict):
        return I.IDict(x.items_)
    if isinstance(x, I.ISet):
        return I.ISet(x.elems)
    if isinstance(x, NDArr):
        return x.copy()
    if isinstance(x, I.IObj):
        o = I.IObj(x.cls)
        o.attrs = dict(x.attrs)
        return o
    return x


def _copy_deep(it, x):
    I = _I()
    if isinstance(x, list):
        return [_copy_deep(it, e) for e in x]
    if isinstance(x, tuple):
        return tuple(_copy_deep(it, e) for e in x)
    if isinstance(x, I.IDict):
        return I.IDict([(k, _copy_deep(it, v)) for k, v in x.items_])
    if isinstance(x, NDArr):
        return x.copy()
    if isinstance(x, I.IObj):
        raise SymError("deepcopy of object")
    return x


class _Subscriptable:
    def fvc_getitem(self, it, key):
        return self


def _field(it, default=None, default_factory=None, **kw):
    I = _I()
    if default_factory is not None:
        return I.FieldSpec("factory", default_factory)
    return I.FieldSpec("default", default)


_LIBS = {}


def library_module(dotted):
    I = _I()
    if dotted in _LIBS:
        return _LIBS[dotted]
    if dotted == "numpy":
        m = LibModule("numpy", _np_table())
    elif dotted == "itertools":
        m = LibModule("itertools", _itertools_table())
    elif dotted == "copy":
        m = LibModule("copy", {"copy": ModelFn("copy.copy", _copy_shallow), "deepcopy": ModelFn("copy.deepcopy", _copy_deep)})
    elif dotted == "dataclasses":
        m = LibModule("dataclasses", {"dataclass": DATACLASS, "field": ModelFn("dataclasses.field", _field)})
    elif dotted == "typing":
        s = _Subscriptable()
        m = LibModule("typing", {k: s for k in ["Tuple", "Union", "Optional", "List", "Dict", "Any"]})
    elif dotted == "warnings":
        m = LibModule("warnings", {"warn": ModelFn("warnings.warn", lambda it, *a, **k: None)})
    elif dotted == "math":
        m = LibModule("math", {"ceil": ModelFn("math.ceil", _ceil), "sqrt": ModelFn("math.sqrt", lambda it, x: sym.sqrt(x, it.decide)),
                               "pi": PI_VALUE,
                               "hypot": ModelFn("math.hypot", lambda it, x, y: sym.sqrt(sym.add(sym.mul(x, x), sym.mul(y, y)), it.decide)),
                               "fabs": ModelFn("math.fabs", lambda it, x: sym.py_abs(x)),
                               "floor": ModelFn("math.floor", lambda it, x: _math.floor(x) if not is_sym(x) else sym.concretize(z3.ToInt(sym.to_arith(x)))),
                               "isclose": ModelFn("math.isclose", _math_isclose)})
    elif dotted == "os":
        import os
        m = LibModule("os", {"path": LibModule("os.path", {"join": ModelFn("os.path.join", lambda it, *a: os.path.join(*a))})})
    elif dotted == "pandas":
        m = LibModule("pandas", _pandas_table())
    elif dotted == "re":
        import re
        def _re(fname):
            def f(it, *a, **k):
                if not all(isinstance(x, (str, int)) for x in a) or k:
                    raise SymError(f"re.{fname} on a non-concrete argument")
                return I.NativeValue.wrap(getattr(re, fname)(*a))
            return ModelFn("re." + fname, f)
        m = LibModule("re", {"search": ModelFn("re.search", lambda it, p, s: I.NativeValue.wrap(re.search(p, s))),
                             "findall": _re("findall"), "match": _re("match"), "fullmatch": _re("fullmatch"), "split": _re("split"), "sub": _re("sub")})
    else:
        m = I.OpaqueModule(dotted)
    _LIBS[dotted] = m
    return m


def _math_isclose(it, a, b, rel_tol=1e-09, abs_tol=0.0):
    from fractions import Fraction as _F
    rt, at = _F(str(rel_tol)), _F(str(abs_tol))
    d = sym.py_abs(sym.sub(a, b))
    return sym.b_or(_as_bool(it, sym.le(d, sym.mul(rt, sym.py_abs(a)))), _as_bool(it, sym.le(d, sym.mul(rt, sym.py_abs(b)))), _as_bool(it, sym.le(d, at)))


def _ceil(it, x):
    if not is_sym(x):
        return _math.ceil(x)
    zx = sym.to_arith(x)
    if z3.is_int(zx):
        return zx
    return sym.concretize(-z3.ToInt(-zx))


# ------------------------------------------------------------------------------------------------
# pandas: the handful of DataFrame operations frames.py uses to tabulate results (A-pandas: they do what the pandas
# documentation says; the model is conformance-tested against the real pandas through the native runs)

class SeriesModel:
    def __init__(self, values):
        self.values = list(values)

    def fvc_getattr(self, it, name):
        I = _I()
        if name == "isin":
            return ModelFn("Series.isin", lambda it_, vals: SeriesModel([it.truth(it.contains(_lst(it, vals), v)) for v in self.values]))
        if name == "values":
            return NDArr(self.values, (len(self.values),))
        if name == "tolist":
            return ModelFn("Series.tolist", lambda it_: list(self.values))
        if name == "mean":
            return ModelFn("Series.mean", lambda it_: np_mean(it, self.values))
        if name == "sum":
            return ModelFn("Series.sum", lambda it_: it.sum_list(self.values))
        if name == "round":
            return ModelFn("Series.round", lambda it_, k=0: SeriesModel([sym.py_round(v, k) for v in self.values]))
        raise SymError("Series." + name)

    def fvc_invert(self, it):
        return SeriesModel([sym.b_not(v) for v in self.values])

    def fvc_iter(self, it):
        return iter(list(self.values))

    def fvc_len(self, it):
        return len(self.values)


class DataFrameModel:
    def __init__(self, columns=None):
        self.columns = dict(columns or {})          # name -> list (insertion ordered)

    def nrows(self):
        for v in self.columns.values():
            return len(v)
        return 0

    def fvc_setitem(self, it, key, value):
        I = _I()
        vals = list(value.data) if isinstance(value, NDArr) else (list(value.values) if isinstance(value, SeriesModel) else _lst(it, value))
        if self.columns and len(vals) != self.nrows():
            raise I.IRaise(ValueError(f"Length of values ({len(vals)}) does not match length of index ({self.nrows()})"))
        self.columns[key] = vals

    def fvc_getitem(self, it, key):
        I = _I()
        if isinstance(key, SeriesModel):
            mask = [it.truth(m) for m in key.values]
            return DataFrameModel({c: [v for v, m in zip(vals, mask) if m] for c, vals in self.columns.items()})
        if key not in self.columns:
            raise I.IRaise(KeyError(key))
        return SeriesModel(self.columns[key])

    def fvc_getattr(self, it, name):
        I = _I()
        if name == "rename":
            def rename(it_, columns=None):
                mp = {k: v for k, v in columns.items_}
                return DataFrameModel({mp.get(c, c): vals for c, vals in self.columns.items()})
            return ModelFn("DataFrame.rename", rename)
        if name == "loc":
            return self
        if name == "iterrows":
            return ModelFn("DataFrame.iterrows", lambda it_: [(i, I.IDict([(c, vals[i]) for c, vals in self.columns.items()])) for i in range(self.nrows())])
        if name in self.columns:
            return SeriesModel(self.columns[name])
        raise SymError("DataFrame." + name)

    def fvc_len(self, it):
        return self.nrows()


def _pandas_table():
    def from_dict(it, data, **kw):
        rows = [_lst(it, r) for r in _lst(it, data)]
        ncol = len(rows[0]) if rows else 0
        return DataFrameModel({j: [r[j] for r in rows] for j in range(ncol)})

    class DFClass:
        def fvc_call(self, it, args, kwargs):
            I = _I()
            if not args and not kwargs:
                return DataFrameModel()
            if args and isinstance(args[0], I.IDict):
                return DataFrameModel({k: (list(v.data) if isinstance(v, NDArr) else _lst(it, v)) for k, v in args[0].items_})
            raise SymError("pandas.DataFrame(...) form")

        def fvc_getattr(self, it, name):
            if name == "from_dict":
                return ModelFn("DataFrame.from_dict", from_dict)
            raise SymError("pandas.DataFrame." + name)
    return {"DataFrame": DFClass()}
