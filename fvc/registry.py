"""Registry of obligations (contracts on repo units), lemmas and bounded stand-ins."""
import importlib
import pkgutil

OBLIGATIONS = {}      # id -> Obligation
BOUNDED = {}          # id -> Bounded
LEMMAS = {}


class Obligation:
    def __init__(self, oid, props, units, tier, title, instances, known=None, thorough_only=False):
        self.id, self.props, self.units, self.tier, self.title = oid, props, units, tier, title
        self.instances = instances        # callable(tier) -> list[(label, harness)]
        self.known = known or {}          # label -> known-finding id (instance expected to be refuted)
        self.thorough_only = thorough_only


def obligation(oid, props, units, title, tier="P", known=None):
    """decorator on a function `instances(tier) -> [(label, harness), ...]`"""
    def deco(fn):
        if oid in OBLIGATIONS:
            raise RuntimeError("duplicate obligation " + oid)
        OBLIGATIONS[oid] = Obligation(oid, props, units, tier, title, fn, known)
        return fn
    return deco


class LeanCheck:
    """an obligation discharged by the Lean 4 kernel: `lean <file>` must accept every theorem of the file.
    thorough tier: re-checked from source.  quick tier: the file's sha256 must equal the one recorded by the last
    successful thorough run (lean/checked.json) - cold Mathlib start-up (~2 min) does not fit the quick budget."""

    def __init__(self, path, theorems):
        self.path, self.theorems = path, theorems


class Bounded:
    def __init__(self, bid, props, title, fn, bound):
        self.id, self.props, self.title, self.fn, self.bound = bid, props, title, fn, bound


def bounded(bid, props, title, bound):
    """decorator on `run(tier, seed) -> dict(evaluations, distinct_nontrivial, rule, samples, failures, known)`"""
    def deco(fn):
        BOUNDED[bid] = Bounded(bid, props, title, fn, bound)
        return fn
    return deco


def load_all():
    import contracts
    for m in pkgutil.iter_modules(contracts.__path__):
        importlib.import_module("contracts." + m.name)
    try:
        import bounded as bpk
        for m in pkgutil.iter_modules(bpk.__path__):
            if m.name.startswith("b_"):
                importlib.import_module("bounded." + m.name)
    except ImportError:
        pass
