"""Mode b: sequences of symbolic length and loops cut at user-supplied inductive invariants (no bound on the length).

SymSeq      a sequence whose length is a z3 Int term and whose elements are given by a getter index-term -> value
            (backed by a z3 array for writable numeric sequences).
Loop rule   for `for x in <SymSeq | enumerate(SymSeq) | range(symbolic)>` the interpreter asks the World for the invariant registered
            for (function qualname, ordinal of the loop in the function).  The path then makes a nondeterministic choice:
              branch 0 (preservation): VC inv(0) on entry; havoc the modified variables; assume 0 <= k < n and inv(k); run the body once
                                       (a `return` inside the body continues to the caller's postcondition, `break` leaves the loop);
                                       VC inv(k+1); the path ends there.
              branch 1 (exit):          havoc the modified variables; assume inv(n); continue after the loop.
            Entry / preservation / exit are the classical three obligations; together with the harness's `ensure` after the call they
            prove the postcondition for every length.
"""
import z3

from . import sym
from .sym import SymError

_ctr = [0]


def fresh(prefix, sort):
    _ctr[0] += 1
    return z3.Const(f"{prefix}!{_ctr[0]}", sort)


class SymSeq:
    """immutable view (getter) or writable numeric sequence (array)"""

    def __init__(self, length, getter=None, array=None, name="seq"):
        self.length, self.getter, self.array, self.name = length, getter, array, name

    def at(self, idx):
        if self.array is not None:
            return z3.Select(self.array, sym.to_arith(idx))
        return self.getter(sym.to_arith(idx) if not isinstance(idx, int) else z3.IntVal(idx))

    # interpreter protocol ---------------------------------------------------------------------------------------------------------
    def fvc_len(self, it):
        return self.length

    def _index(self, it, key):
        from .interp import IRaise
        if isinstance(key, slice):
            raise SymError("slice of a symbolic-length sequence")
        k = sym.to_arith(key)
        n = sym.to_arith(self.length)
        if it.decide(z3.And(k >= 0, k < n)):
            return k
        if it.decide(z3.And(k < 0, k >= -n)):
            return k + n
        raise IRaise(IndexError("index out of range"))

    def fvc_getitem(self, it, key):
        return self.at(self._index(it, key))

    def fvc_setitem(self, it, key, value):
        if self.array is None:
            raise SymError("assignment into a read-only symbolic sequence")
        k = self._index(it, key)
        self.array = z3.Store(self.array, k, sym.to_real(value) if z3.is_real(self.array.range().cast(0)) or self.array.range() == z3.RealSort() else sym.to_arith(value))

    def fvc_getattr(self, it, name):
        from .lib import BUILTINS
        if name == "dtype":
            return BUILTINS["float"]
        raise SymError("attribute " + name + " of a symbolic-length sequence")

    def fvc_iter(self, it):
        raise SymError("iteration over a symbolic-length sequence outside a loop with an invariant")

    def havoc(self):
        # in place: the caller's references (a list mutated through a parameter) keep seeing the same object
        if self.array is not None:
            self.array = fresh(self.name, self.array.sort())
        return self


class SymMap:
    """a dict with integer keys and real values known through two arrays: dom (key -> present?) and val"""

    def __init__(self, dom=None, val=None, name="map"):
        self.dom = dom if dom is not None else z3.K(z3.IntSort(), z3.BoolVal(False))
        self.val = val if val is not None else z3.K(z3.IntSort(), z3.RealVal(0))
        self.name = name

    def has(self, k):
        return z3.Select(self.dom, sym.to_arith(k))

    def at(self, k):
        return z3.Select(self.val, sym.to_arith(k))

    def fvc_setitem(self, it, key, value):
        k = sym.to_arith(key)
        self.dom = z3.Store(self.dom, k, z3.BoolVal(True))
        self.val = z3.Store(self.val, k, sym.to_real(value))

    def fvc_getitem(self, it, key):
        from .interp import IRaise
        if it.decide(self.has(key)):
            return self.at(key)
        raise IRaise(KeyError(str(key)))

    def fvc_contains(self, it, x):
        return self.has(x)

    def havoc(self):
        self.dom, self.val = fresh(self.name + "_dom", self.dom.sort()), fresh(self.name + "_val", self.val.sort())
        return self


class SymEnumerate:
    def __init__(self, seq):
        self.seq = seq


class SymRange:
    def __init__(self, lo, hi):
        self.lo, self.hi = lo, hi


class AbsSet:
    """a set known only through its membership predicate"""

    def __init__(self, pred):
        self.pred = pred

    def fvc_contains(self, it, x):
        return self.pred(sym.to_arith(x))


class PathEnd(Exception):
    """the preservation branch of a loop ends here (not an error)"""


def loop_length(iterable):
    if isinstance(iterable, SymSeq):
        return iterable.length
    if isinstance(iterable, SymEnumerate):
        return iterable.seq.length
    if isinstance(iterable, SymRange):
        return sym.sub(iterable.hi, iterable.lo)
    return None


def loop_item(iterable, k):
    if isinstance(iterable, SymSeq):
        return iterable.at(k)
    if isinstance(iterable, SymEnumerate):
        return (k, iterable.seq.at(k))
    return sym.add(iterable.lo, k)


def abstract_value(name, v):
    """the representation a modified variable has while the loop is cut (an empty / numeric dict becomes a SymMap)"""
    from .interp import IDict
    if isinstance(v, IDict):
        m = SymMap(name=name)
        for k, x in v.items_:
            m.fvc_setitem(None, k, x)
        return m
    return v


def havoc_value(name, v):
    if isinstance(v, (SymSeq, SymMap)):
        return v.havoc()
    if isinstance(v, bool) or sym.is_symbool(v):
        return fresh(name, z3.BoolSort())
    if isinstance(v, int) or (sym.is_sym(v) and z3.is_int(v)):
        return fresh(name, z3.IntSort())
    if isinstance(v, float) or sym.is_sym(v):
        return fresh(name, z3.RealSort())
    raise SymError(f"cannot havoc loop variable {name} of type {type(v).__name__}")
