"""AST interpreter of the fvc symbolic executor.

Executes the *real* source of /repo/forsys (parsed on every run, see extract.py) over values that
are concrete Python objects or z3 terms.  One instance executes one path; symbolic branch conditions
are decided by `path.decide` (harness.py), which forks by re-execution with a decision trace.

Python subset and its semantics are documented in DESIGN.md section 2.2.  Anything outside raises
SymError, which is reported as `out-of-subset` (undecided) and never as a violation.
"""
import ast
import os
import builtins as _bi
import itertools as _it
import copy as _copy
import math as _math
from fractions import Fraction

import z3

from . import sym
from .sym import SymError, is_sym
from . import npmodel as npm
from .npmodel import NDArr


# ------------------------------------------------------------------------------------------------
# control-flow signals and program-level exceptions

class _Return(Exception):
    def __init__(self, value):
        self.value = value


class _Break(Exception):
    pass


class _Continue(Exception):
    pass


class IRaise(Exception):
    """an exception raised by the program under verification (carries a real exception instance)"""
    def __init__(self, exc):
        Exception.__init__(self, repr(exc))
        self.exc = exc


# ------------------------------------------------------------------------------------------------
# runtime objects of interpreted code

class Env:
    __slots__ = ("vars", "parent")

    def __init__(self, parent=None, vars=None):
        self.vars = {} if vars is None else vars
        self.parent = parent

    def lookup(self, name):
        e = self
        while e is not None:
            if name in e.vars:
                return e.vars[name]
            e = e.parent
        raise KeyError(name)

    def has(self, name):
        e = self
        while e is not None:
            if name in e.vars:
                return True
            e = e.parent
        return False


class IModule:
    def __init__(self, name):
        self.name = name
        self.env = Env()

    def __repr__(self):
        return f"<imodule {self.name}>"


class IFunc:
    def __init__(self, node, env, module, qualname, defaults, kw_defaults, is_gen):
        self.node, self.env, self.module, self.qualname = node, env, module, qualname
        self.defaults, self.kw_defaults, self.is_gen = defaults, kw_defaults, is_gen
        self.is_static = False

    def __repr__(self):
        return f"<ifunc {self.module.name}:{self.qualname}>"


class IClass:
    def __init__(self, name, bases, module):
        self.name, self.bases, self.module = name, bases, module
        self.attrs = {}
        self.is_dataclass = False
        self.fields = []          # (name, kind, payload)  kind in {"required","default","factory"}
        self.qualname = name

    def lookup(self, name):
        if name in self.attrs:
            return self.attrs[name]
        for b in self.bases:
            if isinstance(b, IClass):
                try:
                    return b.lookup(name)
                except KeyError:
                    pass
        raise KeyError(name)

    def all_fields(self):
        out = []
        for b in self.bases:
            if isinstance(b, IClass):
                out.extend(b.all_fields())
        names = [f[0] for f in out]
        for f in self.fields:
            if f[0] in names:
                out[names.index(f[0])] = f
            else:
                out.append(f)
        return out

    def __repr__(self):
        return f"<iclass {self.name}>"


class _Look:
    """how a loop invariant reads the function's locals: by name, or by role - the unique modified local of a kind
    ("int" counter, "seq" sequence written by index, "map" dictionary) - so that renaming a temporary does not break the proof"""

    def __init__(self, env, modifies):
        self.env, self.modifies = env, list(modifies)

    def __call__(self, name):
        try:
            return self.env.lookup(name)
        except KeyError:
            raise HarnessIncomplete(f"loop invariant reads the local '{name}' which the function does not define (restructured code)")

    def kind(self, kind):
        from . import modeb
        def is_kind(v):
            if kind == "seq":
                return isinstance(v, modeb.SymSeq)
            if kind == "map":
                return isinstance(v, (modeb.SymMap, IDict))
            if kind == "int":
                return (isinstance(v, int) and not isinstance(v, bool)) or (sym.is_sym(v) and z3.is_int(v))
            return False
        hits = [nm for nm in self.modifies if self.env.has(nm) and is_kind(self.env.lookup(nm))]
        if len(hits) != 1:
            raise HarnessIncomplete(f"loop invariant needs exactly one modified local of kind {kind}, the loop has {hits}")
        return self.env.lookup(hits[0])


class HarnessIncomplete(SymError):
    """the proof harness does not supply something the code under contract reads (undecided, never a violation)"""


class IObj:
    _counter = [0]

    def __init__(self, cls):
        self.cls = cls
        self.attrs = {}
        IObj._counter[0] += 1
        self.oid = IObj._counter[0]

    def __repr__(self):
        return f"<{self.cls.name}#{self.oid}>"


class IBound:
    def __init__(self, func, self_obj):
        self.func, self.self_obj = func, self_obj


class FieldSpec:
    def __init__(self, kind, payload):
        self.kind, self.payload = kind, payload


class OpaqueModule:
    """a library the engine has no model for; calls are resolved through registered stubs
    (= assumed contracts) or rejected as out-of-subset"""
    def __init__(self, name):
        self._name = name

    def __repr__(self):
        return f"<opaque {self._name}>"


class OpaqueCallable:
    def __init__(self, name):
        self._name = name

    def __repr__(self):
        return f"<opaque-callable {self._name}>"


class SymStr:
    """a string with symbolic parts; only usable as a message"""
    def __init__(self, parts):
        self.parts = parts

    def __repr__(self):
        return "SymStr(" + "".join(str(p) for p in self.parts) + ")"


class IDict:
    """dict with insertion order; keys may be symbolic (lookup then goes through eq/decide)"""
    def __init__(self, items=None):
        self.items_ = list(items) if items else []
        self._fast = {}
        for i, (k, _) in enumerate(self.items_):
            if _hashable_concrete(k):
                self._fast[_hkey(k)] = i

    def _reindex(self):
        self._fast = {}
        for i, (k, _) in enumerate(self.items_):
            if _hashable_concrete(k):
                self._fast[_hkey(k)] = i

    def __repr__(self):
        return "IDict(" + repr(self.items_) + ")"

    def __len__(self):
        return len(self.items_)


class ISet:
    def __init__(self, elems=None):
        self.elems = list(elems) if elems else []

    def __repr__(self):
        return "ISet(" + repr(self.elems) + ")"

    def __len__(self):
        return len(self.elems)


class DictView:
    _is_idictview = True

    def __init__(self, d, kind):
        self.d, self.kind = d, kind

    def snapshot(self):
        if self.kind == "keys":
            return [k for k, _ in self.d.items_]
        if self.kind == "values":
            return [v for _, v in self.d.items_]
        return [(k, v) for k, v in self.d.items_]

    def __len__(self):
        return len(self.d.items_)


def _hashable_concrete(k):
    if is_sym(k):
        return False
    if isinstance(k, (int, float, str, bool, Fraction)) or k is None:
        return True
    if isinstance(k, tuple):
        return all(_hashable_concrete(x) for x in k)
    return False


def _hkey(k):
    # 1 == 1.0 == True hash alike in Python; keep that
    return k


# ------------------------------------------------------------------------------------------------

class World:
    """Source access + module cache + stubs; shared by all paths of one obligation."""

    def __init__(self, source_loader):
        self.load_source = source_loader        # dotted module name -> (ast.Module, text) or None
        self.stubs = {}                         # "pkg.mod:Qual.name" or "lib.dotted.name" -> callable(interp, args, kwargs)
        self.loop_invariants = {}               # (qualname, ordinal) -> invariant object (mode b)
        self.used_stubs = set()
        self.inlined = set()
        self.exc_classes = {}
        self.gc_model = True                    # A-gc

    def stub(self, name, fn):
        self.stubs[name] = fn


class Interp:
    def __init__(self, world, path):
        self.world = world
        self.path = path
        self.modules = {}
        self.depth = 0
        self.frame_stack = []
        self.pending = []
        self._collecting = False
        self.steps = 0
        self.max_steps = 2_000_000

    # -- decisions ----------------------------------------------------------------------------
    def decide(self, cond):
        if not is_sym(cond):
            return bool(cond)
        c = sym.concretize(cond)
        if not is_sym(c):
            return bool(c)
        return self.path.decide(c)

    def truth(self, v):
        if isinstance(v, bool) or v is None or isinstance(v, (int, float, str, Fraction)):
            return bool(v)
        if is_sym(v):
            if sym.is_symbool(v):
                return self.decide(v)
            return self.decide(sym.to_arith(v) != 0)
        if isinstance(v, NDArr):
            if v.size == 1:
                return self.truth(v.data[0])
            if v.size == 0:
                return False
            raise IRaise(ValueError("The truth value of an array with more than one element is ambiguous"))
        if isinstance(v, (list, tuple, dict, set, IDict, ISet, DictView, range)):
            return len(v) > 0
        if isinstance(v, npm.Uninit):
            raise SymError("truth value of uninitialised np.empty cell")
        return True

    # -- equality -----------------------------------------------------------------------------
    def eq(self, a, b):
        """Python ==, as a (possibly symbolic) boolean"""
        a, b = npm.unwrap0(a), npm.unwrap0(b)
        if a is b and not isinstance(a, float):
            return True
        if isinstance(a, NDArr) or isinstance(b, NDArr):
            return npm.elementwise(lambda x, y: self.eq(x, y), a, b, "bool")
        if a is None or b is None:
            return False
        if sym.is_num(a) or isinstance(a, bool) or sym.is_symbool(a):
            if sym.is_num(b) or isinstance(b, bool) or sym.is_symbool(b):
                return sym.num_eq(a, b)
            return False
        if isinstance(a, str):
            return isinstance(b, str) and a == b
        if isinstance(a, (list, tuple)):
            if type(a) is not type(b) and not (isinstance(b, (list, tuple)) and type(a) == type(b)):
                return False
            if len(a) != len(b):
                return False
            return sym.b_and(*[self.eq(x, y) for x, y in zip(a, b)])
        if isinstance(a, IObj):
            if not isinstance(b, IObj) or a.cls is not b.cls:
                return False
            if a.cls.is_dataclass and "__eq__" not in a.cls.attrs:
                names = [f[0] for f in a.cls.all_fields()]
                return sym.b_and(*[self.eq(a.attrs.get(n), b.attrs.get(n)) for n in names])
            return False
        if isinstance(a, IDict) and isinstance(b, IDict):
            if len(a) != len(b):
                return False
            raise SymError("dict equality")
        if isinstance(a, ISet) and isinstance(b, ISet):
            return sym.b_and(*([self.contains(b, x) for x in a.elems] + [self.contains(a, x) for x in b.elems]))
        if isinstance(a, (IClass, IFunc, type)):
            return a is b
        if isinstance(a, npm.Uninit) or isinstance(b, npm.Uninit):
            raise SymError("read of uninitialised np.empty cell")
        if isinstance(a, range) and isinstance(b, range):
            return a == b
        return False

    def contains(self, container, x):
        if isinstance(container, (list, tuple)):
            return sym.b_or(*[self.eq(e, x) for e in container])
        if isinstance(container, ISet):
            return sym.b_or(*[self.eq(e, x) for e in container.elems])
        if isinstance(container, IDict):
            if _hashable_concrete(x) and all(_hashable_concrete(k) for k, _ in container.items_):
                return _hkey(x) in container._fast
            return sym.b_or(*[self.eq(k, x) for k, _ in container.items_])
        if isinstance(container, DictView):
            if container.kind == "keys":
                return self.contains(container.d, x)
            return self.contains(container.snapshot(), x)
        if isinstance(container, NDArr):
            return sym.b_or(*[self.eq(e, x) for e in container.data])
        if isinstance(container, range):
            if is_sym(x):
                return sym.b_or(*[self.eq(e, x) for e in container])
            return x in container
        if hasattr(container, "fvc_contains"):
            return container.fvc_contains(self, x)
        if isinstance(container, str):
            if isinstance(x, str):
                return x in container
            raise IRaise(TypeError("'in <string>' requires string as left operand"))
        raise SymError(f"'in' on {type(container).__name__}")

    # -- dict helpers -------------------------------------------------------------------------
    def dict_find(self, d, key):
        """index of key in d.items_ or -1 (forks on symbolic equality)"""
        if _hashable_concrete(key):
            i = d._fast.get(_hkey(key), None)
            if i is not None:
                return i
            # key may still equal a symbolic key
            for i, (k, _) in enumerate(d.items_):
                if is_sym(k) and self.decide(self.eq(k, key)):
                    return i
            return -1
        for i, (k, _) in enumerate(d.items_):
            if self.decide(self.eq(k, key)):
                return i
        return -1

    def dict_get(self, d, key):
        i = self.dict_find(d, key)
        if i < 0:
            raise IRaise(KeyError(_msgval(key)))
        return d.items_[i][1]

    def dict_set(self, d, key, value):
        i = self.dict_find(d, key)
        if i < 0:
            d.items_.append((key, value))
            if _hashable_concrete(key):
                d._fast[_hkey(key)] = len(d.items_) - 1
        else:
            old = d.items_[i][1]
            d.items_[i] = (d.items_[i][0], value)
            if old is not value:
                self.drop_ref(old)

    def dict_del(self, d, key):
        i = self.dict_find(d, key)
        if i < 0:
            raise IRaise(KeyError(_msgval(key)))
        old = d.items_[i][1]
        del d.items_[i]
        d._reindex()
        self.drop_ref(old)

    def drop_ref(self, obj):
        """Finaliser model (A-gc).  A container slot or attribute that held `obj` is gone.  CPython finalises the object as soon as
        NO reference is left; the interpreter sees the references held by the locals of the active repo frames and by everything
        reachable from them (not the proof harness's own Python variables: harnesses keep none that CPython would not have either).
          * none left            -> __del__ runs now;
          * still referenced     -> the finaliser is pending and runs when the last visible reference goes (a local is rebound or
                                    deleted, its frame returns, another slot is cleared).  If what holds the object is a heap
                                    object (an attribute / a container), the path is marked `gc_deferred`: a refutation on such a
                                    path counts only if the replay on CPython reproduces it."""
        if self.world.gc_model and isinstance(obj, IObj) and not obj.attrs.get("__dead__"):
            try:
                obj.cls.lookup("__del__")
            except KeyError:
                return
            if not any(p is obj for p in self.pending):
                self.pending.append(obj)
            self.collect()

    def collect(self):
        """runs the pending finalisers whose object is no longer referenced"""
        if not self.pending or self._collecting:
            return
        self._collecting = True
        try:
            again = True
            while again:
                again = False
                for obj in list(self.pending):
                    how = self._referenced(obj)
                    if how is None:
                        self.pending = [p for p in self.pending if p is not obj]
                        obj.attrs["__dead__"] = True
                        self.call_function(obj.cls.lookup("__del__"), [obj], {})
                        again = True
                    elif how == "heap" and self.path is not None:
                        self.path.gc_deferred = True
        finally:
            self._collecting = False

    def _referenced(self, target):
        """None | "local" (bound directly to a local of an active frame) | "heap" (reachable through an attribute or a container)"""
        seen = set()
        todo = []
        direct = False
        for env in self.frame_stack:
            for v in env.vars.values():
                if v is target:
                    direct = True
                else:
                    todo.append(v)
        while todo:
            v = todo.pop()
            if id(v) in seen:
                continue
            seen.add(id(v))
            if isinstance(v, IObj):
                if v.attrs.get("__dead__"):
                    continue
                kids = list(v.attrs.values())
            elif isinstance(v, IDict):
                kids = [x for kv in v.items_ for x in kv]
            elif isinstance(v, ISet):
                kids = list(v.elems)
            elif isinstance(v, (list, tuple)):
                kids = list(v)
            elif isinstance(v, IBound):
                kids = [v.self_obj]
            else:
                continue
            for k in kids:
                if k is target:
                    return "heap"
                if isinstance(k, (IObj, IDict, ISet, list, tuple, IBound)) and id(k) not in seen:
                    todo.append(k)
        return "local" if direct else None

    # -- modules ------------------------------------------------------------------------------
    def module(self, name):
        if name in self.modules:
            return self.modules[name]
        got = self.world.load_source(name)
        if got is None:
            return None
        tree, _ = got
        m = IModule(name)
        self.modules[name] = m
        m.env.vars["__name__"] = name
        for st in tree.body:
            if isinstance(st, ast.Expr) and isinstance(st.value, ast.Constant):
                continue
            self.exec_stmt(st, m.env, m, None)
        return m

    def import_name(self, dotted):
        m = self.module(dotted)
        if m is not None:
            return m
        return library_module(dotted)

    # -- statements ---------------------------------------------------------------------------
    def exec_block(self, stmts, env, mod, fn):
        for st in stmts:
            self.exec_stmt(st, env, mod, fn)

    def exec_stmt(self, st, env, mod, fn):
        self.steps += 1
        if self.steps > self.max_steps:
            raise SymError("step budget exhausted")
        m = getattr(self, "s_" + type(st).__name__, None)
        if m is None:
            raise SymError(f"statement {type(st).__name__} outside the subset")
        return m(st, env, mod, fn)

    def s_Expr(self, st, env, mod, fn):
        if isinstance(st.value, ast.Constant):
            return
        self.eval(st.value, env, mod)

    def s_Pass(self, st, env, mod, fn):
        pass

    def s_Import(self, st, env, mod, fn):
        for a in st.names:
            if a.asname:
                env.vars[a.asname] = self.import_name(a.name)
            else:
                top = a.name.split(".")[0]
                env.vars[top] = self.import_name(top)

    def s_ImportFrom(self, st, env, mod, fn):
        modname = st.module
        if st.level:
            pkg = mod.name.rsplit(".", st.level)[0] if "." in mod.name else mod.name
            modname = pkg + ("." + st.module if st.module else "")
        for a in st.names:
            target = a.asname or a.name
            sub = self.world.load_source(modname + "." + a.name)
            if sub is not None:
                env.vars[target] = LazyModule(self, modname + "." + a.name)
                continue
            m = self.import_name(modname)
            env.vars[target] = self.getattr(m, a.name)

    def s_FunctionDef(self, st, env, mod, fn, cls=None):
        defaults = [self.eval(d, env, mod) for d in st.args.defaults]
        kwd = [None if d is None else self.eval(d, env, mod) for d in st.args.kw_defaults]
        qual = (cls.name + "." if cls else (fn.qualname + ".<locals>." if fn else "")) + st.name
        is_gen = any(isinstance(n, (ast.Yield, ast.YieldFrom)) for n in _walk_no_nested(st))
        f = IFunc(st, env, mod, qual, defaults, kwd, is_gen)
        for dec in st.decorator_list:
            txt = ast.unparse(dec)
            if isinstance(dec, ast.Name) and dec.id == "staticmethod":
                f.is_static = True
            elif txt.split("(")[0] in ("functools.lru_cache", "lru_cache", "functools.cache", "cache"):
                f.memo = []                 # functools.lru_cache / cache: a hit returns the SAME object as the first call (unbounded here)
            else:
                f.bad_decorator = txt       # rejected when the function is CALLED, so that the rest of the module stays decidable
        if cls is None:
            env.vars[st.name] = f
        return f

    def s_ClassDef(self, st, env, mod, fn):
        bases = [self.eval(b, env, mod) for b in st.bases]
        if any(b is Exception or (isinstance(b, type) and issubclass(b, BaseException)) for b in bases):
            key = (mod.name, st.name)
            if key not in self.world.exc_classes:
                self.world.exc_classes[key] = type(st.name, tuple(bases), {"__module__": mod.name})
            env.vars[st.name] = self.world.exc_classes[key]
            return
        cls = IClass(st.name, bases, mod)
        cenv = Env(env)
        for s in st.body:
            if isinstance(s, ast.FunctionDef):
                cls.attrs[s.name] = self.s_FunctionDef(s, env, mod, None, cls)
            elif isinstance(s, ast.AnnAssign):
                name = s.target.id
                if s.value is None:
                    cls.fields.append((name, "required", None))
                else:
                    v = self.eval(s.value, cenv, mod)
                    if isinstance(v, FieldSpec):
                        cls.fields.append((name, v.kind, v.payload))
                    else:
                        cls.fields.append((name, "default", v))
                        cls.attrs[name] = v
            elif isinstance(s, ast.Assign):
                v = self.eval(s.value, cenv, mod)
                for t in s.targets:
                    cls.attrs[t.id] = v
                    cenv.vars[t.id] = v
            elif isinstance(s, ast.Expr) and isinstance(s.value, ast.Constant):
                continue
            elif isinstance(s, ast.Pass):
                continue
            else:
                raise SymError(f"class body statement {type(s).__name__}")
        for dec in st.decorator_list:
            d = self.eval(dec, env, mod)
            if d is DATACLASS:
                cls.is_dataclass = True
            else:
                raise SymError("class decorator outside the subset")
        if not cls.is_dataclass:
            cls.fields = []
        env.vars[st.name] = cls

    def s_Return(self, st, env, mod, fn):
        raise _Return(None if st.value is None else self.eval(st.value, env, mod))

    def s_Assign(self, st, env, mod, fn):
        v = self.eval(st.value, env, mod)
        for t in st.targets:
            self.assign(t, v, env, mod)

    def s_AnnAssign(self, st, env, mod, fn):
        if st.value is not None:
            self.assign(st.target, self.eval(st.value, env, mod), env, mod)

    def s_AugAssign(self, st, env, mod, fn):
        t = st.target
        if isinstance(t, ast.Name):
            cur = self.eval(t, env, mod)
            new = self.binop(st.op, cur, self.eval(st.value, env, mod), inplace=True)
            self.assign(t, new, env, mod)
        elif isinstance(t, ast.Attribute):
            obj = self.eval(t.value, env, mod)
            cur = self.getattr(obj, t.attr)
            new = self.binop(st.op, cur, self.eval(st.value, env, mod), inplace=True)
            self.setattr(obj, t.attr, new)
        elif isinstance(t, ast.Subscript):
            obj = self.eval(t.value, env, mod)
            key = self.eval_slice(t.slice, env, mod)
            cur = self.getitem(obj, key)
            new = self.binop(st.op, cur, self.eval(st.value, env, mod), inplace=True)
            self.setitem(obj, key, new)
        else:
            raise SymError("augassign target")

    def assign(self, t, v, env, mod):
        if isinstance(t, ast.Name):
            env.vars[t.id] = v
            if self.pending:
                self.collect()
        elif isinstance(t, (ast.Tuple, ast.List)):
            vals = list(self.iterate(v))
            if any(isinstance(e, ast.Starred) for e in t.elts):
                raise SymError("starred assignment")
            if len(vals) != len(t.elts):
                raise IRaise(ValueError(f"not enough/too many values to unpack (expected {len(t.elts)}, got {len(vals)})"))
            for e, x in zip(t.elts, vals):
                self.assign(e, x, env, mod)
        elif isinstance(t, ast.Attribute):
            self.setattr(self.eval(t.value, env, mod), t.attr, v)
        elif isinstance(t, ast.Subscript):
            self.setitem(self.eval(t.value, env, mod), self.eval_slice(t.slice, env, mod), v)
        else:
            raise SymError(f"assignment target {type(t).__name__}")

    def s_Delete(self, st, env, mod, fn):
        for t in st.targets:
            if isinstance(t, ast.Subscript):
                obj = self.eval(t.value, env, mod)
                key = self.eval_slice(t.slice, env, mod)
                if isinstance(obj, IDict):
                    self.dict_del(obj, key)
                elif isinstance(obj, list):
                    if isinstance(key, slice):
                        del obj[key]
                    else:
                        del obj[self.index_of(key, len(obj))]
                else:
                    raise SymError("del on " + type(obj).__name__)
            elif isinstance(t, ast.Name):
                env.vars.pop(t.id, None)
                if self.pending:
                    self.collect()
            else:
                raise SymError("del target")

    def s_If(self, st, env, mod, fn):
        if self.truth(self.eval(st.test, env, mod)):
            self.exec_block(st.body, env, mod, fn)
        else:
            self.exec_block(st.orelse, env, mod, fn)

    def s_While(self, st, env, mod, fn):
        n = 0
        while self.truth(self.eval(st.test, env, mod)):
            n += 1
            if n > 10000:
                raise SymError("while loop does not terminate within 10000 iterations (needs an invariant)")
            try:
                self.exec_block(st.body, env, mod, fn)
            except _Break:
                return
            except _Continue:
                continue
        self.exec_block(st.orelse, env, mod, fn)

    def s_For(self, st, env, mod, fn):
        it = self.eval(st.iter, env, mod)
        from . import modeb
        n = modeb.loop_length(it)
        if n is not None and is_sym(sym.concretize(n)):
            return self._for_with_invariant(st, env, mod, fn, it, n)
        for x in self.iterate(it):
            self.assign(st.target, x, env, mod)
            try:
                self.exec_block(st.body, env, mod, fn)
            except _Break:
                return
            except _Continue:
                continue
        self.exec_block(st.orelse, env, mod, fn)

    def _for_with_invariant(self, st, env, mod, fn, it, n):
        """mode b: the loop is cut at the inductive invariant registered for (function, loop ordinal); see modeb.py"""
        from . import modeb
        if fn is None:
            raise SymError("loop over a symbolic length outside a function")
        loops = [x for x in ast.walk(fn.node) if isinstance(x, (ast.For, ast.While))]
        loops.sort(key=lambda x: (x.lineno, x.col_offset))
        ordinal = [i for i, x in enumerate(loops) if x is st][0]
        key = (f"{fn.module.name}:{fn.qualname}", ordinal)
        spec = self.world.loop_invariants.get(key)
        if spec is None:
            raise SymError(f"loop #{ordinal} of {key[0]} runs over a symbolic length and has no invariant")
        inv, modifies = spec["inv"], spec["modifies"]
        if modifies is None:
            # the locals the loop body assigns (also through a subscript), minus the loop targets: taken from the AST, so that the
            # contract does not depend on how the function names its temporaries
            targets = {x.id for x in ast.walk(st.target) if isinstance(x, ast.Name)}
            modifies = []
            for node in st.body:
                for x in ast.walk(node):
                    tg = []
                    if isinstance(x, ast.Assign):
                        tg = x.targets
                    elif isinstance(x, (ast.AugAssign, ast.AnnAssign)):
                        tg = [x.target]
                    for t in tg:
                        while isinstance(t, (ast.Subscript, ast.Attribute)):
                            t = t.value
                        if isinstance(t, ast.Name) and t.id not in targets and t.id not in modifies and env.has(t.id):
                            modifies.append(t.id)
        ctx = self.world.ctx
        n = sym.to_arith(n)
        look = _Look(env, modifies)
        for name in modifies:
            env.vars[name] = modeb.abstract_value(name, env.lookup(name))
        branch = self.path.choose(2)
        if branch == 0:
            ctx.ensure(inv(look, 0), f"loop invariant of {key[0]}#{ordinal} holds on entry")
            for name in modifies:
                env.vars[name] = modeb.havoc_value(name, env.lookup(name))
            k = modeb.fresh("k", z3.IntSort())
            ctx.assume(z3.And(k >= 0, k < n), "loop: 0 <= k < n")
            ctx.assume(inv(look, k), "loop: invariant at k (induction hypothesis)")
            self.assign(st.target, modeb.loop_item(it, k), env, mod)
            try:
                self.exec_block(st.body, env, mod, fn)
            except _Continue:
                pass
            except _Break:
                return                      # leaves the loop with the state reached in this iteration
            ctx.ensure(inv(look, k + 1), f"loop invariant of {key[0]}#{ordinal} is preserved")
            raise modeb.PathEnd()
        for name in modifies:
            env.vars[name] = modeb.havoc_value(name, env.lookup(name))
        ctx.assume(inv(look, n), "loop: invariant at exit")
        self.exec_block(st.orelse, env, mod, fn)

    def s_Break(self, st, env, mod, fn):
        raise _Break()

    def s_Continue(self, st, env, mod, fn):
        raise _Continue()

    def s_Assert(self, st, env, mod, fn):
        if not self.truth(self.eval(st.test, env, mod)):
            msg = self.eval(st.msg, env, mod) if st.msg is not None else ""
            raise IRaise(AssertionError(_msgval(msg)))

    def s_Raise(self, st, env, mod, fn):
        if st.exc is None:
            cur = env.lookup("__active_exc__") if env.has("__active_exc__") else None
            if cur is None:
                raise IRaise(RuntimeError("No active exception to reraise"))
            raise IRaise(cur)
        v = self.eval(st.exc, env, mod)
        if isinstance(v, type) and issubclass(v, BaseException):
            v = v()
        if not isinstance(v, BaseException):
            raise IRaise(TypeError("exceptions must derive from BaseException"))
        raise IRaise(v)

    def s_Try(self, st, env, mod, fn):
        try:
            try:
                self.exec_block(st.body, env, mod, fn)
            except IRaise as r:
                for h in st.handlers:
                    if h.type is None:
                        match = True
                    else:
                        t = self.eval(h.type, env, mod)
                        if isinstance(t, (tuple, list)):
                            t = tuple(t)
                        match = isinstance(r.exc, t)
                    if match:
                        if h.name:
                            env.vars[h.name] = r.exc
                        saved = env.vars.get("__active_exc__")
                        env.vars["__active_exc__"] = r.exc
                        try:
                            self.exec_block(h.body, env, mod, fn)
                        finally:
                            env.vars["__active_exc__"] = saved
                        break
                else:
                    raise
            else:
                self.exec_block(st.orelse, env, mod, fn)
        finally:
            if st.finalbody:
                self.exec_block(st.finalbody, env, mod, fn)

    def s_With(self, st, env, mod, fn):
        ctxs = []
        for item in st.items:
            v = self.eval(item.context_expr, env, mod)
            if not hasattr(v, "__enter__"):
                raise SymError("with on interpreted object")
            r = v.__enter__()
            ctxs.append(v)
            if item.optional_vars is not None:
                self.assign(item.optional_vars, r, env, mod)
        try:
            self.exec_block(st.body, env, mod, fn)
        finally:
            for v in reversed(ctxs):
                v.__exit__(None, None, None)

    def s_Global(self, st, env, mod, fn):
        raise SymError("global statement")

    # -- expressions --------------------------------------------------------------------------
    def eval(self, e, env, mod):
        m = getattr(self, "e_" + type(e).__name__, None)
        if m is None:
            raise SymError(f"expression {type(e).__name__} outside the subset")
        return m(e, env, mod)

    def e_Constant(self, e, env, mod):
        return e.value

    def e_Name(self, e, env, mod):
        try:
            return env.lookup(e.id)
        except KeyError:
            pass
        if e.id in BUILTINS:
            stub = self.world.stubs.get("builtins." + e.id)
            if stub is not None:
                self.world.used_stubs.add("builtins." + e.id)
                return ModelFn("builtins." + e.id, lambda it, *a, **k: stub(it, list(a), k))
            return BUILTINS[e.id]
        raise IRaise(NameError(f"name '{e.id}' is not defined"))

    def e_Tuple(self, e, env, mod):
        return tuple(self.eval_elts(e.elts, env, mod))

    def e_List(self, e, env, mod):
        return self.eval_elts(e.elts, env, mod)

    def eval_elts(self, elts, env, mod):
        out = []
        for x in elts:
            if isinstance(x, ast.Starred):
                out.extend(self.iterate(self.eval(x.value, env, mod)))
            else:
                out.append(self.eval(x, env, mod))
        return out

    def e_Set(self, e, env, mod):
        return self.make_set(self.eval_elts(e.elts, env, mod))

    def e_Dict(self, e, env, mod):
        d = IDict()
        for k, v in zip(e.keys, e.values):
            if k is None:
                other = self.eval(v, env, mod)
                for kk, vv in other.items_:
                    self.dict_set(d, kk, vv)
            else:
                self.dict_set(d, self.eval(k, env, mod), self.eval(v, env, mod))
        return d

    def e_JoinedStr(self, e, env, mod):
        parts = []
        symbolic = False
        for v in e.values:
            if isinstance(v, ast.Constant):
                parts.append(v.value)
            else:
                x = self.eval(v.value, env, mod)
                if v.conversion == 114:
                    x = _msgval(x)
                    parts.append(repr(x) if not isinstance(x, str) or True else x)
                    continue
                if v.format_spec is not None:
                    raise SymError("format spec in f-string") if is_sym(x) else None
                    spec = self.eval(v.format_spec, env, mod)
                    parts.append(format(x, spec))
                    continue
                if is_sym(x) or isinstance(x, (IObj, NDArr, SymStr)):
                    symbolic = True
                    parts.append(x)
                else:
                    if isinstance(x, Fraction):
                        x = float(x)
                    parts.append(str(x))
        if symbolic:
            return SymStr(parts)
        return "".join(parts)

    def e_FormattedValue(self, e, env, mod):
        return self.eval(e.value, env, mod)

    def e_UnaryOp(self, e, env, mod):
        v = self.eval(e.operand, env, mod)
        if isinstance(e.op, ast.Not):
            return not self.truth(v)
        if isinstance(e.op, ast.USub):
            if isinstance(v, NDArr):
                return npm.unary(sym.neg, v)
            return sym.neg(v)
        if isinstance(e.op, ast.UAdd):
            return v
        if isinstance(e.op, ast.Invert):
            if hasattr(v, "fvc_invert"):
                return v.fvc_invert(self)
            if isinstance(v, NDArr) and v.dtype == "bool":
                return npm.unary(sym.b_not, v, "bool")
            if isinstance(v, bool) or sym.is_symbool(v):
                # pandas/numpy boolean inversion is not Python's ~ on bool; only reached through models
                return sym.b_not(v)
            if isinstance(v, int):
                return ~v
            raise SymError("~ on " + type(v).__name__)
        raise SymError("unary op")

    def e_BoolOp(self, e, env, mod):
        # a symbolic boolean operand is decided once here; its concrete truth value is what flows on
        if isinstance(e.op, ast.And):
            v = True
            for x in e.values:
                v = self.eval(x, env, mod)
                t = self.truth(v)
                if sym.is_symbool(v):
                    v = t
                if not t:
                    return v
            return v
        v = False
        for x in e.values:
            v = self.eval(x, env, mod)
            t = self.truth(v)
            if sym.is_symbool(v):
                v = t
            if t:
                return v
        return v

    def e_IfExp(self, e, env, mod):
        c = self.eval(e.test, env, mod)
        if is_sym(c) and not isinstance(c, NDArr):
            # try to merge scalar branches without forking (both branches must be side-effect free:
            # restricted to names, constants, attributes and arithmetic on them)
            if _pure_scalar_expr(e.body) and _pure_scalar_expr(e.orelse):
                cc = c if sym.is_symbool(c) else (sym.to_arith(c) != 0)
                cc = sym.concretize(cc)
                if is_sym(cc):
                    try:
                        a = self.eval(e.body, env, mod)
                        b = self.eval(e.orelse, env, mod)
                        if (sym.is_num(a) or isinstance(a, bool) or sym.is_symbool(a)) and \
                           (sym.is_num(b) or isinstance(b, bool) or sym.is_symbool(b)):
                            return sym.ite(cc, a, b)
                    except IRaise:
                        pass
        if self.truth(c):
            return self.eval(e.body, env, mod)
        return self.eval(e.orelse, env, mod)

    def e_Compare(self, e, env, mod):
        left = self.eval(e.left, env, mod)
        result = True
        for op, rexp in zip(e.ops, e.comparators):
            right = self.eval(rexp, env, mod)
            r = self.compare(op, left, right)
            if len(e.ops) == 1:
                return r
            if isinstance(r, NDArr):
                raise SymError("chained comparison on arrays")
            if not self.truth(r):
                return False
            left = right
        return result

    def compare(self, op, a, b):
        if isinstance(op, ast.Is):
            return self.identical(a, b)
        if isinstance(op, ast.IsNot):
            return not self.identical(a, b)
        if isinstance(op, ast.In):
            return self.contains(b, a)
        if isinstance(op, ast.NotIn):
            return sym.b_not(self.contains(b, a))
        a, b = npm.unwrap0(a), npm.unwrap0(b)
        if isinstance(op, ast.Eq):
            return self.eq(a, b)
        if isinstance(op, ast.NotEq):
            r = self.eq(a, b)
            if isinstance(r, NDArr):
                return npm.unary(sym.b_not, r, "bool")
            return sym.b_not(r)
        f = {ast.Lt: sym.lt, ast.LtE: sym.le, ast.Gt: sym.gt, ast.GtE: sym.ge}[type(op)]
        if isinstance(a, NDArr) or isinstance(b, NDArr):
            return npm.elementwise(lambda x, y: self._ordcmp(f, x, y), a, b, "bool")
        return self._ordcmp(f, a, b)

    def _ordcmp(self, f, a, b):
        if (sym.is_num(a) or isinstance(a, bool)) and (sym.is_num(b) or isinstance(b, bool)):
            return f(a, b)
        if isinstance(a, str) and isinstance(b, str):
            return f(a, b)
        if isinstance(a, (list, tuple)) and isinstance(b, (list, tuple)) and not any(is_sym(x) for x in list(a) + list(b)):
            return f(a, b)
        if isinstance(a, npm.Uninit) or isinstance(b, npm.Uninit):
            raise SymError("read of uninitialised np.empty cell")
        raise IRaise(TypeError(f"ordering not supported between {type(a).__name__} and {type(b).__name__}"))

    def identical(self, a, b):
        if a is None or b is None:
            return a is b
        if isinstance(a, (IObj, IClass, IFunc, list, IDict, ISet, NDArr, type)):
            return a is b
        if isinstance(a, bool) or isinstance(b, bool):
            return a is b
        if isinstance(a, str) and isinstance(b, str):
            return a == b
        raise SymError("'is' on numbers")

    def e_BinOp(self, e, env, mod):
        return self.binop(e.op, self.eval(e.left, env, mod), self.eval(e.right, env, mod))

    def binop(self, op, a, b, inplace=False):
        a, b = npm.unwrap0(a), npm.unwrap0(b)
        if hasattr(a, "fvc_binop"):
            return a.fvc_binop(self, op, b, False)
        if hasattr(b, "fvc_binop"):
            return b.fvc_binop(self, op, a, True)
        if isinstance(a, NDArr) or isinstance(b, NDArr):
            if isinstance(op, ast.MatMult):
                return self.matmul(a, b)
            if isinstance(a, (IDict, ISet, str)) or isinstance(b, (IDict, ISet, str)):
                raise SymError("array op with container")
            if isinstance(op, (ast.BitAnd, ast.BitOr)):
                f = sym.b_and if isinstance(op, ast.BitAnd) else sym.b_or
                return npm.elementwise(lambda x, y: f(x, y), a, b, "bool")
            dtype = None
            if isinstance(op, ast.Div):
                dtype = "float"
            return npm.elementwise(lambda x, y: self.scalar_binop(op, x, y, numpy=True), a, b, dtype)
        if isinstance(a, list) and isinstance(b, list) and isinstance(op, ast.Add):
            if inplace:
                a.extend(b)
                return a
            return a + b
        if isinstance(a, tuple) and isinstance(b, tuple) and isinstance(op, ast.Add):
            return a + b
        if isinstance(a, (list, tuple)) and isinstance(op, ast.Mult) and isinstance(b, int) and not isinstance(b, bool):
            return a * b
        if isinstance(b, (list, tuple)) and isinstance(op, ast.Mult) and isinstance(a, int):
            return b * a
        if isinstance(a, str) and isinstance(b, str) and isinstance(op, ast.Add):
            return a + b
        if isinstance(a, str) and isinstance(op, ast.Mod):
            return a % b
        if isinstance(a, ISet) and isinstance(b, ISet):
            if isinstance(op, ast.BitAnd):
                return ISet([x for x in a.elems if self.truth(self.contains(b, x))])
            if isinstance(op, ast.Sub):
                return ISet([x for x in a.elems if not self.truth(self.contains(b, x))])
            if isinstance(op, ast.BitOr):
                return ISet(a.elems + [x for x in b.elems if not self.truth(self.contains(a, x))])
        if isinstance(a, IDict) and isinstance(b, IDict) and isinstance(op, ast.BitOr):
            d = IDict(a.items_)
            for k, v in b.items_:
                self.dict_set(d, k, v)
            return d
        if isinstance(op, (ast.BitAnd, ast.BitOr)) and all(isinstance(x, bool) or sym.is_symbool(x) for x in (a, b)):
            return (sym.b_and if isinstance(op, ast.BitAnd) else sym.b_or)(a, b)
        return self.scalar_binop(op, a, b)

    def scalar_binop(self, op, a, b, numpy=False):
        if isinstance(a, npm.Uninit) or isinstance(b, npm.Uninit):
            raise SymError("read of uninitialised np.empty cell")
        if not ((sym.is_num(a) or isinstance(a, bool) or sym.is_symbool(a)) and
                (sym.is_num(b) or isinstance(b, bool) or sym.is_symbool(b))):
            raise IRaise(TypeError(f"unsupported operand type(s): '{type(a).__name__}' and '{type(b).__name__}'"))
        try:
            if isinstance(op, ast.Add):
                return sym.add(a, b)
            if isinstance(op, ast.Sub):
                return sym.sub(a, b)
            if isinstance(op, ast.Mult):
                return sym.mul(a, b)
            if isinstance(op, ast.Div):
                return sym.truediv(a, b, self.decide)
            if isinstance(op, ast.FloorDiv):
                return sym.floordiv(a, b, self.decide)
            if isinstance(op, ast.Mod):
                return sym.mod(a, b, self.decide)
            if isinstance(op, ast.Pow):
                return sym.power(a, b, self.decide)
        except sym.DivByZero:
            if numpy or _is_np_scalar_context(a, b):
                raise IRaise(FloatingPointError("divide by zero / invalid value encountered"))
            raise IRaise(ZeroDivisionError("division by zero"))
        raise SymError(f"operator {type(op).__name__}")

    def matmul(self, a, b):
        a, b = npm.asarray(a), npm.asarray(b)
        if a.ndim == 1 and b.ndim == 1:
            if a.shape != b.shape:
                raise IRaise(ValueError(f"matmul: shapes {a.shape} and {b.shape} not aligned"))
            return self.sum_list([sym.mul(x, y) for x, y in zip(a.data, b.data)])
        a2 = a if a.ndim == 2 else NDArr(a.data, (1, a.shape[0]), a.dtype)
        b2 = b if b.ndim == 2 else NDArr(b.data, (b.shape[0], 1), b.dtype)
        if a2.ndim != 2 or b2.ndim != 2:
            raise SymError("matmul ndim")
        if a2.shape[1] != b2.shape[0]:
            raise IRaise(ValueError(f"matmul: shapes {a.shape} and {b.shape} not aligned"))
        r, k, c = a2.shape[0], a2.shape[1], b2.shape[1]
        data = []
        for i in range(r):
            for j in range(c):
                data.append(self.sum_list([sym.mul(a2.data[i * k + t], b2.data[t * c + j]) for t in range(k)]))
        out = NDArr(data, (r, c))
        if a.ndim == 1:
            out = NDArr(data, (c,))
        elif b.ndim == 1:
            out = NDArr(data, (r,))
        return out

    def sum_list(self, xs, start=0):
        acc = start
        for x in xs:
            if isinstance(x, npm.Uninit):
                raise SymError("read of uninitialised np.empty cell")
            acc = sym.add(acc, x)
        return acc

    def e_Attribute(self, e, env, mod):
        return self.getattr(self.eval(e.value, env, mod), e.attr)

    def e_Subscript(self, e, env, mod):
        return self.getitem(self.eval(e.value, env, mod), self.eval_slice(e.slice, env, mod))

    def eval_slice(self, s, env, mod):
        if isinstance(s, ast.Slice):
            f = lambda x: None if x is None else self.concrete_int(self.eval(x, env, mod))
            return slice(f(s.lower), f(s.upper), f(s.step))
        if isinstance(s, ast.Tuple):
            return tuple(self.eval_slice(x, env, mod) for x in s.elts)
        return self.eval(s, env, mod)

    def concrete_int(self, v):
        v = npm.unwrap0(v)
        if is_sym(v):
            v = sym.concretize(v)
            if is_sym(v):
                raise SymError("symbolic slice bound")
        if isinstance(v, Fraction) and v.denominator == 1:
            return int(v)
        if isinstance(v, bool) or not isinstance(v, int):
            raise IRaise(TypeError("slice indices must be integers"))
        return v

    def index_of(self, idx, n):
        """resolve a (possibly symbolic) integer index into range(n); forks over the positions"""
        idx = npm.unwrap0(idx)
        if not is_sym(idx):
            if isinstance(idx, Fraction) and idx.denominator == 1:
                raise IRaise(TypeError("list indices must be integers or slices, not float"))
            if isinstance(idx, bool) or not isinstance(idx, int):
                raise IRaise(TypeError(f"indices must be integers, not {type(idx).__name__}"))
            if idx < -n or idx >= n:
                raise IRaise(IndexError("index out of range"))
            return idx % n if n else 0
        if not z3.is_int(idx):
            raise IRaise(TypeError("indices must be integers, not float"))
        for k in range(n):
            if self.decide(z3.Or(idx == k, idx == k - n)):
                return k
        raise IRaise(IndexError("index out of range"))

    def getitem(self, obj, key):
        if isinstance(obj, LazyModule):
            obj = obj.get()
        if isinstance(obj, IDict):
            return self.dict_get(obj, key)
        if isinstance(obj, (list, tuple, str, range)):
            if isinstance(key, slice):
                return obj[key]
            if isinstance(key, NDArr) or isinstance(key, list):
                raise IRaise(TypeError("list indices must be integers or slices"))
            return obj[self.index_of(key, len(obj))]
        if isinstance(obj, NDArr):
            key = self._np_key(key, obj)
            try:
                return npm.getitem(obj, key)
            except IndexError as ex:
                raise IRaise(ex)
        if isinstance(obj, IObj):
            try:
                f = obj.cls.lookup("__getitem__")
            except KeyError:
                raise IRaise(TypeError(f"'{obj.cls.name}' object is not subscriptable"))
            return self.call_function(f, [obj, key], {})
        if hasattr(obj, "fvc_getitem"):
            return obj.fvc_getitem(self, key)
        if obj is None:
            raise IRaise(TypeError("'NoneType' object is not subscriptable"))
        if is_sym(obj) or isinstance(obj, (int, float, Fraction)):
            raise IRaise(IndexError("invalid index to scalar variable."))
        raise SymError("subscript on " + type(obj).__name__)

    def _np_key(self, key, arr):
        def one(k, n):
            k = npm.unwrap0(k)
            if is_sym(k):
                return self.index_of(k, n)
            if isinstance(k, Fraction):
                raise IRaise(IndexError("only integers, slices are valid indices"))
            return k
        if isinstance(key, tuple):
            return tuple(one(k, arr.shape[i] if i < arr.ndim else 0) for i, k in enumerate(key))
        return one(key, arr.shape[0] if arr.ndim else 0)

    def setitem(self, obj, key, value):
        if isinstance(obj, IDict):
            return self.dict_set(obj, key, value)
        if isinstance(obj, list):
            if isinstance(key, slice):
                obj[key] = list(self.iterate(value))
                return
            obj[self.index_of(key, len(obj))] = value
            return
        if isinstance(obj, NDArr):
            key = self._np_key(key, obj)
            try:
                if isinstance(value, (IObj, IDict, str)):
                    raise IRaise(ValueError("setting an array element with a sequence/object"))
                return npm.setitem(obj, key, value)
            except (IndexError, ValueError) as ex:
                raise IRaise(ex)
        if isinstance(obj, tuple):
            raise IRaise(TypeError("'tuple' object does not support item assignment"))
        if hasattr(obj, "fvc_setitem"):
            return obj.fvc_setitem(self, key, value)
        raise SymError("item assignment on " + type(obj).__name__)

    def _allocated_default(self, obj, name):
        """an object the harness allocated without running its constructor (ctx.alloc) is read at an attribute the harness did
        not supply: use what the real constructor would have put there when that is a state-free default - a dataclass field
        default / factory, or a top-level `self.<name> = <empty or constant literal>` of __post_init__ / __init__.  Anything
        else means the contract's frame does not cover this attribute: harness-incomplete (undecided), never a violation."""
        for fname, kind, payload in obj.cls.all_fields():
            if fname == name and kind == "default":
                obj.attrs[name] = payload
                return payload
            if fname == name and kind == "factory":
                obj.attrs[name] = self.call(payload, [], {})
                return obj.attrs[name]
        for ctor in ("__post_init__", "__init__"):
            try:
                f = obj.cls.lookup(ctor)
            except KeyError:
                continue
            if not isinstance(f, IFunc):
                continue
            selfname = f.node.args.args[0].arg if f.node.args.args else "self"
            for st in f.node.body:
                if isinstance(st, ast.Assign) and len(st.targets) == 1:
                    t, val = st.targets[0], st.value
                elif isinstance(st, ast.AnnAssign) and st.value is not None:
                    t, val = st.target, st.value
                else:
                    continue
                if not (isinstance(t, ast.Attribute) and isinstance(t.value, ast.Name) and t.value.id == selfname and t.attr == name):
                    continue
                state_free = (isinstance(val, ast.Constant) or (isinstance(val, (ast.Dict, ast.List, ast.Set, ast.Tuple)) and not (getattr(val, "keys", None) or getattr(val, "elts", None)))
                              or (isinstance(val, ast.Call) and isinstance(val.func, ast.Name) and val.func.id in ("dict", "list", "set") and not val.args and not val.keywords))
                if state_free:
                    obj.attrs[name] = self.eval(val, Env(f.env), f.module)
                    return obj.attrs[name]
        raise HarnessIncomplete(f"the harness allocated a {obj.cls.name} without the attribute '{name}' that the code reads")

    def getattr(self, obj, name):
        if isinstance(obj, LazyModule):
            obj = obj.get()
        if isinstance(obj, IObj):
            if name in obj.attrs:
                return obj.attrs[name]
            try:
                v = obj.cls.lookup(name)
            except KeyError:
                if getattr(obj, "allocated", False):
                    return self._allocated_default(obj, name)
                raise IRaise(AttributeError(f"'{obj.cls.name}' object has no attribute '{name}'"))
            if isinstance(v, IFunc) and not v.is_static:
                return IBound(v, obj)
            return v
        if isinstance(obj, IModule):
            if name in obj.env.vars:
                return obj.env.vars[name]
            sub = self.module(obj.name + "." + name)
            if sub is not None:
                return sub
            raise IRaise(AttributeError(f"module '{obj.name}' has no attribute '{name}'"))
        if isinstance(obj, IClass):
            try:
                return obj.lookup(name)
            except KeyError:
                raise IRaise(AttributeError(f"type object '{obj.name}' has no attribute '{name}'"))
        if isinstance(obj, OpaqueModule):
            return OpaqueCallable(obj._name + "." + name) if not name[:1].isupper() or True else None
        if isinstance(obj, OpaqueCallable):
            return OpaqueCallable(obj._name + "." + name)
        if isinstance(obj, LibModule):
            return obj.get(name)
        if isinstance(obj, NDArr):
            return ndarray_attr(self, obj, name)
        if isinstance(obj, (list, tuple, str, IDict, ISet, DictView)):
            return BuiltinMethod(obj, name)
        if is_sym(obj) or isinstance(obj, (int, float, Fraction)):
            return scalar_attr(self, obj, name)
        if isinstance(obj, BaseException):
            return getattr(obj, name)
        if obj is None:
            raise IRaise(AttributeError(f"'NoneType' object has no attribute '{name}'"))
        if hasattr(obj, "fvc_getattr"):
            return obj.fvc_getattr(self, name)
        if isinstance(obj, IBound):
            raise IRaise(AttributeError(f"'method' object has no attribute '{name}'"))
        if isinstance(obj, NativeValue):
            return NativeValue.wrap(getattr(obj.v, name))
        raise SymError(f"attribute '{name}' on {type(obj).__name__}")

    def setattr(self, obj, name, value):
        if isinstance(obj, IObj):
            obj.attrs[name] = value
            return
        if hasattr(obj, "fvc_setattr"):
            return obj.fvc_setattr(self, name, value)
        raise SymError("attribute assignment on " + type(obj).__name__)

    def e_Lambda(self, e, env, mod):
        defaults = [self.eval(d, env, mod) for d in e.args.defaults]
        return IFunc(e, env, mod, "<lambda>", defaults, [], False)

    def e_ListComp(self, e, env, mod):
        if len(e.generators) == 1 and not e.generators[0].ifs:
            from . import modeb
            base = self.eval(e.generators[0].iter, env, mod)
            if isinstance(base, modeb.SymSeq):
                g = e.generators[0]

                def getter(idx, base=base, g=g):
                    en = Env(env)
                    self.assign(g.target, base.at(idx), en, mod)
                    return self.eval(e.elt, en, mod)
                return modeb.SymSeq(base.length, getter=getter, name="comp")
        out = []
        self._comp(e.generators, 0, Env(env), mod, lambda en: out.append(self.eval(e.elt, en, mod)))
        return out

    def e_GeneratorExp(self, e, env, mod):
        return self.e_ListComp(e, env, mod)

    def e_SetComp(self, e, env, mod):
        return self.make_set(self.e_ListComp(e, env, mod))

    def e_DictComp(self, e, env, mod):
        d = IDict()
        self._comp(e.generators, 0, Env(env), mod,
                   lambda en: self.dict_set(d, self.eval(e.key, en, mod), self.eval(e.value, en, mod)))
        return d

    def _comp(self, gens, i, env, mod, emit):
        if i == len(gens):
            emit(env)
            return
        g = gens[i]
        for x in self.iterate(self.eval(g.iter, env, mod)):
            self.assign(g.target, x, env, mod)
            if all(self.truth(self.eval(c, env, mod)) for c in g.ifs):
                self._comp(gens, i + 1, env, mod, emit)

    def e_Starred(self, e, env, mod):
        raise SymError("starred expression here")

    def e_Yield(self, e, env, mod):
        env.lookup("__yields__").append(None if e.value is None else self.eval(e.value, env, mod))
        return None

    def make_set(self, elems):
        s = ISet()
        for x in elems:
            if not self.truth(self.contains(s, x)):
                s.elems.append(x)
        return s

    # -- iteration ----------------------------------------------------------------------------
    def iterate(self, v):
        if isinstance(v, LazyModule):
            v = v.get()
        if isinstance(v, list):
            i = 0
            while i < len(v):          # live iteration, as CPython's list iterator
                yield v[i]
                i += 1
            return
        if isinstance(v, (tuple, range, str)):
            yield from v
            return
        if isinstance(v, NDArr):
            if v.ndim == 0:
                raise IRaise(TypeError("iteration over a 0-d array"))
            for i in range(v.shape[0]):
                yield npm.getitem(v, i)
            return
        if isinstance(v, IDict):
            yield from [k for k, _ in v.items_]
            return
        if isinstance(v, DictView):
            yield from v.snapshot()
            return
        if isinstance(v, ISet):
            yield from self.path.set_order(list(v.elems))
            return
        if isinstance(v, LiveIter):
            yield from v.it
            return
        if hasattr(v, "fvc_iter"):
            yield from v.fvc_iter(self)
            return
        if isinstance(v, NativeValue):
            for x in v.v:
                yield NativeValue.wrap(x)
            return
        if v is None or sym.is_num(v) or isinstance(v, (bool, IObj)):
            raise IRaise(TypeError(f"'{type(v).__name__}' object is not iterable"))
        raise SymError("iteration over " + type(v).__name__)

    # -- calls --------------------------------------------------------------------------------
    def e_Call(self, e, env, mod):
        # super() needs the lexical class: resolved by name lookup of __class__ cell emulation
        if isinstance(e.func, ast.Name) and e.func.id == "super" and not env.has("super"):
            args = [self.eval(a, env, mod) for a in e.args]
            if args:
                cls, obj = args
            else:
                obj = env.lookup("self")
                cls = env.lookup("__class__")
            return SuperProxy(cls, obj)
        f = self.eval(e.func, env, mod)
        args = []
        for a in e.args:
            if isinstance(a, ast.Starred):
                args.extend(self.iterate(self.eval(a.value, env, mod)))
            else:
                args.append(self.eval(a, env, mod))
        kwargs = {}
        for k in e.keywords:
            if k.arg is None:
                d = self.eval(k.value, env, mod)
                if not isinstance(d, IDict):
                    raise SymError("** of non-dict")
                for kk, vv in d.items_:
                    kwargs[kk] = vv
            else:
                kwargs[k.arg] = self.eval(k.value, env, mod)
        return self.call(f, args, kwargs)

    def call(self, f, args, kwargs):
        if isinstance(f, LazyModule):
            f = f.get()
        if isinstance(f, IBound):
            return self.call_function(f.func, [f.self_obj] + list(args), kwargs)
        if isinstance(f, IFunc):
            return self.call_function(f, list(args), kwargs)
        if isinstance(f, IClass):
            return self.instantiate(f, list(args), kwargs)
        if isinstance(f, BuiltinMethod):
            return call_builtin_method(self, f.obj, f.name, list(args), kwargs)
        if isinstance(f, ModelFn):
            stub = self.world.stubs.get(f.name)
            if stub is not None:
                self.world.used_stubs.add(f.name)
                return stub(self, list(args), kwargs)
            try:
                import inspect as _inspect
                try:
                    _inspect.signature(f.fn).bind(self, *args, **kwargs)
                except TypeError as ex:
                    raise SymError(f"library model of {f.name} does not take these arguments ({ex})")
                except ValueError:
                    pass
                return f.fn(self, *args, **kwargs)
            except sym.DivByZero:
                raise IRaise(FloatingPointError("invalid value encountered in " + f.name))
            except (IndexError, ValueError) as ex:
                if isinstance(ex, IRaise):
                    raise
                raise IRaise(ex)
        if isinstance(f, OpaqueCallable):
            stub = self.world.stubs.get(f._name)
            if stub is None:
                raise SymError(f"call to unmodelled library function {f._name} (no assumed contract registered)")
            self.world.used_stubs.add(f._name)
            return stub(self, list(args), kwargs)
        if isinstance(f, type) and issubclass(f, BaseException):
            return f(*[_msgval(a) for a in args])
        if isinstance(f, NativeValue):
            return NativeValue.wrap(f.v(*[NativeValue.unwrap(a) for a in args],
                                        **{k: NativeValue.unwrap(v) for k, v in kwargs.items()}))
        if hasattr(f, "fvc_call"):
            return f.fvc_call(self, list(args), kwargs)
        if f is None:
            raise IRaise(TypeError("'NoneType' object is not callable"))
        if isinstance(f, (str, int, float, list, tuple)) or is_sym(f):
            raise IRaise(TypeError(f"'{type(f).__name__}' object is not callable"))
        raise SymError("call of " + repr(f))

    def instantiate(self, cls, args, kwargs):
        obj = IObj(cls)
        try:
            init = cls.lookup("__init__")
        except KeyError:
            init = None
        if init is not None:
            self.call_function(init, [obj] + args, kwargs)
            return obj
        if not cls.is_dataclass:
            if args or kwargs:
                raise IRaise(TypeError(f"{cls.name}() takes no arguments"))
            return obj
        fields = cls.all_fields()
        if len(args) > len(fields):
            raise IRaise(TypeError(f"{cls.name}.__init__() takes {len(fields)+1} positional arguments but {len(args)+1} were given"))
        kwargs = dict(kwargs)
        for i, (name, kind, payload) in enumerate(fields):
            if i < len(args):
                if name in kwargs:
                    raise IRaise(TypeError(f"got multiple values for argument '{name}'"))
                obj.attrs[name] = args[i]
            elif name in kwargs:
                obj.attrs[name] = kwargs.pop(name)
            elif kind == "default":
                obj.attrs[name] = payload
            elif kind == "factory":
                obj.attrs[name] = self.call(payload, [], {})
            else:
                raise IRaise(TypeError(f"{cls.name}.__init__() missing required argument: '{name}'"))
        if kwargs:
            raise IRaise(TypeError(f"{cls.name}.__init__() got an unexpected keyword argument '{list(kwargs)[0]}'"))
        try:
            post = cls.lookup("__post_init__")
        except KeyError:
            post = None
        if post is not None:
            self.call_function(post, [obj], {})
        return obj

    def call_function(self, f, args, kwargs):
        key = f"{f.module.name}:{f.qualname}"
        stub = self.world.stubs.get(key)
        if stub is not None:
            self.world.used_stubs.add(key)
            return stub(self, args, kwargs)
        if getattr(f, "bad_decorator", None):
            raise SymError(f"function decorator outside the subset: @{f.bad_decorator} on {key}")
        if getattr(f, "memo", None) is not None and not getattr(f, "_memo_running", False):
            def same(x, y):
                if isinstance(x, (tuple, list)) and isinstance(y, (tuple, list)):
                    return type(x) is type(y) and len(x) == len(y) and all(same(p, q) for p, q in zip(x, y))
                if isinstance(x, (IObj, IDict, ISet)) or isinstance(y, (IObj, IDict, ISet)):
                    return x is y
                return self.truth(self.eq(x, y))
            for a0, k0, r0 in f.memo:
                if len(a0) == len(args) and sorted(k0) == sorted(kwargs) and same(list(a0), list(args)) and all(same(k0[n], kwargs[n]) for n in k0):
                    return r0
            f._memo_running = True
            try:
                r = self.call_function(f, args, kwargs)
            finally:
                f._memo_running = False
            f.memo.append((list(args), dict(kwargs), r))
            return r
        self.world.inlined.add(key)
        self.depth += 1
        if self.depth > 200:
            raise SymError("recursion depth")
        base = len(self.frame_stack)
        try:
            env = Env(f.env)
            self.frame_stack.append(env)
            a = f.node.args
            params = [p.arg for p in a.posonlyargs + a.args]
            nreq = len(params) - len(f.defaults)
            if len(args) > len(params) and a.vararg is None:
                raise IRaise(TypeError(f"{f.qualname}() takes {len(params)} positional arguments but {len(args)} were given"))
            for i, p in enumerate(params):
                if i < len(args):
                    if p in kwargs:
                        raise IRaise(TypeError(f"{f.qualname}() got multiple values for argument '{p}'"))
                    env.vars[p] = args[i]
                elif p in kwargs:
                    env.vars[p] = kwargs[p]
                elif i >= nreq:
                    env.vars[p] = f.defaults[i - nreq]
                else:
                    raise IRaise(TypeError(f"{f.qualname}() missing required positional argument: '{p}'"))
            if a.vararg is not None:
                env.vars[a.vararg.arg] = tuple(args[len(params):])
            extra = {k: v for k, v in kwargs.items() if k not in params}
            for p, d in zip(a.kwonlyargs, f.kw_defaults):
                if p.arg in extra:
                    env.vars[p.arg] = extra.pop(p.arg)
                elif d is not None or True:
                    env.vars[p.arg] = d
            if a.kwarg is not None:
                env.vars[a.kwarg.arg] = IDict(list(extra.items()))
            elif extra:
                raise IRaise(TypeError(f"{f.qualname}() got an unexpected keyword argument '{list(extra)[0]}'"))
            if isinstance(f.node, ast.Lambda):
                return self.eval(f.node.body, env, f.module)
            if "." in f.qualname and "<locals>" not in f.qualname:
                clsname = f.qualname.split(".")[0]
                try:
                    env.vars["__class__"] = f.env.lookup(clsname)
                except KeyError:
                    pass
            if f.is_gen:
                env.vars["__yields__"] = []
            try:
                self.exec_block(f.node.body, env, f.module, f)
            except _Return as r:
                if f.is_gen:
                    return env.vars["__yields__"]
                return r.value
            if f.is_gen:
                return env.vars["__yields__"]
            return None
        finally:
            self.depth -= 1
            while len(self.frame_stack) > base:
                self.frame_stack.pop()
            if self.pending and not self._collecting:
                self.collect()


class LazyModule:
    def __init__(self, interp, name):
        self.interp, self.name = interp, name

    def get(self):
        return self.interp.module(self.name)


class SuperProxy:
    def __init__(self, cls, obj):
        self.cls, self.obj = cls, obj

    def fvc_getattr(self, interp, name):
        if isinstance(self.obj, BaseException):
            return ModelFn("super." + name, lambda it, *a, **k: None)
        for b in self.cls.bases:
            if isinstance(b, IClass):
                try:
                    v = b.lookup(name)
                except KeyError:
                    continue
                return IBound(v, self.obj) if isinstance(v, IFunc) else v
        if name == "__init__" and self.cls.bases and all(isinstance(b, IClass) for b in self.cls.bases):
            b = self.cls.bases[0]
            if b.is_dataclass:
                return ModelFn("dataclass.__init__", lambda it, *a, **k: _dataclass_init(it, b, self.obj, list(a), k))
        raise IRaise(AttributeError(f"'super' object has no attribute '{name}'"))


def _dataclass_init(it, cls, obj, args, kwargs):
    tmp = it.instantiate.__func__
    fields = cls.all_fields()
    kwargs = dict(kwargs)
    for i, (name, kind, payload) in enumerate(fields):
        if i < len(args):
            obj.attrs[name] = args[i]
        elif name in kwargs:
            obj.attrs[name] = kwargs.pop(name)
        elif kind == "default":
            obj.attrs[name] = payload
        elif kind == "factory":
            obj.attrs[name] = it.call(payload, [], {})
        else:
            raise IRaise(TypeError(f"missing required argument: '{name}'"))
    try:
        post = cls.lookup("__post_init__")
    except KeyError:
        post = None
    if post is not None:
        it.call_function(post, [obj], {})
    return None


class LiveIter:
    def __init__(self, it):
        self.it = it


class NativeValue:
    """a concrete host object passed through unmodelled (files, compiled regexes, ...)"""
    def __init__(self, v):
        self.v = v

    @staticmethod
    def wrap(x):
        if x is None or isinstance(x, (bool, int, float, str)):
            return x
        if isinstance(x, list):
            return [NativeValue.wrap(e) for e in x]
        if isinstance(x, tuple):
            return tuple(NativeValue.wrap(e) for e in x)
        return NativeValue(x)

    @staticmethod
    def unwrap(x):
        if isinstance(x, NativeValue):
            return x.v
        if isinstance(x, Fraction):
            return float(x)
        if is_sym(x):
            raise SymError("symbolic value passed to a native library object")
        return x

    def __enter__(self):
        return NativeValue.wrap(self.v.__enter__())

    def __exit__(self, *a):
        return self.v.__exit__(*a)


def _walk_no_nested(fnode):
    stack = list(fnode.body)
    while stack:
        n = stack.pop()
        yield n
        for c in ast.iter_child_nodes(n):
            if isinstance(c, (ast.FunctionDef, ast.Lambda, ast.ClassDef)):
                continue
            stack.append(c)


def _pure_scalar_expr(e):
    for n in ast.walk(e):
        if not isinstance(n, (ast.Name, ast.Constant, ast.Attribute, ast.BinOp, ast.UnaryOp, ast.Load,
                              ast.Add, ast.Sub, ast.Mult, ast.USub, ast.UAdd)):
            return False
    return True


def _is_np_scalar_context(a, b):
    # Python floats raise ZeroDivisionError, numpy scalars FloatingPointError (np.seterr(all='raise')).
    # Symbolic reals stand for either; the caller's contract decides which class is expected, the
    # engine reports ZeroDivisionError for plain scalars.
    return False


def _msgval(x):
    if isinstance(x, (str, int, float)) or x is None:
        return x
    return repr(x)


# the rest (builtins, numpy front end, container methods) lives in lib.py to keep this file readable
from .lib import (BUILTINS, DATACLASS, library_module, LibModule, ModelFn, BuiltinMethod,  # noqa: E402
                  call_builtin_method, ndarray_attr, scalar_attr)
