"""Scalar layer of the fvc symbolic executor.

Values are plain Python numbers/bools (concrete) or z3 terms (symbolic).  Everything that has to
know the difference lives here: arithmetic under assumption A-real (floats are reals), Python's
int()/round()/division semantics, and the axiomatised functions (sqrt, arccos, rnd_k).
Side conditions produced by axiomatised functions are sent to the active `Path` (see harness.py)
through the module-level hook `emit_fact`.
"""
import math
from fractions import Fraction
import z3

# hook set by the harness: called with a z3 BoolRef that is an axiom instance (not a path decision)
_fact_sink = [None]


def emit_fact(f, tag):
    if _fact_sink[0] is not None:
        _fact_sink[0](f, tag)


def is_sym(v):
    return isinstance(v, z3.ExprRef)


def is_num(v):
    return isinstance(v, (int, float, Fraction)) and not isinstance(v, bool) or \
        (isinstance(v, z3.ArithRef))


def is_symbool(v):
    return isinstance(v, z3.BoolRef)


def to_z3(v):
    """Coerce a concrete scalar to a z3 term (reals exact from the decimal repr of the float)."""
    if isinstance(v, z3.ExprRef):
        return v
    if isinstance(v, bool):
        return z3.BoolVal(v)
    if isinstance(v, int):
        return z3.IntVal(v)
    if isinstance(v, Fraction):
        return z3.RealVal(v)
    if isinstance(v, float):
        if math.isnan(v) or math.isinf(v):
            raise SymError("nan/inf constant is outside assumption A-real")
        return z3.RealVal(Fraction(repr(v)))
    raise SymError(f"cannot coerce {type(v).__name__} to a term")


def to_real(v):
    t = to_z3(v)
    if z3.is_int(t):
        return z3.ToReal(t)
    if z3.is_bool(t):
        return z3.If(t, z3.RealVal(1), z3.RealVal(0))
    return t


def to_arith(v):
    t = to_z3(v)
    if z3.is_bool(t):
        return z3.If(t, z3.IntVal(1), z3.IntVal(0))
    return t


class SymError(Exception):
    """The construct is outside the verified subset (reported as out-of-subset, never a violation)."""


def simp(t):
    return z3.simplify(t) if is_sym(t) else t


def concretize(t):
    """If a z3 term is a numeral / boolean constant give back the Python value."""
    if not is_sym(t):
        return t
    t = z3.simplify(t)
    if z3.is_true(t):
        return True
    if z3.is_false(t):
        return False
    if z3.is_int_value(t):
        return t.as_long()
    if z3.is_rational_value(t):
        fr = Fraction(t.numerator_as_long(), t.denominator_as_long())
        return fr
    return t


def _both_concrete(a, b):
    return not is_sym(a) and not is_sym(b)


def _num(v):
    if isinstance(v, bool):
        return int(v)
    return v


def add(a, b):
    if _both_concrete(a, b):
        return _num(a) + _num(b)
    return concretize(to_arith(a) + to_arith(b))


def sub(a, b):
    if _both_concrete(a, b):
        return _num(a) - _num(b)
    return concretize(to_arith(a) - to_arith(b))


def mul(a, b):
    if _both_concrete(a, b):
        return _num(a) * _num(b)
    if not is_sym(a) and _num(a) == 0 and not isinstance(a, float):
        return 0
    if not is_sym(b) and _num(b) == 0 and not isinstance(b, float):
        return 0
    return concretize(to_arith(a) * to_arith(b))


def neg(a):
    if not is_sym(a):
        return -_num(a)
    return concretize(-to_arith(a))


class DivByZero(Exception):
    """raised to the interpreter, which turns it into ZeroDivisionError / FloatingPointError"""


def truediv(a, b, decide):
    """Python `/`.  `decide(cond)` asks the path whether cond holds (may fork)."""
    if _both_concrete(a, b):
        if _num(b) == 0:
            raise DivByZero()
        if isinstance(a, float) or isinstance(b, float):
            return _num(a) / _num(b)
        return Fraction(_num(a)) / Fraction(_num(b))
    zb = to_real(b)
    if decide(zb == 0):
        raise DivByZero()
    return concretize(to_real(a) / zb)


def floordiv(a, b, decide):
    if _both_concrete(a, b):
        if _num(b) == 0:
            raise DivByZero()
        return _num(a) // _num(b)
    za, zb = to_arith(a), to_arith(b)
    if not (z3.is_int(za) and z3.is_int(zb)):
        raise SymError("// on symbolic reals")
    if decide(zb == 0):
        raise DivByZero()
    if decide(zb > 0):
        return concretize(za / zb)          # z3 int div is floor for positive divisors
    return concretize((-za) / (-zb))        # floor(a/b) = floor(-a/-b), divisor now positive


def mod(a, b, decide):
    if _both_concrete(a, b):
        if _num(b) == 0:
            raise DivByZero()
        return _num(a) % _num(b)
    za, zb = to_arith(a), to_arith(b)
    if not (z3.is_int(za) and z3.is_int(zb)):
        raise SymError("% on symbolic reals")
    if decide(zb == 0):
        raise DivByZero()
    if decide(zb > 0):
        return concretize(za % zb)          # result in [0,b) as in Python for b>0
    return concretize(-((-za) % (-zb)))


_sqrt_f = z3.Function("sqrt_", z3.RealSort(), z3.RealSort())
_arccos_f = z3.Function("arccos_", z3.RealSort(), z3.RealSort())
PI = z3.Real("pi_")
_seen_arccos = []


def reset_axiom_state():
    del _seen_arccos[:]


def sqrt(u, decide):
    """np.sqrt / math.sqrt under A-real: r >= 0 and r*r == u; negative argument raises."""
    if not is_sym(u):
        if _num(u) < 0:
            raise DivByZero()
        r = math.isqrt(int(u)) if isinstance(u, int) else None
        if r is not None and r * r == u:
            return r
        if isinstance(u, Fraction):
            n, d = math.isqrt(u.numerator), math.isqrt(u.denominator)
            if n * n == u.numerator and d * d == u.denominator:
                return Fraction(n, d)
            u = z3.RealVal(u)
        elif isinstance(u, float):
            return math.sqrt(u)
        else:
            u = z3.RealVal(u)
    sos = _is_sos(to_real(u))
    zu = z3.simplify(to_real(u), som=True)      # canonical polynomial: equal polynomials give one sqrt_ term
    if sos:
        emit_fact(zu >= 0, "sum-of-squares")     # syntactically a sum of squares: no negative-argument path
    elif decide(zu < 0):
        raise DivByZero()
    r = _sqrt_f(zu)
    emit_fact(z3.And(r >= 0, r * r == zu), "A-sqrt")
    return r


def _is_sos(t):
    """syntactic check: sum (with non-negative numeric factors) of squares a*a / a**2"""
    k = t.decl().kind() if z3.is_app(t) else None
    if k == z3.Z3_OP_ADD:
        return all(_is_sos(c) for c in t.children())
    if k == z3.Z3_OP_MUL:
        ch = t.children()
        nums = [c for c in ch if z3.is_rational_value(c)]
        rest = [c for c in ch if not z3.is_rational_value(c)]
        if any(c.numerator_as_long() < 0 for c in nums):
            return False
        if len(rest) == 2 and rest[0].get_id() == rest[1].get_id():
            return True
        if len(rest) == 1:
            return _is_sos(rest[0])
        return False
    if k == z3.Z3_OP_POWER:
        e = t.children()[1]
        return z3.is_rational_value(e) and e.denominator_as_long() == 1 and e.numerator_as_long() % 2 == 0
    if z3.is_rational_value(t):
        return t.numerator_as_long() >= 0
    if k == z3.Z3_OP_TO_REAL:
        return _is_sos(t.children()[0])
    return False


def arccos(c, decide):
    """np.arccos axiomatised: strictly decreasing on [-1,1], arccos(1)=0, arccos(-1)=pi, in [0,pi];
    outside [-1,1] numpy raises (np.seterr(all='raise'))."""
    enclosure = None
    if not is_sym(c):
        if abs(_num(c)) > 1:
            raise DivByZero()
        if _num(c) == 1:
            return 0
        # concrete argument: besides the axioms, a numeric enclosure of the value (libm acos, +-1e-9) so that comparisons with
        # concrete limits are decided
        a = math.acos(float(_num(c)))
        enclosure = (Fraction(repr(a - 1e-9)) if a > 1e-9 else Fraction(0), Fraction(repr(a + 1e-9)))
        c = to_real(c)
    zc = to_real(c)
    if decide(z3.Or(zc < -1, zc > 1)):
        raise DivByZero()
    r = _arccos_f(zc)
    emit_fact(z3.And(r >= 0, r <= PI, PI > 3, PI < 4,
                     z3.Implies(zc == 1, r == 0), z3.Implies(zc == -1, r == PI),
                     z3.Implies(zc > -1, r < PI), z3.Implies(zc < 1, r > 0)), "A-arccos")
    if enclosure is not None:
        emit_fact(z3.And(r >= z3.RealVal(enclosure[0]), r <= z3.RealVal(enclosure[1])), "A-arccos-enclosure(libm +-1e-9)")
    for (oc, orr) in _seen_arccos:
        emit_fact(z3.And(z3.Implies(oc < zc, orr > r), z3.Implies(oc > zc, orr < r),
                         z3.Implies(oc == zc, orr == r)), "A-arccos-mono")
    _seen_arccos.append((zc, r))
    return r


def power(a, b, decide):
    if _both_concrete(a, b):
        return _num(a) ** _num(b)
    if is_sym(b):
        raise SymError("symbolic exponent")
    if isinstance(b, float) and b == int(b):
        b = int(b)
    if isinstance(b, int) and 0 <= b <= 4:
        r = 1
        for _ in range(b):
            r = mul(r, a)
        return r
    if b == 0.5:
        return sqrt(a, decide)
    if b == 1.5:
        return mul(a, sqrt(a, decide))
    if isinstance(b, int) and -4 <= b < 0:
        return truediv(1, power(a, -b, decide), decide)
    raise SymError(f"unsupported exponent {b}")


def py_abs(a):
    if not is_sym(a):
        return abs(_num(a))
    za = to_arith(a)
    return concretize(z3.If(za >= 0, za, -za))


def sign(a):
    """np.sign"""
    if not is_sym(a):
        a = _num(a)
        return (a > 0) - (a < 0) if not isinstance(a, float) else float((a > 0) - (a < 0))
    za = to_arith(a)
    return concretize(z3.If(za > 0, 1, z3.If(za < 0, -1, 0)))


def to_int(a):
    """Python int(x): truncation toward zero."""
    if not is_sym(a):
        return int(a)
    za = to_arith(a)
    if z3.is_int(za):
        return za
    return concretize(z3.If(za >= 0, z3.ToInt(za), -z3.ToInt(-za)))


_rnd = {}


def py_round(a, k):
    """round(x, k) / np.around: uninterpreted rnd_k with |rnd_k(x)-x| <= 5*10^-(k+1), idempotent on
    its own image, monotone (assumption A-round).  Concrete values are rounded exactly as decimals."""
    if not is_sym(a):
        if isinstance(a, Fraction):
            return Fraction(round(a * 10 ** k), 10 ** k)
        return round(a, k) if k else round(a)
    if k not in _rnd:
        _rnd[k] = z3.Function(f"rnd_{k}", z3.RealSort(), z3.RealSort())
    f = _rnd[k]
    za = to_real(a)
    r = f(za)
    eps = z3.RealVal(Fraction(5, 10 ** (k + 1)))
    emit_fact(z3.And(r - za <= eps, za - r <= eps, f(r) == r), "A-round")
    return r


# ---- comparisons ---------------------------------------------------------------------------

def _is_inf(v):
    return isinstance(v, float) and math.isinf(v)


def _cmp(a, b, pyop, zop):
    if _both_concrete(a, b):
        return pyop(_num(a), _num(b))
    # symbolic reals are finite (A-real): comparisons with +-inf are decided
    if _is_inf(a):
        return pyop(a, 0.0)
    if _is_inf(b):
        return pyop(0.0, b)
    return concretize(zop(to_arith(a), to_arith(b)))


def lt(a, b): return _cmp(a, b, lambda x, y: x < y, lambda x, y: x < y)
def le(a, b): return _cmp(a, b, lambda x, y: x <= y, lambda x, y: x <= y)
def gt(a, b): return _cmp(a, b, lambda x, y: x > y, lambda x, y: x > y)
def ge(a, b): return _cmp(a, b, lambda x, y: x >= y, lambda x, y: x >= y)
def eq(a, b): return _cmp(a, b, lambda x, y: x == y, lambda x, y: x == y)


def num_eq(a, b):
    if _both_concrete(a, b):
        return _num(a) == _num(b)
    if _is_inf(a) or _is_inf(b):
        return False
    za, zb = to_z3(a), to_z3(b)
    if z3.is_bool(za) != z3.is_bool(zb):
        za, zb = to_arith(za), to_arith(zb)
    return concretize(za == zb)


def b_and(*xs):
    out = []
    for x in xs:
        if not is_sym(x):
            if not x:
                return False
            continue
        out.append(x)
    if not out:
        return True
    return concretize(z3.And(*out)) if len(out) > 1 else out[0]


def b_or(*xs):
    out = []
    for x in xs:
        if not is_sym(x):
            if x:
                return True
            continue
        out.append(x)
    if not out:
        return False
    return concretize(z3.Or(*out)) if len(out) > 1 else out[0]


def b_not(x):
    if not is_sym(x):
        return not x
    return concretize(z3.Not(x))


def ite(c, a, b):
    """merge two scalar values under a symbolic condition"""
    if not is_sym(c):
        return a if c else b
    za, zb = to_z3(a), to_z3(b)
    if z3.is_bool(za) and z3.is_bool(zb):
        return concretize(z3.If(c, za, zb))
    za, zb = to_arith(za), to_arith(zb)
    if z3.is_int(za) != z3.is_int(zb):
        za, zb = to_real(za), to_real(zb)
    return concretize(z3.If(c, za, zb))
