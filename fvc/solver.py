"""Discharge of verification conditions.  Back ends, tried in order until one answers:
  1. z3 5.1 (python API), default tactic, rlimit budget (deterministic under load) + wall cap
  2. z3 5.1, nlsat tactic (QF_NRA)              3. cvc5 CLI on the SMT-LIB export
  4. /usr/bin/z3 4.8.12 CLI on the SMT-LIB export
`unknown` from all of them = undecided, never a violation.
"""
import os
import subprocess
import tempfile
import time
import z3

QUICK = dict(rlimit=2_000_000_000, wall_ms=8_000, cli_s=8)
THOROUGH = dict(rlimit=2_000_000_000, wall_ms=120_000, cli_s=120)


def _mk(rlimit, wall_ms, tactic=None):
    if tactic:
        s = z3.Tactic(tactic).solver()
    else:
        s = z3.Solver()
    s.set("timeout", wall_ms)
    try:
        s.set("rlimit", rlimit)
    except z3.Z3Exception:
        pass
    return s


_mulf = z3.Function("mul_", z3.RealSort(), z3.RealSort(), z3.RealSort())
_divf = z3.Function("div_", z3.RealSort(), z3.RealSort(), z3.RealSort())


_ABS_CACHE = {}
_ABS_KEEP = []      # keeps the abstracted terms alive so that AST ids are not reused


def linear_abstraction(formulas):
    """Sound over-approximation: every product of two non-constant factors becomes mul_(a,b) (factors
    ordered canonically, so commutativity is kept), division by a non-constant becomes div_(a,b).
    unsat of the abstraction implies unsat of the original."""
    cache = _ABS_CACHE

    def is_const(t):
        return z3.is_rational_value(t) or z3.is_int_value(t) or z3.is_algebraic_value(t)

    def rec(t):
        k = t.get_id()
        if k in cache:
            return cache[k]
        if not z3.is_app(t) or t.num_args() == 0:
            cache[k] = t
            return t
        ch = [rec(c) for c in t.children()]
        kind = t.decl().kind()
        if kind == z3.Z3_OP_MUL:
            consts = [c for c in ch if is_const(c)]
            rest = sorted([c for c in ch if not is_const(c)], key=lambda c: c.get_id())
            if len(rest) >= 2:
                rest = [z3.ToReal(c) if z3.is_int(c) else c for c in rest]
                acc = rest[0]
                for c in rest[1:]:
                    acc = _mulf(acc, c)
                if consts:
                    prod = consts[0]
                    for c in consts[1:]:
                        prod = prod * c
                    acc = (z3.ToReal(prod) if z3.is_int(prod) else prod) * acc
                r = acc
            else:
                r = t.decl()(*ch)
        elif kind == z3.Z3_OP_DIV and not is_const(ch[1]):
            r = _divf(ch[0], ch[1])
        elif kind == z3.Z3_OP_POWER:
            r = t.decl()(*ch)
        else:
            try:
                r = t.decl()(*ch)
            except z3.Z3Exception:
                r = t
        cache[k] = r
        _ABS_KEEP.append(t)
        return r

    return [rec(z3.simplify(f, som=True) if False else f) for f in formulas]


def check_sat(formulas, budget=QUICK, want_model=True, fallbacks=True):
    """returns (result, model_or_None, seconds, backend)"""
    t0 = time.time()
    try:
        ab = linear_abstraction(formulas)
        s0 = _mk(budget["rlimit"], min(5000, budget["wall_ms"]))
        s0.add(*ab)
        if s0.check() == z3.unsat:
            return ("unsat", None, time.time() - t0, "z3-5.1/linear-abstraction")
    except z3.Z3Exception:
        pass
    s = _mk(budget["rlimit"], budget["wall_ms"])
    s.add(*formulas)
    r = s.check()
    if r != z3.unknown:
        return (str(r), s.model() if r == z3.sat and want_model else None, time.time() - t0, "z3-5.1")
    if not fallbacks:
        return ("unknown", None, time.time() - t0, "z3-5.1")
    try:
        s2 = _mk(budget["rlimit"], budget["wall_ms"], "qfnra-nlsat")
        s2.add(*formulas)
        r = s2.check()
        if r != z3.unknown:
            return (str(r), s2.model() if r == z3.sat and want_model else None, time.time() - t0, "z3-5.1/nlsat")
    except z3.Z3Exception:
        pass
    smt = s.to_smt2()
    cli_sat = None
    for name, cmd in (("cvc5-1.0.3", ["/usr/bin/cvc5", "--lang=smt2", f"--tlimit={budget['cli_s']*1000}"]),
                      ("z3-4.8.12", ["/usr/bin/z3", f"-T:{budget['cli_s']}", "-smt2"])):
        if not os.path.exists(cmd[0]):
            continue
        with tempfile.NamedTemporaryFile("w", suffix=".smt2", delete=False) as f:
            f.write(smt)
            fn = f.name
        try:
            out = subprocess.run(cmd + [fn], capture_output=True, text=True, timeout=budget["cli_s"] + 10).stdout.strip().splitlines()
            ans = out[0].strip() if out else "unknown"
        except Exception:
            ans = "unknown"
        finally:
            os.unlink(fn)
        if ans == "unsat":
            return ("unsat", None, time.time() - t0, name)
        if ans == "sat":
            cli_sat = name
            break
    if cli_sat:
        # an independent solver found the VC refutable; the in-process z3 gave up (its search is not reproducible across process
        # states).  Try once more for a model with another seed, otherwise report the refutation without a model
        for seed in (7, 23):
            try:
                s3 = _mk(budget["rlimit"], 2 * budget["wall_ms"])
                s3.set("random_seed", seed)
                s3.add(*formulas)
                if s3.check() == z3.sat:
                    return ("sat", s3.model() if want_model else None, time.time() - t0, f"{cli_sat}+z3-5.1(seed {seed})")
            except z3.Z3Exception:
                pass
        return ("sat", None, time.time() - t0, cli_sat + " (no model)")
    return ("unknown", None, time.time() - t0, "all")


def model_value(model, term):
    """python float/int/bool of a term under a model (algebraic numbers approximated)"""
    from fractions import Fraction
    v = model.eval(term, model_completion=True)
    try:
        if z3.is_true(v):
            return True
        if z3.is_false(v):
            return False
        if z3.is_int_value(v):
            return v.as_long()
        if z3.is_rational_value(v):
            return float(Fraction(v.as_string()))       # as_string copes with numerals beyond 4300 digits limits better than as_long
        if z3.is_algebraic_value(v):
            a = v.approx(20)
            return float(Fraction(a.as_string()))
    except (ValueError, OverflowError, ZeroDivisionError):
        try:
            return float(v.as_decimal(30).rstrip("?"))
        except Exception:      # noqa
            return None
    return None
