r"""Obligations as proof harnesses over the real functions.

An obligation is a Python function `h(ctx)` that builds inputs (symbolic scalars, concrete shapes),
states the precondition with `ctx.assume`, calls the *real* repo function through the interpreter
(`ctx.call`), and states the postcondition with `ctx.ensure`.  The same harness is executed
 (i) symbolically: every feasible path of the real code is explored (decision-trace re-execution),
     every `ensure` on every path is a VC `facts /\ pc => goal` discharged by solver.py;
 (ii) natively (replay / conformance): `NativeCtx` feeds concrete numbers (a solver model or random
     values), the real CPython function from /repo runs, and the same `ensure` clauses are evaluated
     as floats.  So the oracle used on a counterexample is literally the postcondition that failed.
A loop-free harness over full-domain symbolic inputs is a complete proof for that shape.
"""
import itertools
import math
import random
import time
import traceback

import z3

from . import sym, solver
from .sym import SymError
from . import interp as I
from . import modeb
from . import npmodel as npm
from .extract import Sources


import os
_TRACE = bool(os.environ.get("FVC_TRACE"))


class AnchorNotFound(SymError):
    pass


class _FragmentVars(dict):
    def __init__(self, d, module):
        dict.__init__(self, d)
        self._module = module

    def __missing__(self, key):
        raise AnchorNotFound(f"anchor-not-found: fragment of {self._module} no longer defines the local '{key}' the contract reads back")


def find_fragment(sources, module, qualname, patterns, exprs=False, skips=()):
    """statements (or one expression) of a repo function located by source-text anchors.  For statements: when all anchors are
    siblings of one block, the fragment is the WHOLE span from the first to the last anchor - a statement inserted between them
    belongs to it - minus the statements the contract explicitly leaves to an assumed dependency (`skips`, text prefixes)."""
    import ast
    got = sources.load(module)
    if got is None:
        raise AnchorNotFound(f"anchor-not-found: module {module}")
    node = got[0]
    for part in qualname.split("."):
        for ch in ast.iter_child_nodes(node):
            if isinstance(ch, (ast.FunctionDef, ast.ClassDef)) and ch.name == part:
                node = ch
                break
        else:
            raise AnchorNotFound(f"anchor-not-found: {module}:{qualname}")
    out = []
    for pat in patterns:
        hit = None
        for n in ast.walk(node):
            if exprs:
                if isinstance(n, ast.expr) and ast.unparse(n) == pat:
                    hit = n
                    break
            elif isinstance(n, ast.stmt):
                txt = ast.unparse(n)
                if txt.startswith(pat):
                    hit = n
                    break
        if hit is None:
            raise AnchorNotFound(f"anchor-not-found: statement starting with {pat!r} in {module}:{qualname}")
        out.append(hit)
    if not exprs and len(out) > 1:
        where = {}
        for n in ast.walk(node):
            for field in ("body", "orelse", "finalbody"):
                blk = getattr(n, field, None)
                if isinstance(blk, list):
                    for i, st in enumerate(blk):
                        where[id(st)] = (blk, i)
        blocks = {id(where[id(h)][0]) for h in out if id(h) in where}
        if len(blocks) == 1 and all(id(h) in where for h in out):
            blk = where[id(out[0])][0]
            idx = [where[id(h)][1] for h in out]
            out = [st for st in blk[min(idx):max(idx) + 1]
                   if st in out or not any(ast.unparse(st).startswith(sk) for sk in skips)]
    return out


class PathInfeasible(Exception):
    pass


class Path:
    def __init__(self, trace, explorer):
        self.trace = list(trace)
        self.pos = 0
        self.taken = []
        self.pc = []
        self.facts = []
        self.explorer = explorer
        self.s = z3.Solver()
        self.s.set("rlimit", explorer.feas_rlimit)
        self.s.set("timeout", 400)
        self.sl = z3.Solver()          # linear abstraction of the same constraints: cheap infeasibility filter
        self.sl.set("timeout", 3000)
        self.unknown_feasibility = False
        self.order_sampled = False
        self.gc_deferred = False
        self.order_mode = None

    def add_fact(self, f, tag):
        if isinstance(f, bool):
            if not f:
                raise PathInfeasible()
            return
        f = z3.simplify(f)
        if z3.is_true(f):
            return
        if z3.is_false(f):
            raise PathInfeasible()
        self.facts.append((f, tag))
        self.s.add(f)
        self.sl.add(*solver.linear_abstraction([f]))

    def _feasible(self, lit):
        """Feasibility filter for branch decisions.  Decided on the linear abstraction of facts/\\pc/\\lit
        (products of unknowns as uninterpreted terms): `unsat` there is `unsat` for real, `sat` there is
        treated as feasible.  Over-approximating feasibility is sound: every VC of a path is discharged
        against the exact (non-abstracted) path condition, so an infeasible path only yields vacuous VCs."""
        self.sl.push()
        self.sl.add(*solver.linear_abstraction([lit]))
        r0 = self.sl.check()
        self.sl.pop()
        self.explorer.feas_checks += 1
        if r0 == z3.unknown:
            self.unknown_feasibility = True
        return r0 != z3.unsat

    def decide(self, cond):
        if self.pos < len(self.trace):
            d = self.trace[self.pos]
            self.pos += 1
        else:
            t = self._feasible(cond)
            f = self._feasible(z3.Not(cond))
            if t and f:
                d = True
                self.explorer.pending.append(self.taken + [False])
            elif t:
                d = True
            elif f:
                d = False
            else:
                raise PathInfeasible()
            self.pos += 1
        self.taken.append(d)
        if _TRACE:
            print("  decide", "REPLAY" if self.pos <= len(self.trace) else "NEW", d, str(cond).replace("\n", " ")[:150])
        lit = cond if d else z3.Not(cond)
        self.pc.append(lit)
        self.s.add(lit)
        self.sl.add(*solver.linear_abstraction([lit]))
        return d

    def choose(self, n):
        """nondeterministic choice among n alternatives (set iteration order)"""
        if n <= 1:
            return 0
        if self.pos < len(self.trace):
            d = self.trace[self.pos]
        else:
            d = 0
            for k in range(1, n):
                self.explorer.pending.append(self.taken + [("c", k)])
        self.pos += 1
        self.taken.append(("c", d) if not isinstance(d, tuple) else d)
        return d[1] if isinstance(d, tuple) else d

    def set_order(self, elems):
        """Iteration order of a set is an arbitrary choice.  It is explored through three *global* modes per
        harness (every set of a path is read in insertion order / reversed / rotated by one), not through all
        permutations of every set (that is exponential in the number of sets); sets with more than two elements
        are therefore only sampled, which is recorded as the assumption `set-order-sampled`."""
        n = len(elems)
        if n <= 1:
            return elems
        if self.order_mode is None:
            self.order_mode = self.choose(3)
        if n > 2:
            self.order_sampled = True
        if self.order_mode == 0:
            return elems
        if self.order_mode == 1:
            return elems[::-1]
        return elems[1:] + elems[:1]


class VC:
    def __init__(self, name, result, seconds, backend, path_id, model=None, detail=""):
        self.name, self.result, self.seconds, self.backend = name, result, seconds, backend
        self.path_id, self.model, self.detail = path_id, model, detail


class Unexpected(Exception):
    def __init__(self, exc):
        self.exc = exc


class SymCtx:
    mode = "sym"

    def __init__(self, explorer, path):
        self.ex = explorer
        self.path = path
        self.world = explorer.world
        self.it = I.Interp(self.world, path)
        self.symbols = explorer.symbols
        sym._fact_sink[0] = path.add_fact
        sym.reset_axiom_state()
        self.world.ctx = self
        self.vcs = []
        self.results = []

    # -- inputs
    def real(self, name):
        v = z3.Real(name)
        self.symbols[name] = v
        return v

    def int(self, name):
        v = z3.Int(name)
        self.symbols[name] = v
        return v

    def bool(self, name):
        v = z3.Bool(name)
        self.symbols[name] = v
        return v

    def reals(self, prefix, n):
        return [self.real(f"{prefix}{i}") for i in range(n)]

    def assume(self, f, tag="pre"):
        f = _to_bool(f)
        self.path.add_fact(f, tag)

    def distinct(self, xs, tag="pre"):
        xs = [sym.to_z3(x) for x in xs]
        if len(xs) > 1:
            self.path.add_fact(z3.Distinct(*xs), tag)

    # -- code under verification
    def module(self, name):
        m = self.it.module(name)
        if m is None:
            raise SymError("no such repo module " + name)
        return m

    def get(self, obj, name):
        return self.it.getattr(obj, name)

    def set(self, obj, name, v):
        return self.it.setattr(obj, name, v)

    def item(self, obj, key):
        return self.it.getitem(obj, key)

    def call(self, f, *args, **kwargs):
        return self.it.call(f, list(args), kwargs)

    def callm(self, obj, name, *args, **kwargs):
        return self.it.call(self.it.getattr(obj, name), list(args), kwargs)

    def raises(self, thunk, *classes):
        """run thunk; returns the exception instance if the program raised one of `classes`, else None"""
        try:
            thunk()
        except I.IRaise as r:
            if not classes or isinstance(r.exc, classes):
                return r.exc
            raise
        return None

    def fragment(self, module, qualname, patterns, skips=()):
        """statement contract: the statements of function `qualname` from the first to the last anchor (source text, ast.unparse,
        starts with one of `patterns`; structural anchors, no line numbers), everything in between included except `skips`;
        AnchorNotFound if an anchor is missing"""
        return find_fragment(self.ex.sources, module, qualname, patterns, skips=skips)

    def fragment_expr(self, module, qualname, pattern):
        """the first EXPRESSION of the function whose source text (ast.unparse) equals `pattern` - survives a statement being
        rewritten around it (loop -> comprehension)"""
        return find_fragment(self.ex.sources, module, qualname, [pattern], exprs=True)[0]

    def eval_fragment(self, module, node, env):
        m = self.module(module)
        e = I.Env(m.env, dict(env))
        try:
            return self.it.eval(node, e, m)
        except I.IRaise as r:
            if isinstance(r.exc, (NameError, UnboundLocalError)):
                raise AnchorNotFound(f"anchor-not-found: expression of {module} reads a local the contract does not provide ({r.exc})")
            raise

    def run_fragment(self, module, stmts, env):
        """executes the anchored statements with the locals the contract provides.  A statement contract depends on the NAMES of
        the function's locals: if the fragment reads a name the contract does not provide, or no longer defines one the contract
        reads back, the code was restructured - that is `anchor-not-found` (undecided), never a violation."""
        m = self.module(module)
        e = I.Env(m.env, dict(env))
        self.it.frame_stack.append(e)               # the fragment's locals are a frame of their own (finaliser model, Interp.drop_ref)
        try:
            self.it.exec_block(stmts, e, m, None)
        except I.IRaise as r:
            if isinstance(r.exc, (NameError, UnboundLocalError)):
                raise AnchorNotFound(f"anchor-not-found: fragment of {module} reads a local the contract does not provide ({r.exc})")
            raise
        finally:
            if e in self.it.frame_stack:
                self.it.frame_stack.remove(e)
        return _FragmentVars(e.vars, module)

    def alloc(self, cls, **attrs):
        """an instance of a repo class without running its constructor (frame conditions are set by the harness)"""
        o = I.IObj(cls)
        o.attrs.update(attrs)
        o.allocated = True
        return o

    def none_is(self, v):
        return v is None

    def invariant(self, func_key, ordinal, inv, modifies=None):
        """registers the inductive invariant of loop #ordinal (source order) of the repo function `func_key`:
        inv(look, k) -> formula, look(name) reads a local of the function; `modifies` = locals assigned in the loop body"""
        self.world.loop_invariants[(func_key, ordinal)] = dict(inv=inv, modifies=None if modifies is None else list(modifies))

    def stub(self, key, fn, note=None):
        self.world.stubs[key] = fn
        self.ex.assumed[key] = note or "assumed contract"

    def unstub(self, key):
        self.world.stubs.pop(key, None)

    def dict(self, pairs=()):
        return I.IDict(list(pairs))

    def list_of(self, x):
        if isinstance(x, npm.NDArr):
            return x.tolist()
        if isinstance(x, I.IDict):
            return [(k, v) for k, v in x.items_]
        return list(self.it.iterate(x))

    def keys(self, d):
        return [k for k, _ in d.items_]

    # -- logic
    def eq(self, a, b):
        return self.it.eq(a, b)

    def ensure(self, f, name):
        """VC: facts /\\ pc => f"""
        f = _to_bool(f)
        pid = self.ex.path_counter
        if self.ex.collect_only:
            return
        if isinstance(f, bool):
            if f:
                self.vcs.append(VC(name, "unsat", 0.0, "trivial", pid))
            else:
                # goal is literally False: violated iff the path is feasible
                if self.ex.stop_after_failure and self.ex.failed:
                    self.vcs.append(VC(name, "skipped", 0.0, "not attempted after an earlier VC of this instance failed", pid))
                    return
                r, m, secs, be = solver.check_sat([x for x, _ in self.path.facts] + self.path.pc, self.ex.budget)
                self.vcs.append(VC(name, r, secs, be, pid, m, "goal is False on this path"))
                if r != "unsat":
                    self.ex.failed = True
            return
        if self.ex.stop_after_failure and self.ex.failed:
            self.vcs.append(VC(name, "skipped", 0.0, "not attempted after an earlier VC of this instance failed", pid))
            return
        forms = [x for x, _ in self.path.facts] + self.path.pc + [z3.Not(f)]
        r, m, secs, be = solver.check_sat(forms, self.ex.budget)
        self.vcs.append(VC(name, r, secs, be, pid, m))
        if r != "unsat":
            self.ex.failed = True

    def lemma(self, goal, name, premises=None):
        """ghost assertion: prove `goal` (from the given premises only, or from all facts of the path), then make
        it available as a hypothesis.  It guides the solver and is never an assumption: it is itself a VC."""
        goal = _to_bool(goal)
        if isinstance(goal, bool):
            if not goal:
                self.ensure(False, "lemma:" + name)
            return
        if not self.ex.collect_only:
            prem = [_to_bool(p) for p in premises] if premises is not None else [x for x, _ in self.path.facts] + self.path.pc
            prem = [p for p in prem if not isinstance(p, bool)]
            r, m, secs, be = solver.check_sat(prem + [z3.Not(goal)], self.ex.budget)
            self.vcs.append(VC("lemma:" + name, r, secs, be, self.ex.path_counter, m))
            if r != "unsat":
                return
        self.path.add_fact(goal, "lemma")

    def fail(self, name, detail=""):
        self.ensure(False, name)
        if self.vcs:
            self.vcs[-1].detail = detail

    def note(self, **kw):
        self.ex.notes.update(kw)

    def record_result(self, value):
        self.results.append(value)

    # polymorphic helpers for spec code
    def And(self, *xs): return sym.b_and(*[_to_bool(x) for x in xs])
    def Or(self, *xs): return sym.b_or(*[_to_bool(x) for x in xs])
    def Not(self, x): return sym.b_not(_to_bool(x))
    def Implies(self, a, b): return sym.b_or(sym.b_not(_to_bool(a)), _to_bool(b))
    def ite(self, c, a, b): return sym.ite(_to_bool(c), a, b)
    def zero(self, x): return sym.num_eq(x, 0)
    def close(self, a, b): return sym.num_eq(a, b)
    def gt(self, a, b): return sym.gt(a, b)
    def ge(self, a, b): return sym.ge(a, b)
    def lt(self, a, b): return sym.lt(a, b)
    def le(self, a, b): return sym.le(a, b)
    def sqrt(self, u): return sym.sqrt(u, self.it.decide)
    def abs(self, u): return sym.py_abs(u)


def _to_bool(f):
    if isinstance(f, bool):
        return f
    if isinstance(f, z3.BoolRef):
        return f
    if isinstance(f, npm.NDArr):
        return sym.b_and(*[_to_bool(x) for x in f.data])
    if isinstance(f, (list, tuple)):
        return sym.b_and(*[_to_bool(x) for x in f])
    if f is None:
        raise SymError("None used as a formula")
    if sym.is_sym(f):
        return sym.concretize(sym.to_arith(f) != 0)
    return bool(f)


class Explorer:
    """explores all feasible paths of one harness"""

    def __init__(self, harness, tier="quick", sources=None, max_paths=4000):
        self.harness = harness
        self.sources = sources or Sources()
        self.world = I.World(self.sources.load)
        self.pending = [[]]
        self.symbols = {}
        self.assumed = {}
        self.notes = {}
        self.budget = solver.QUICK if tier == "quick" else solver.THOROUGH
        self.feas_rlimit = 2_000_000_000
        self.path_counter = 0
        self.feas_checks = 0
        self.max_paths = max_paths
        self.paths = []
        self.vcs = []
        self.errors = []
        self.unknown_feasibility = False
        self.order_sampled = False
        self.gc_deferred_paths = set()
        self.collect_only = False
        self.failed = False
        self.stop_after_failure = True

    def run(self):
        t0 = time.time()
        while self.pending:
            if self.failed and self.stop_after_failure:
                break
            trace = self.pending.pop()
            self.path_counter += 1
            if self.path_counter > self.max_paths:
                self.errors.append(("path-budget", f"more than {self.max_paths} paths"))
                break
            path = Path(trace, self)
            ctx = SymCtx(self, path)
            status = "ok"
            try:
                self.harness(ctx)
            except PathInfeasible:
                status = "infeasible"
            except modeb.PathEnd:
                status = "ok"                      # preservation branch of a loop cut at its invariant
            except I.IRaise as r:
                # an exception the harness did not expect: violation iff the path is feasible
                status = "raised:" + type(r.exc).__name__
                forms = [x for x, _ in path.facts] + path.pc
                res, m, secs, be = solver.check_sat(forms, self.budget)
                ctx.vcs.append(VC("no-unexpected-exception", {"sat": "sat", "unsat": "unsat"}.get(res, "unknown"), secs, be,
                                  self.path_counter, m, f"{type(r.exc).__name__}: {r.exc}"))
            except SymError as e:
                status = "harness-incomplete" if isinstance(e, I.HarnessIncomplete) else "out-of-subset"
                self.errors.append((status, str(e)))
            except RecursionError:
                status = "out-of-subset"
                self.errors.append(("out-of-subset", "host recursion limit"))
            finally:
                sym._fact_sink[0] = None
            self.unknown_feasibility |= path.unknown_feasibility
            self.order_sampled |= path.order_sampled
            if path.gc_deferred:
                self.gc_deferred_paths.add(self.path_counter)
            self.paths.append(dict(id=self.path_counter, decisions=len(path.taken), status=status,
                                   vcs=len(ctx.vcs)))
            self.vcs.extend(ctx.vcs)
        self.seconds = time.time() - t0
        return self


# ------------------------------------------------------------------------------------------------
# native execution of the same harness

class NativeSkip(Exception):
    """the concrete input does not satisfy the harness precondition"""


class NativeFail(Exception):
    pass


class NativeCtx:
    mode = "native"

    def __init__(self, values, rel_tol=1e-6, abs_tol=1e-7, apply_stubs=False):
        self.values = values
        self.apply_stubs = apply_stubs
        self._patched = []
        self.rel_tol, self.abs_tol = rel_tol, abs_tol
        self.failures = []
        self.checked = []
        self.results = []
        self.unexpected = None

    def _val(self, name, default):
        if name in self.values and self.values[name] is not None:
            return self.values[name]
        return default

    def real(self, name): return float(self._val(name, 0.0))
    def int(self, name): return int(self._val(name, 0))
    def bool(self, name): return bool(self._val(name, False))
    def reals(self, prefix, n): return [self.real(f"{prefix}{i}") for i in range(n)]

    def assume(self, f, tag="pre"):
        if not _nb(f):
            raise NativeSkip(tag)

    def distinct(self, xs, tag="pre"):
        if len(set(xs)) != len(xs):
            raise NativeSkip(tag)

    def module(self, name):
        import importlib
        return importlib.import_module(name)

    def get(self, obj, name): return getattr(obj, name)
    def set(self, obj, name, v): setattr(obj, name, v)
    def item(self, obj, key): return obj[key]
    def call(self, f, *a, **k): return f(*a, **k)
    def callm(self, obj, name, *a, **k): return getattr(obj, name)(*a, **k)

    def fragment(self, module, qualname, patterns, skips=()):
        return find_fragment(Sources(), module, qualname, patterns, skips=skips)

    def fragment_expr(self, module, qualname, pattern):
        return find_fragment(Sources(), module, qualname, [pattern], exprs=True)[0]

    def eval_fragment(self, module, node, env):
        import ast, importlib
        g = dict(vars(importlib.import_module(module)))
        g.update(env)
        try:
            return eval(compile(ast.fix_missing_locations(ast.Expression(body=node)), f"<expression of {module}>", "eval"), g)
        except NameError as ex:
            raise NativeSkip(f"expression reads a local the contract does not provide: {ex}")

    def run_fragment(self, module, stmts, env):
        import ast, importlib
        g = dict(vars(importlib.import_module(module)))
        g.update(env)
        code = compile(ast.fix_missing_locations(ast.Module(body=list(stmts), type_ignores=[])), f"<fragment of {module}>", "exec")
        try:
            exec(code, g)
        except NameError as ex:
            raise NativeSkip(f"fragment reads a local the contract does not provide: {ex}")
        return _FragmentVars(g, module)

    def alloc(self, cls, **attrs):
        o = object.__new__(cls)
        for k, v in attrs.items():
            setattr(o, k, v)
        self._allocated = getattr(self, "_allocated", set()) | {cls.__name__}
        for k, v in _ctor_defaults(cls).items():        # same rule as Interp._allocated_default
            if k not in attrs:
                try:
                    setattr(o, k, v())
                except Exception:      # noqa
                    pass
        return o

    def none_is(self, v):
        return v is None

    def raises(self, thunk, *classes):
        try:
            thunk()
        except Exception as e:       # noqa
            if not classes or isinstance(e, classes) or type(e).__name__ in [c.__name__ for c in classes]:
                return e
            raise
        return None

    def stub(self, key, fn, note=None):
        """natively the real callee runs, unless `apply_stubs` (conformance runs, and the second replay attempt
        `under the assumed contract`): then the repo function is patched to return what the contract says"""
        if not self.apply_stubs:
            return
        import importlib
        if ":" not in key:
            if "." not in key or key.startswith("builtins."):
                return
            modname, qual = key.rsplit(".", 1)          # a library function, e.g. scipy.spatial.Voronoi: patched on its module
        else:
            modname, qual = key.split(":")
        owner = importlib.import_module(modname)
        parts = qual.split(".")
        for p in parts[:-1]:
            owner = getattr(owner, p)
        if (owner, parts[-1]) not in [(o, n) for o, n, _ in self._patched]:
            self._patched.append((owner, parts[-1], getattr(owner, parts[-1])))
        setattr(owner, parts[-1], lambda *a, **k: fn(None, list(a), k))

    def unstub(self, key): pass

    def restore(self):
        for owner, name, orig in reversed(self._patched):
            setattr(owner, name, orig)
        self._patched = []

    def dict(self, pairs=()): return dict(pairs)

    def list_of(self, x):
        import numpy as np
        if isinstance(x, np.ndarray):
            return x.tolist()
        if isinstance(x, dict):
            return list(x.items())
        return list(x)

    def keys(self, d): return list(d.keys())

    def eq(self, a, b):
        if isinstance(a, (int, float)) and isinstance(b, (int, float)) and not isinstance(a, bool):
            return self.close(a, b)
        try:
            r = a == b
            return bool(r) if not hasattr(r, "all") else bool(r.all())
        except Exception:
            return False

    def ensure(self, f, name):
        ok = _nb(f)
        self.checked.append((name, ok))
        if not ok:
            self.failures.append(name)

    def lemma(self, goal, name, premises=None):
        self.ensure(goal, "lemma:" + name)

    def fail(self, name, detail=""):
        self.checked.append((name, False))
        self.failures.append(name)

    def note(self, **kw): pass
    def record_result(self, value): self.results.append(value)

    def And(self, *xs): return all(_nb(x) for x in xs)
    def Or(self, *xs): return any(_nb(x) for x in xs)
    def Not(self, x): return not _nb(x)
    def Implies(self, a, b): return (not _nb(a)) or _nb(b)
    def ite(self, c, a, b): return a if _nb(c) else b
    def zero(self, x): return abs(x) <= self.abs_tol
    def close(self, a, b): return math.isclose(a, b, rel_tol=self.rel_tol, abs_tol=self.abs_tol)
    def gt(self, a, b): return a > b - self.abs_tol
    def ge(self, a, b): return a >= b - self.abs_tol
    def lt(self, a, b): return a < b + self.abs_tol
    def le(self, a, b): return a <= b + self.abs_tol
    def sqrt(self, u): return math.sqrt(u)
    def abs(self, u): return abs(u)


def _nb(f):
    if hasattr(f, "all") and not isinstance(f, bool):
        return bool(f.all())
    if isinstance(f, (list, tuple)):
        return all(_nb(x) for x in f)
    return bool(f)


def _ctor_defaults(cls):
    """attribute -> thunk for the state-free defaults the real constructor would have set (dataclass field defaults / factories,
    top-level `self.x = <empty or constant literal>` in __post_init__ / __init__)"""
    import ast
    import dataclasses
    import inspect
    import textwrap
    out = {}
    if dataclasses.is_dataclass(cls):
        for f in dataclasses.fields(cls):
            if f.default is not dataclasses.MISSING:
                out[f.name] = (lambda d=f.default: d)
            elif f.default_factory is not dataclasses.MISSING:
                out[f.name] = f.default_factory
    for ctor in ("__post_init__", "__init__"):
        fn = getattr(cls, ctor, None)
        if fn is None or not inspect.isfunction(fn):
            continue
        try:
            node = ast.parse(textwrap.dedent(inspect.getsource(fn))).body[0]
        except Exception:      # noqa
            continue
        selfname = node.args.args[0].arg if node.args.args else "self"
        for st in node.body:
            if isinstance(st, ast.Assign) and len(st.targets) == 1:
                t, val = st.targets[0], st.value
            elif isinstance(st, ast.AnnAssign) and st.value is not None:
                t, val = st.target, st.value
            else:
                continue
            if not (isinstance(t, ast.Attribute) and isinstance(t.value, ast.Name) and t.value.id == selfname):
                continue
            state_free = (isinstance(val, ast.Constant) or (isinstance(val, (ast.Dict, ast.List, ast.Set, ast.Tuple)) and not (getattr(val, "keys", None) or getattr(val, "elts", None)))
                          or (isinstance(val, ast.Call) and isinstance(val.func, ast.Name) and val.func.id in ("dict", "list", "set") and not val.args and not val.keywords))
            if state_free and t.attr not in out:
                out[t.attr] = (lambda v=val: eval(compile(ast.Expression(v), "<default>", "eval"), {}))
    return out


def run_native(harness, values, apply_stubs=False):
    """returns (status, ctx) with status in ok / fail / skip / raised"""
    ctx = NativeCtx(values, apply_stubs=apply_stubs)
    import contextlib, io
    try:
        with contextlib.redirect_stdout(io.StringIO()):      # the repo prints diagnostics
            harness(ctx)
    except NativeSkip:
        return "skip", ctx
    except Exception as e:      # the real code raised something the harness does not expect
        import re as _re
        m = _re.match(r"'(\w+)' object has no attribute '(\w+)'", str(e)) if isinstance(e, AttributeError) else None
        if m and m.group(1) in getattr(ctx, "_allocated", ()):
            return "skip", ctx          # harness-incomplete: an allocated object lacks an attribute the code reads (not a violation)
        ctx.unexpected = e
        ctx.failures.append("no-unexpected-exception")
        return "raised", ctx
    finally:
        ctx.restore()
    return ("fail" if ctx.failures else "ok"), ctx
