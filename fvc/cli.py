"""fvcheck: run the obligations of one property, write evidence, print verdict lines.

exit 0  every obligation discharged (or covered by a listed known finding), bounded stand-ins clean
exit 1  a VC was refuted / a bounded stand-in failed  -> `VIOLATION property=<id> replay=<path>`
exit 2  undecided (solver unknown on all back ends, out-of-subset, anchor not found) - never a VIOLATION line
exit 3  the engine itself failed (crash, conformance mismatch, zero obligations)
"""
import argparse
import json
import multiprocessing as mp
import os
import sys
import time
import traceback

ROOT = os.path.dirname(os.path.dirname(os.path.abspath(__file__)))
sys.path.insert(0, ROOT)
if os.environ.get("FVC_REPO"):
    sys.path.insert(0, os.environ["FVC_REPO"])     # scratch copy under test (mutant self-tests): native replays import it too
sys.setrecursionlimit(20000)


def _values_from_model(model, symbols):
    from . import solver
    out = {}
    for name, term in symbols.items():
        out[name] = solver.model_value(model, term)
    return out


def run_instance(args):
    """worker: explore one obligation instance; returns a picklable dict"""
    oid, label, tier, seed = args
    from . import registry, harness, solver
    import z3
    t0 = time.time()
    out = dict(obligation=oid, instance=label, vcs=[], paths=0, errors=[], assumed={}, inlined=[],
               seconds=0.0, status="crash", replays=[], conformance=None, notes={})
    try:
        registry.load_all()
        ob = registry.OBLIGATIONS[oid]
        h = dict(ob.instances(tier))[label]
        if isinstance(h, registry.LeanCheck):
            return run_lean(out, h, tier, t0)
        ex = harness.Explorer(h, tier=tier)
        ex.run()
        out["paths"] = len(ex.paths)
        out["path_status"] = {}
        for p in ex.paths:
            out["path_status"][p["status"]] = out["path_status"].get(p["status"], 0) + 1
        out["errors"] = [list(e) for e in ex.errors]
        out["assumed"] = dict(ex.assumed)
        out["used_stubs"] = sorted(ex.world.used_stubs)
        out["inlined"] = sorted(ex.world.inlined)
        out["notes"] = dict(ex.notes)
        out["feas_checks"] = ex.feas_checks
        out["unknown_feasibility"] = ex.unknown_feasibility
        out["order_sampled"] = ex.order_sampled
        units = {}
        for key in out["inlined"] + out["used_stubs"]:
            if ":" in key:
                u = ex.sources.unit(key)
                if u:
                    units[key] = dict(sha256=u[1], line=u[2])
        out["units"] = units
        refuted = 0
        for vc in ex.vcs:
            d = dict(name=vc.name, result=vc.result, seconds=round(vc.seconds, 4), backend=vc.backend,
                     path=vc.path_id, detail=vc.detail)
            if vc.result == "sat":
                refuted += 1
                vals = _values_from_model(vc.model, ex.symbols) if vc.model is not None else {}
                d["model"] = vals
                # replay on the real code
                try:
                    st, nctx = harness.run_native(h, vals)
                    d["native"] = dict(status=st, failures=nctx.failures, mode="real code, no stubs",
                                       unexpected=repr(nctx.unexpected) if nctx.unexpected else None)
                    d["reproduced"] = st in ("fail", "raised")
                    if not d["reproduced"] and ex.assumed:
                        st, nctx = harness.run_native(h, vals, apply_stubs=True)
                        d["native_under_assumed_contracts"] = dict(status=st, failures=nctx.failures,
                                                                   unexpected=repr(nctx.unexpected) if nctx.unexpected else None)
                        d["reproduced"] = st in ("fail", "raised")
                except Exception as e:      # noqa
                    d["native"] = dict(status="replay-crash", error=repr(e))
                    d["reproduced"] = False
                if (vc.name == "no-unexpected-exception" and not d["reproduced"] and d.get("native", {}).get("status") == "ok"
                        and d.get("native_under_assumed_contracts", {}).get("status", "ok") == "ok"):
                    # the model raised where CPython, on the very same input, does not: a gap of the library model, not a verdict
                    d["result"] = "unknown"
                    d["backend"] = d["backend"] + "+model-raises-cpython-does-not"
                    refuted -= 1
                elif not d["reproduced"] and vc.path_id in ex.gc_deferred_paths:
                    # the path left a finaliser pending because the object was still referenced from the heap; when CPython runs
                    # it is outside the model, so a refutation that does not replay is no verdict
                    d["result"] = "unknown"
                    d["backend"] = d["backend"] + "+finaliser-timing"
                    refuted -= 1
            out["vcs"].append(d)
        if not ex.vcs and not ex.errors:
            out["errors"].append(["vacuous", "harness produced no verification condition"])
        if any(p["status"] == "ok" for p in ex.paths) is False and not ex.errors and not any(p["status"].startswith("raised") for p in ex.paths):
            out["errors"].append(["vacuous", "no feasible path (contradictory precondition)"])
        # conformance: sample inputs satisfying the precondition, run the real code, the harness's own
        # ensures must hold natively too (they were proved), otherwise the engine's model is wrong
        undecided_vcs = [d for d in out["vcs"] if d["result"] not in ("sat", "unsat")]
        if refuted == 0 and not undecided_vcs and not ex.errors and ex.symbols:
            out["conformance"] = conformance(h, ex, seed, 2 if tier == "quick" else 10)
        elif undecided_vcs and ex.symbols:
            # the solvers gave no verdict: look for a concrete witness by running the real code on
            # solver-sampled inputs that satisfy the precondition (falsification by replay)
            # with assumed contracts in play the real callee is patched to behave as assumed, so that a failing run
            # is a counterexample to the unit under contract and not to the assumption (e.g. circle-fit accuracy)
            c = conformance(h, ex, seed, 12 if tier == "quick" else 60, apply_stubs=bool(ex.assumed), hunting=True)
            out["falsification"] = {k: (len(v) if isinstance(v, list) else v) for k, v in c.items()}
            if c["mismatches"]:
                mm = c["mismatches"][0]
                names = set(mm["failures"])
                hit = [d for d in undecided_vcs if d["name"] in names] or undecided_vcs[:1]
                for d in hit[:1]:
                    d["result"] = "sat"
                    d["backend"] = d["backend"] + "+concrete-witness"
                    d["model"] = mm["values"]
                    d["native"] = dict(status=mm["status"], failures=mm["failures"], unexpected=mm["unexpected"],
                                       mode="real code on a sampled precondition model")
                    d["reproduced"] = True
        out["status"] = "done"
    except Exception as e:      # noqa
        out["errors"].append(["crash", traceback.format_exc()[-2000:]])
    out["seconds"] = round(time.time() - t0, 3)
    return out


def run_lean(out, h, tier, t0):
    import hashlib
    import subprocess
    path = os.path.join(ROOT, h.path)
    text = open(path, "rb").read()
    sha = hashlib.sha256(text).hexdigest()
    rec_path = os.path.join(ROOT, "lean", "checked.json")
    rec = json.load(open(rec_path)) if os.path.exists(rec_path) else {}
    src = text.decode()
    missing = [t for t in h.theorems if ("theorem " + t) not in src]
    sorry = "sorry" in src or "admit" in src or "axiom " in src
    if tier == "quick":
        ok = rec.get(h.path) == sha and not missing and not sorry
        out["vcs"].append(dict(name="lean:" + ",".join(h.theorems), result="unsat" if ok else "unknown", seconds=0.0,
                               backend="lean-4 kernel (cached: sha256 of the source equals the one accepted by the last thorough run)",
                               path=0, detail="" if ok else f"source hash {sha[:12]} not in lean/checked.json, theorem missing {missing} or sorry/axiom present: run the thorough tier"))
    else:
        t1 = time.time()
        try:
            p = subprocess.run(["lean", path], capture_output=True, text=True, timeout=1200)
            txt = p.stdout + p.stderr
            ok = p.returncode == 0 and "error" not in txt and not missing and not sorry
        except Exception as e:      # noqa
            txt, ok = repr(e), False
        out["vcs"].append(dict(name="lean:" + ",".join(h.theorems), result="unsat" if ok else "unknown", seconds=round(time.time() - t1, 2),
                               backend="lean-4.33 kernel + Mathlib", path=0, detail="" if ok else txt[-800:]))
        if ok:
            rec[h.path] = sha
            json.dump(rec, open(rec_path, "w"), indent=1)
    out["paths"] = 1
    out["path_status"] = {"ok": 1}
    out["status"] = "done"
    out["units"] = {}
    out["assumed"] = {"lean-bridge": "the matrix statements of lean/Lmin.lean are the same as the SMT-side obligations O01.1/O03.1/O05.1 (bridge written once in each language, trusted)"}
    out["seconds"] = round(time.time() - t0, 3)
    return out


def _worker(conn):
    """long-lived worker: receives tasks over its pipe, sends results back; killed by the parent if a task overruns"""
    try:
        from . import registry
        registry.load_all()
    except Exception:      # noqa
        pass
    while True:
        try:
            task = conn.recv()
        except EOFError:
            return
        if task is None:
            return
        try:
            conn.send(run_instance(task))
        except Exception:      # noqa
            conn.send(dict(obligation=task[0], instance=task[1], vcs=[], paths=0, errors=[["crash", traceback.format_exc()[-1500:]]],
                           assumed={}, inlined=[], seconds=0.0, status="crash"))


def run_tasks(tasks, jobs, hard_timeout):
    """`jobs` long-lived worker processes (spawned, never forked after z3 was imported); each obligation instance runs
    under a hard wall-clock limit: a solver that ignores its own budget gets its worker killed (and replaced) and the
    instance is reported undecided (never a violation)"""
    ctx = mp.get_context("spawn")
    pending = list(tasks)
    results = {}

    def spawn():
        parent, child = ctx.Pipe(duplex=True)
        p = ctx.Process(target=_worker, args=(child,), daemon=True)
        p.start()
        child.close()
        return dict(p=p, conn=parent, task=None, t0=None)

    def blank(t, kind, msg, secs):
        vcs = [dict(name="(whole instance)", result="unknown", seconds=secs, backend="hard-timeout", path=0, detail="")] if kind == "timeout" else []
        return dict(obligation=t[0], instance=t[1], vcs=vcs, paths=0, errors=[[kind, msg]], assumed={}, inlined=[], seconds=secs, status=kind)

    workers = [spawn() for _ in range(max(1, min(jobs, len(tasks))))]
    while pending or any(w["task"] is not None for w in workers):
        for i, w in enumerate(workers):
            if w["task"] is None:
                if pending:
                    w["task"], w["t0"] = pending.pop(0), time.time()
                    try:
                        w["conn"].send(w["task"])
                    except (BrokenPipeError, OSError):
                        results[w["task"][:2]] = blank(w["task"], "crash", "worker pipe broken", 0.0)
                        w["p"].kill()
                        workers[i] = spawn()
                continue
            t = w["task"]
            if w["conn"].poll(0):
                try:
                    results[t[:2]] = w["conn"].recv()
                    w["task"] = None
                except (EOFError, OSError):
                    results[t[:2]] = blank(t, "crash", "worker died", time.time() - w["t0"])
                    w["p"].kill()
                    workers[i] = spawn()
            elif not w["p"].is_alive():
                results[t[:2]] = blank(t, "crash", f"worker exited with {w['p'].exitcode}", time.time() - w["t0"])
                workers[i] = spawn()
            elif time.time() - w["t0"] > hard_timeout:
                w["p"].kill()
                w["p"].join(5)
                results[t[:2]] = blank(t, "timeout", f"instance exceeded the hard limit of {hard_timeout}s", time.time() - w["t0"])
                workers[i] = spawn()
        time.sleep(0.02)
    for w in workers:
        try:
            w["conn"].send(None)
        except Exception:      # noqa
            pass
    for w in workers:
        w["p"].join(2)
        if w["p"].is_alive():
            w["p"].kill()
    return [results[t[:2]] for t in tasks]


def conformance(h, ex, seed, k, apply_stubs=True, hunting=False):
    """k solver-chosen concrete inputs satisfying the harness precondition are run through CPython"""
    from . import harness, sym
    import z3
    import random
    rnd = random.Random(seed)
    # re-run the first path to collect its facts (precondition + axioms) and pc
    res = dict(samples=0, ok=0, skipped=0, mismatches=[])
    pend = [[]]
    ex2 = harness.Explorer(h)
    ex2.collect_only = True
    # collect one feasible path's constraints by running it again
    path = harness.Path([], ex2)
    ctx = harness.SymCtx(ex2, path)
    try:
        h(ctx)
    except Exception:      # noqa
        pass
    finally:
        sym._fact_sink[0] = None
    forms = [f for f, tag in path.facts if tag in ("pre",) or tag.startswith("A-fit") or tag.startswith("pre")]
    s = z3.Solver()
    s.set("timeout", 1500)
    s.set("random_seed", seed % 1000)
    s.add(*forms)
    names = sorted(ex2.symbols)
    attempts = 0
    plain_used = False
    t_start = time.time()
    wall_cap = 45.0 if k <= 2 else 150.0          # sampling is evidence about the engine, not a proof step: never let it eat the instance's hard limit
    while res["samples"] - res["skipped"] < k and attempts < 6 * k:
        if time.time() - t_start > wall_cap:
            res["capped"] = True
            break
        attempts += 1
        s.push()
        # nudge towards different points: random box constraints that may be unsat (then another box is tried)
        for n in rnd.sample(names, min(len(names), 3)):
            t = ex2.symbols[n]
            if z3.is_real(t) or z3.is_int(t):
                lo = rnd.randint(-5, 4)
                s.add(t >= lo, t <= lo + 2)
        r = s.check()
        m = s.model() if r == z3.sat else None
        s.pop()
        if m is None:
            if plain_used:
                continue
            plain_used = True
            if s.check() != z3.sat:
                continue
            m = s.model()
        vals = _values_from_model(m, ex2.symbols)
        tiny = (lambda v: False) if hunting else (lambda v: 0 < abs(v) < 1e-8)      # when hunting for a witness a native failure is a finding whatever the magnitudes
        if any(isinstance(v, float) and (v != v or abs(v) > 1e8 or tiny(v)) for v in vals.values()):
            continue                      # model values whose spread exceeds what double arithmetic resolves (1e58 next to 1e-19): the reals of
                                          # the encoding are not floats (A-real); such a sample says nothing about the engine
        st, nctx = harness.run_native(h, vals, apply_stubs=apply_stubs)
        res["samples"] += 1
        if st == "ok":
            res["ok"] += 1
        elif st == "skip":
            res["skipped"] += 1           # e.g. a precondition stated over an axiomatised function (arccos, sqrt) does not hold for the real one
        else:
            res["mismatches"].append(dict(values=vals, status=st, failures=nctx.failures,
                                          unexpected=repr(nctx.unexpected)))
            if len(res["mismatches"]) >= 3:
                break
    return res


def _slug(s):
    import re
    return re.sub(r"[^A-Za-z0-9._-]+", "_", s)


def load_known():
    p = os.path.join(ROOT, "known_findings.json")
    if not os.path.exists(p):
        return dict(findings=[], fixed=[])
    return json.load(open(p))


def check_property(prop, tier, seed, jobs):
    from . import registry
    registry.load_all()
    t0 = time.time()
    obs = [o for o in registry.OBLIGATIONS.values() if prop in o.props]
    tasks = []
    for o in obs:
        for label, _ in o.instances(tier):
            tasks.append((o.id, label, tier, seed))
    bnds = [b for b in registry.BOUNDED.values() if prop in b.props]
    results = run_tasks(tasks, jobs, 400 if tier == "quick" else 2700)
    bres = []
    for b in bnds:
        tb = time.time()
        try:
            r = b.fn(tier, seed)
            r["id"], r["title"], r["bound"] = b.id, b.title, b.bound
            r["seconds"] = round(time.time() - tb, 2)
        except Exception:      # noqa
            r = dict(id=b.id, title=b.title, bound=b.bound, crash=traceback.format_exc()[-3000:], failures=[],
                     evaluations=0, distinct_nontrivial=0, rule="", samples=[])
        bres.append(r)
    return finish(prop, tier, seed, obs, results, bres, time.time() - t0)


def finish(prop, tier, seed, obs, results, bres, wall):
    from . import registry
    known = load_known()
    kf = {(k["property"], k.get("obligation"), k.get("instance")): k for k in known.get("findings", [])}
    kf_b = {(k["property"], k.get("bounded"), k.get("key")): k for k in known.get("findings", []) if k.get("bounded")}
    os.makedirs(os.path.join(ROOT, "out", "replays", prop), exist_ok=True)
    lines = []
    violations, undecided, engine_err, known_reported = [], [], [], []
    n_obl = n_dis = n_vc = 0
    per_obl = []
    units = {}
    assumed = {}
    solver_s = 0.0
    conf = dict(samples=0, ok=0, skipped=0, mismatches=0)
    for r in results:
        oid, label = r["obligation"], r["instance"]
        ob = registry.OBLIGATIONS[oid]
        n_obl += 1
        n_vc += len(r["vcs"])
        units.update(r.get("units", {}))
        assumed.update(r.get("assumed", {}))
        solver_s += sum(v["seconds"] for v in r["vcs"])
        bad = [v for v in r["vcs"] if v["result"] == "sat"]
        unk = [v for v in r["vcs"] if v["result"] not in ("sat", "unsat")]
        errs = r["errors"]
        kentry = kf.get((prop, oid, label)) or kf.get((prop, oid, None)) if (label in ob.known or None in ob.known or "*" in ob.known) else None
        status = "discharged"
        if any(e[0] in ("crash", "vacuous") for e in errs):
            status = "engine-error"
            engine_err.append((oid, label, errs))
        elif bad:
            if kentry is not None:
                status = "known-finding"
                known_reported.append((kentry, oid, label))
                n_obl -= 1          # a refuted obligation listed as a known finding is reported separately, not claimed
            else:
                status = "refuted"
                for v in bad:
                    rp = os.path.join("out", "replays", prop, _slug(f"{oid}__{label}__{v['name'][:48]}__p{v['path']}") + ".json")
                    json.dump(dict(property=prop, obligation=oid, instance=label, title=ob.title, vc=v["name"],
                                   units=r.get("units"), solver=dict(result="sat", backend=v["backend"], seconds=v["seconds"]),
                                   model=v.get("model"), native=v.get("native"), reproduced=v.get("reproduced"),
                                   detail=v.get("detail"),
                                   replay_cmd=f"./fvcheck replay {rp}"), open(os.path.join(ROOT, rp), "w"), indent=1, default=str)
                    violations.append((oid, label, v, rp))
        elif unk or errs:
            status = "undecided"
            undecided.append((oid, label, [v["name"] for v in unk], errs))
        else:
            if kentry is not None:
                lines.append(f"NOTE: known finding {kentry.get('id')} ({oid}/{label}) no longer fails: entry is stale")
            n_dis += 1
        c = r.get("conformance")
        if c:
            conf["samples"] += c["samples"]
            conf["ok"] += c["ok"]
            conf["skipped"] += c["skipped"]
            conf["mismatches"] += len(c["mismatches"])
            if c["mismatches"] and status == "discharged":
                status = "conformance-mismatch"
                n_dis -= 1
                engine_err.append((oid, label, [["conformance", json.dumps(c["mismatches"][:1], default=str)[:600]]]))
        per_obl.append(dict(obligation=oid, instance=label, title=ob.title, tier=ob.tier, status=status,
                            vcs=len(r["vcs"]), paths=r["paths"], path_status=r.get("path_status"),
                            seconds=r["seconds"], backends=sorted({v["backend"] for v in r["vcs"]}),
                            conformance=c and {k: (len(v) if isinstance(v, list) else v) for k, v in c.items()},
                            order_sampled=r.get("order_sampled"), unknown_feasibility=r.get("unknown_feasibility"),
                            errors=[e[:2] for e in errs][:3], notes=r.get("notes")))
    # bounded stand-ins
    b_eval = b_dist = 0
    b_samples = []
    b_out = []
    for b in bres:
        if b.get("crash"):
            engine_err.append((b["id"], "bounded", [["crash", b["crash"]]]))
        fails = b.get("failures", [])
        newf = []
        for f in fails:
            k = kf_b.get((prop, b["id"], f.get("key")))
            if k is not None:
                known_reported.append((k, b["id"], f.get("key")))
            else:
                newf.append(f)
        for i, f in enumerate(newf[:5]):
            rp = os.path.join("out", "replays", prop, f"{b['id']}__{i}.json")
            json.dump(dict(property=prop, bounded=b["id"], failure=f, replay_cmd=f"./fvcheck replay {rp}"),
                      open(os.path.join(ROOT, rp), "w"), indent=1, default=str)
            violations.append((b["id"], f.get("key"), dict(name=f.get("name"), reproduced=True, native=f), rp))
        b_eval += b.get("evaluations", 0)
        b_dist += b.get("distinct_nontrivial", 0)
        b_samples.extend(b.get("samples", [])[:3])
        b_out.append({k: v for k, v in b.items() if k not in ("failures", "samples", "crash")} | dict(failures=len(fails), new_failures=len(newf)))

    if n_obl == 0 and not bres:
        engine_err.append(("-", "-", [["vacuous", "no obligation registered for this property"]]))

    seen_kf = set()
    for k, oid, label in known_reported:
        if k.get("id") in seen_kf:
            continue
        seen_kf.add(k.get("id"))
        lines.append(f"KNOWN-FINDING: property={prop} {k.get('id')} {k.get('what')}")
    for oid, label, v, rp in violations:
        tail = "" if v.get("reproduced") else " no-failing-input-found"
        lines.append(f"VIOLATION property={prop} replay={rp} obligation={oid}/{label} vc={v.get('name')}{tail}")
    for oid, label, names, errs in undecided:
        lines.append(f"UNDECIDED property={prop} obligation={oid}/{label} vcs={names} errors={[e[:2] for e in errs][:2]}")
    for oid, label, errs in engine_err:
        lines.append(f"ENGINE-ERROR property={prop} obligation={oid}/{label} {str(errs)[:1500]}")

    manifest_level = "proof"
    try:
        man = json.load(open(os.path.join(ROOT, "MANIFEST.json")))
        for c in man["checks"]:
            if c["property_id"] == prop:
                manifest_level = c["level_claimed"]["category"]
    except Exception:      # noqa
        pass
    n_known = len({(oid, label) for _, oid, label in known_reported})
    coverage = dict(
        obligations=n_obl, discharged=n_dis, verification_conditions=n_vc,
        checker_cmd=f"./fvcheck check {prop} --tier {tier}",
        trusted_base=sorted(set(f"{k}: {v}" for k, v in assumed.items())) + TRUSTED_ALWAYS,
        explanation=("obligations are proof harnesses executed symbolically over the real AST of /repo/forsys "
                     "(fvc engine, z3/cvc5 back ends); `discharged` counts only obligations whose every VC on every "
                     "feasible path is unsat; bounded stand-ins are reported separately under `bounded` and are "
                     "never counted as discharged"),
        units_under_contract=units, per_obligation=per_obl, solver_seconds=round(solver_s, 3),
        known_findings_reported=sorted(seen_kf), obligations_covered_by_known_findings=n_known,
        undecided=[(o, l) for o, l, _, _ in undecided],
        conformance_samples=conf,
        bounded=b_out, evaluations=b_eval, distinct_nontrivial=b_dist,
        rule="bounded stand-ins only: see bounded[*].rule", samples=b_samples[:6] or [p for p in per_obl[:3]],
        exhaustive=False)
    ev = dict(property_id=prop, tier=tier, seed=seed, level=manifest_level, coverage=coverage,
              assumptions=sorted(set(assumed.values())) + TRUSTED_ALWAYS, wall_s=round(wall, 2),
              violations=len(violations))
    os.makedirs(os.path.join(ROOT, "evidence"), exist_ok=True)
    json.dump(ev, open(os.path.join(ROOT, "evidence", f"{prop}.json"), "w"), indent=1, default=str)
    for ln in lines:
        print(ln)
    print(f"{prop}: obligations={n_obl} discharged={n_dis} known={n_known} vcs={n_vc} refuted={len(violations)} "
          f"undecided={len(undecided)} engine_errors={len(engine_err)} bounded_evals={b_eval} wall={wall:.1f}s")
    if violations:
        return 1
    if engine_err:
        return 3
    if undecided:
        return 2
    return 0


TRUSTED_ALWAYS = [
    "fvc engine (AST interpreter, numpy/builtins models, VC generation): home-grown, guarded by CPython conformance runs and mutant self-tests",
    "A-real: floats are mathematical reals (no rounding, overflow, nan/inf)",
    "z3 5.1 / cvc5 1.0.3 / z3 4.8.12 soundness",
]


def replay(path):
    from . import registry, harness
    registry.load_all()
    d = json.load(open(path if os.path.isabs(path) else os.path.join(ROOT, path)))
    if d.get("bounded"):
        b = registry.BOUNDED[d["bounded"]]
        print("bounded failure recorded:", json.dumps(d["failure"], indent=1, default=str)[:3000])
        mod = sys.modules[b.fn.__module__]
        if hasattr(mod, "replay"):
            ok = mod.replay(d["failure"])
            print("replay:", "still fails" if not ok else "passes now")
            return 1 if not ok else 0
        return 1
    ob = registry.OBLIGATIONS[d["obligation"]]
    h = dict(ob.instances("quick"))[d["instance"]]
    st, nctx = harness.run_native(h, d.get("model") or {})
    print(f"obligation {d['obligation']}/{d['instance']} vc={d['vc']}")
    print("inputs:", json.dumps(d.get("model"), default=str))
    print("native status:", st, "failures:", nctx.failures, "unexpected:", repr(nctx.unexpected))
    return 1 if st in ("fail", "raised") else 0


def main(argv=None):
    ap = argparse.ArgumentParser(prog="fvcheck")
    sub = ap.add_subparsers(dest="cmd", required=True)
    c = sub.add_parser("check")
    c.add_argument("prop")
    c.add_argument("--tier", default=os.environ.get("VERIF_TIER", "quick"), choices=["quick", "thorough"])
    c.add_argument("--jobs", type=int, default=int(os.environ.get("FVC_JOBS", "16")))
    r = sub.add_parser("replay")
    r.add_argument("path")
    l = sub.add_parser("list")
    o = sub.add_parser("one")
    o.add_argument("oid")
    o.add_argument("--tier", default="quick")
    o.add_argument("--instance", default=None)
    a = ap.parse_args(argv)
    seed = int(os.environ.get("VERIF_SEED", "0") or 0)
    if a.cmd == "check":
        return check_property(a.prop, a.tier, seed, a.jobs)
    if a.cmd == "replay":
        return replay(a.path)
    if a.cmd == "list":
        from . import registry
        registry.load_all()
        for o in registry.OBLIGATIONS.values():
            print(o.id, o.props, o.tier, o.title, [l for l, _ in o.instances("quick")])
        for b in registry.BOUNDED.values():
            print(b.id, b.props, "B", b.title)
        return 0
    if a.cmd == "one":
        from . import registry
        registry.load_all()
        ob = registry.OBLIGATIONS[a.oid]
        rc = 0
        for label, _ in ob.instances(a.tier):
            if a.instance and label != a.instance:
                continue
            r = run_instance((a.oid, label, a.tier, seed))
            print(label, r["status"], "paths", r["paths"], r.get("path_status"), f"{r['seconds']}s", "errors", r["errors"][:2])
            for v in r["vcs"]:
                if v["result"] != "unsat":
                    print("   ", v["name"], v["result"], v["backend"], v["seconds"], v.get("detail"), v.get("model"), v.get("native"))
                    rc = 1
            if r.get("falsification"):
                print("    falsification", r["falsification"])
            if r.get("conformance"):
                print("    conformance", {k: (len(v) if isinstance(v, list) else v) for k, v in r["conformance"].items()}, r["conformance"]["mismatches"][:1])
        return rc


if __name__ == "__main__":
    sys.exit(main())
