"""Mechanical extraction of the verified text from /repo's working tree (re-read on every run).

What is dropped (and nothing else): docstrings (expression statements that are constants) and type
annotations (never evaluated).  `print`, `warnings.warn`, `np.seterr` are kept in the AST and are
no-ops in the library model.
"""
import ast
import hashlib
import os

REPO = os.environ.get("FVC_REPO", "/repo")


class Sources:
    def __init__(self, repo=None):
        self.repo = repo or REPO
        self.cache = {}

    def path_of(self, dotted):
        rel = dotted.replace(".", "/")
        for cand in (rel + ".py", rel + "/__init__.py"):
            p = os.path.join(self.repo, cand)
            if os.path.isfile(p):
                return p
        return None

    def load(self, dotted):
        if not (dotted == "forsys" or dotted.startswith("forsys.")):
            return None
        if dotted in self.cache:
            return self.cache[dotted]
        p = self.path_of(dotted)
        if p is None:
            self.cache[dotted] = None
            return None
        text = open(p, encoding="utf-8").read()
        tree = ast.parse(text, filename=p)
        if dotted == "forsys":
            # the package __init__ imports every submodule (incl. plotting / OpenCV ones); submodules are
            # resolved lazily by the interpreter instead, so only its np.seterr line matters (a no-op here)
            tree = ast.parse("", filename=p)
        self.cache[dotted] = (tree, text)
        return self.cache[dotted]

    def unit(self, key):
        """key = 'pkg.mod:Qual.name' -> (source text, sha256, first line) of that def; None if absent"""
        mod, qual = key.split(":")
        got = self.load(mod)
        if got is None:
            return None
        tree, text = got
        node = tree
        for part in qual.split("."):
            if part == "<locals>" or part == "<lambda>":
                return None
            for ch in ast.iter_child_nodes(node):
                if isinstance(ch, (ast.FunctionDef, ast.ClassDef)) and ch.name == part:
                    node = ch
                    break
            else:
                return None
        seg = ast.get_source_segment(text, node)
        return seg, hashlib.sha256(seg.encode()).hexdigest(), node.lineno
