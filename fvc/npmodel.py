"""Model of the part of numpy that forsys uses, over scalars from sym.py (concrete or z3 terms).

NDArr = flat row-major data + shape, with numpy's broadcasting, basic/advanced indexing and the
handful of routines the repo calls.  Shapes are always concrete (mode a).  The model is checked
against the real numpy on random concrete inputs by fvc/selftest.py (differential test) and, per
obligation, by the CPython conformance guard.
"""
import itertools
from fractions import Fraction
from . import sym
from .sym import SymError


class NDArr:
    __slots__ = ("data", "shape", "dtype")

    def __init__(self, data, shape, dtype="float"):
        self.data = list(data)
        self.shape = tuple(shape)
        self.dtype = dtype
        n = 1
        for s in self.shape:
            n *= s
        if n != len(self.data):
            raise SymError(f"NDArr: {len(self.data)} items for shape {self.shape}")

    @property
    def ndim(self):
        return len(self.shape)

    @property
    def size(self):
        return len(self.data)

    def __len__(self):
        if not self.shape:
            raise TypeError("len() of unsized object")
        return self.shape[0]

    def __repr__(self):
        return f"NDArr({self.tolist()!r})"

    def tolist(self):
        def rec(off, dims):
            if not dims:
                return self.data[off]
            step = 1
            for d in dims[1:]:
                step *= d
            return [rec(off + i * step, dims[1:]) for i in range(dims[0])]
        return rec(0, self.shape)

    def copy(self):
        return NDArr(self.data, self.shape, self.dtype)

    def strides(self):
        st, acc = [], 1
        for d in reversed(self.shape):
            st.append(acc)
            acc *= d
        return tuple(reversed(st))


def _is_seq(x):
    return isinstance(x, (list, tuple))


def asarray(x, dtype=None):
    if isinstance(x, NDArr):
        return x
    if _is_seq(x) or isinstance(x, range):
        x = list(x)
        if not x:
            return NDArr([], (0,))
        subs = [asarray(e) for e in x]
        sh = subs[0].shape
        for s in subs:
            if s.shape != sh:
                raise SymError("ragged array (numpy would build an object array or raise)")
        data = []
        for s in subs:
            data.extend(s.data)
        return NDArr(data, (len(x),) + sh, _common_dtype(subs))
    if hasattr(x, "_is_idictview") or hasattr(x, "__iter__") and not isinstance(x, (str, dict)):
        return asarray(list(x))
    return NDArr([x], (), _scalar_dtype(x))


def _scalar_dtype(x):
    if isinstance(x, bool) or sym.is_symbool(x):
        return "bool"
    if isinstance(x, int):
        return "int"
    if sym.is_sym(x):
        import z3
        return "int" if z3.is_int(x) else "float"
    if isinstance(x, (float, Fraction)):
        return "float"
    return "object"


def _common_dtype(arrs):
    ds = {a.dtype for a in arrs}
    for d in ("object", "float", "int", "bool"):
        if d in ds:
            return d
    return "float"


def broadcast_shapes(a, b):
    out = []
    for x, y in itertools.zip_longest(reversed(a), reversed(b), fillvalue=1):
        if x == y or y == 1:
            out.append(x)
        elif x == 1:
            out.append(y)
        else:
            raise ValueError(f"operands could not be broadcast together with shapes {a} {b}")
    return tuple(reversed(out))


def _bidx(arr, shape):
    """list of flat indices into arr for every position of the broadcast shape"""
    nd = len(shape)
    ash = (1,) * (nd - arr.ndim) + arr.shape
    ast = (0,) * (nd - arr.ndim) + arr.strides()
    idxs = []
    for pos in itertools.product(*[range(s) for s in shape]):
        off = 0
        for p, s, st in zip(pos, ash, ast):
            if s != 1:
                off += p * st
        idxs.append(off)
    return idxs


def elementwise(f, a, b, dtype=None):
    a, b = asarray(a), asarray(b)
    sh = broadcast_shapes(a.shape, b.shape)
    ia, ib = _bidx(a, sh), _bidx(b, sh)
    data = [f(a.data[i], b.data[j]) for i, j in zip(ia, ib)]
    return NDArr(data, sh, dtype or _common_dtype([a, b]))


def unary(f, a, dtype=None):
    a = asarray(a)
    return NDArr([f(x) for x in a.data], a.shape, dtype or a.dtype)


def unwrap0(a):
    """0-d arrays behave as scalars for our purposes"""
    if isinstance(a, NDArr) and a.shape == ():
        return a.data[0]
    return a


# ---- indexing --------------------------------------------------------------------------------

def _norm_index(i, n):
    if sym.is_sym(i):
        raise SymError("symbolic index into a concrete-shape array")
    if isinstance(i, bool):
        raise SymError("bool index")
    i = int(i)
    if i < -n or i >= n:
        raise IndexError(f"index {i} is out of bounds for axis with size {n}")
    return i % n if n else 0


def _select(arr, key):
    """returns (flat index list, result shape)"""
    if not isinstance(key, tuple):
        key = (key,)
    if len(key) > arr.ndim:
        # trailing indices into 0-d: numpy raises
        raise IndexError("too many indices for array")
    key = list(key) + [slice(None)] * (arr.ndim - len(key))
    axes = []      # per axis: (list of positions, keepdim)
    adv = [k for k in key if isinstance(k, (NDArr, list))]
    if len(adv) > 1:
        raise SymError("more than one advanced index")
    for k, n in zip(key, arr.shape):
        if isinstance(k, slice):
            axes.append((list(range(*k.indices(n))), True))
        elif isinstance(k, (NDArr, list)):
            ka = asarray(k)
            if ka.dtype == "bool":
                if ka.shape != (n,):
                    raise SymError("boolean mask of other shape")
                pos = []
                for j, m in enumerate(ka.data):
                    if sym.is_sym(m):
                        raise SymError("symbolic boolean mask")
                    if m:
                        pos.append(j)
                axes.append((pos, True))
            else:
                if ka.ndim != 1:
                    raise SymError("advanced index with ndim != 1")
                axes.append(([_norm_index(j, n) for j in ka.data], True))
        else:
            axes.append(([_norm_index(k, n)], False))
    st = arr.strides()
    flat = []
    for pos in itertools.product(*[a[0] for a in axes]):
        flat.append(sum(p * s for p, s in zip(pos, st)))
    shape = tuple(len(a[0]) for a in axes if a[1])
    return flat, shape


def getitem(arr, key):
    flat, shape = _select(arr, key)
    if shape == ():
        return arr.data[flat[0]]
    return NDArr([arr.data[i] for i in flat], shape, arr.dtype)


def setitem(arr, key, value):
    flat, shape = _select(arr, key)
    v = asarray(value)
    bs = broadcast_shapes(shape, v.shape)
    if bs != shape:
        raise ValueError(f"could not broadcast input array from shape {v.shape} into shape {shape}")
    iv = _bidx(v, shape)
    for i, j in zip(flat, iv):
        arr.data[i] = v.data[j]


# ---- construction / reshaping ---------------------------------------------------------------

def zeros(shape, dtype="float"):
    if isinstance(shape, int):
        shape = (shape,)
    shape = tuple(int(s) for s in shape)
    n = 1
    for s in shape:
        n *= s
    return NDArr([0.0 if dtype == "float" else 0] * n, shape, dtype)


def ones(shape):
    z = zeros(shape)
    z.data = [1.0] * len(z.data)
    return z


class Uninit:
    """content of np.empty: reading it is an error of the program under verification"""
    def __repr__(self):
        return "<uninit>"


UNINIT = Uninit()


def empty(shape, dtype="float"):
    z = zeros(shape)
    z.data = [UNINIT] * len(z.data)
    return z


def reshape(a, shape):
    a = asarray(a)
    if isinstance(shape, int):
        shape = (shape,)
    shape = list(shape)
    if -1 in shape:
        known = 1
        for s in shape:
            if s != -1:
                known *= s
        shape[shape.index(-1)] = len(a.data) // known if known else 0
    return NDArr(a.data, tuple(shape), a.dtype)


def transpose(a):
    a = asarray(a)
    if a.ndim < 2:
        return a.copy()
    if a.ndim != 2:
        raise SymError("transpose ndim>2")
    r, c = a.shape
    return NDArr([a.data[i * c + j] for j in range(c) for i in range(r)], (c, r), a.dtype)


def flatten(a):
    a = asarray(a)
    return NDArr(a.data, (len(a.data),), a.dtype)


def concatenate(arrs, axis=0):
    arrs = [asarray(a) for a in arrs]
    if axis != 0:
        if axis == 1 and all(a.ndim == 2 for a in arrs):
            return transpose(concatenate([transpose(a) for a in arrs], 0))
        raise SymError("concatenate axis")
    nd = arrs[0].ndim
    if nd == 0:
        raise ValueError("zero-dimensional arrays cannot be concatenated")
    rest = arrs[0].shape[1:]
    for a in arrs:
        if a.ndim != nd or a.shape[1:] != rest:
            raise ValueError("all the input array dimensions except for the concatenation axis must match exactly")
    data = []
    for a in arrs:
        data.extend(a.data)
    return NDArr(data, (sum(a.shape[0] for a in arrs),) + rest, _common_dtype(arrs))


def atleast_2d(a):
    a = asarray(a)
    if a.ndim == 0:
        return NDArr(a.data, (1, 1), a.dtype)
    if a.ndim == 1:
        return NDArr(a.data, (1, a.shape[0]), a.dtype)
    return a


def vstack(arrs):
    return concatenate([atleast_2d(a) for a in arrs], 0)


def hstack(arrs):
    arrs = [asarray(a) for a in arrs]
    arrs = [reshape(a, (1,)) if a.ndim == 0 else a for a in arrs]
    if arrs[0].ndim == 1:
        return concatenate(arrs, 0)
    return concatenate(arrs, 1)


def append(a, values):
    return concatenate([flatten(a), flatten(values)], 0)


def insert(a, idx, value):
    a = asarray(a)
    if a.ndim != 1:
        raise SymError("insert ndim")
    idx = _norm_index(idx, len(a.data) + 1) if idx != len(a.data) else idx
    d = list(a.data)
    d.insert(idx, value)
    return NDArr(d, (len(d),), a.dtype)


def delete(a, idx, axis=None):
    a = asarray(a)
    idxs = [idx] if not isinstance(idx, (list, NDArr)) else list(asarray(idx).data)
    if axis is None:
        a = flatten(a)
        axis = 0
    n = a.shape[axis]
    drop = {_norm_index(i, n) for i in idxs}
    keep = [i for i in range(n) if i not in drop]
    key = tuple([slice(None)] * axis + [keep])
    return getitem(a, key)


def roll(a, k):
    a = asarray(a)
    if a.ndim != 1:
        raise SymError("roll ndim")
    n = len(a.data)
    if n == 0:
        return a.copy()
    k %= n
    return NDArr(a.data[-k:] + a.data[:-k] if k else a.data, a.shape, a.dtype)


def split(a, indices):
    a = asarray(a)
    if a.ndim != 1:
        raise SymError("split ndim")
    idx = [int(i) for i in asarray(indices).data]
    out, prev = [], 0
    for i in idx + [len(a.data)]:
        out.append(NDArr(a.data[prev:i], (max(0, i - prev),), a.dtype))
        prev = i
    return out


def arange(*args):
    return asarray(list(range(*[int(x) for x in args])))


def tolist(a):
    return asarray(a).tolist()
