/-
Dimension-generic lemmas used by the chain properties C01 / C03 / C05 (DESIGN.md, "Lean 4 / Mathlib").
They talk about matrices, not about repo code; the bridge is the obligation that says which matrix the code built
(O02.7, O05.1, O01.1, O03.1).
-/
import Mathlib

open Matrix BigOperators

variable {m n : Type*} [Fintype m] [Fintype n]

/-- L-min: a point with zero residual minimises the squared residual among ALL candidates,
hence also among the non-negative ones. -/
theorem zero_residual_is_minimiser (A : Matrix m n ℝ) (b : m → ℝ) (x : n → ℝ)
    (hx : A.mulVec x = b) (y : n → ℝ) :
    ∑ i, (A.mulVec x i - b i) ^ 2 ≤ ∑ i, (A.mulVec y i - b i) ^ 2 := by
  have h0 : ∑ i, (A.mulVec x i - b i) ^ 2 = 0 := by
    simp [hx]
  rw [h0]
  exact Finset.sum_nonneg (fun i _ => sq_nonneg _)

/-- L-aug (static chain): if the tensions `T` balance every junction (`M T = 0`) and do not sum to zero, then
`T` scaled to mean one, with multiplier 0, solves the augmented system `[[M, 1], [1ᵀ, 0]] (x, λ) = (0, c)`. -/
theorem balanced_tensions_solve_augmented (M : Matrix m n ℝ) (T : n → ℝ)
    (hM : M.mulVec T = 0) (hs : ∑ j, T j ≠ 0) :
    let c : ℝ := (Fintype.card n : ℝ)
    let x : n → ℝ := fun j => c / (∑ j, T j) * T j
    (∀ i, M.mulVec x i + 1 * (0 : ℝ) = 0) ∧ (∑ j, x j + 0 * (0 : ℝ) = c) := by
  intro c x
  constructor
  · intro i
    have hx : x = (c / ∑ j, T j) • T := by
      funext j; simp [x, Pi.smul_apply, smul_eq_mul]
    rw [hx, Matrix.mulVec_smul, hM]
    simp
  · have : ∑ j, x j = c / (∑ j, T j) * ∑ j, T j := by
      simp [x, Finset.mul_sum]
    rw [this, div_mul_cancel₀ c hs]
    ring

/-- L-lin: the solution of a nonsingular system is linear in the right-hand side (pressures are linear in the
tensions because the right-hand side `tension × turning` is). -/
theorem solution_linear_in_rhs [DecidableEq n] (A : Matrix n n ℝ) (b₁ b₂ : n → ℝ) (α β : ℝ) :
    A⁻¹.mulVec (α • b₁ + β • b₂) = α • A⁻¹.mulVec b₁ + β • A⁻¹.mulVec b₂ := by
  rw [Matrix.mulVec_add, Matrix.mulVec_smul, Matrix.mulVec_smul]

omit [Fintype m] in
/-- L-perm: relabelling unknowns (columns) by a permutation permutes the minimiser: residuals agree. -/
theorem residual_column_perm (A : Matrix m n ℝ) (σ : Equiv.Perm n) (x : n → ℝ) :
    (A.submatrix id σ).mulVec (x ∘ σ) = A.mulVec x := by
  funext i
  simp only [Matrix.mulVec, dotProduct, Matrix.submatrix_apply, id_eq, Function.comp]
  exact Equiv.sum_comp σ (fun j => A i j * x j)
