"""C04 (C07, C10, C06) - pressure step: PressureMatrix._build_matrix / get_row (pmatrix.py), GeneralMatrix.solve_system
(general_matrix.py), Frame.assign_pressures, ForSys.solve_pressure; BigEdge.calculate_curvature /
calculate_total_curvature (edge.py)."""
from fvc.registry import obligation
from fvc import interp as I
from .common import cls, mk_vertices, mk_small_edges, mk_bigedge, shoelace
from .c02_matrix import build, find_interface
from .c05_solve import install_solvers
from .shapes import same_path

PM = "forsys.pmatrix:PressureMatrix."
GM = "forsys.general_matrix:GeneralMatrix."


def curvature_by_contract(ctx):
    """calculate_total_curvature(normalized=False) -> symbolic turning per interface (its own obligations: O04.2-O04.4)"""
    table = {}

    def curv(it, a, k):
        be = a[0]
        beid = ctx.get(be, "big_edge_id")
        normalized = k.get("normalized", a[1] if len(a) > 1 else True)
        if normalized is not False:
            ctx.fail("pressure row must use the un-normalised total curvature")
        if beid not in table:
            table[beid] = ctx.real(f"kappa_{beid}")
        return table[beid]
    ctx.stub("forsys.edge:BigEdge.calculate_total_curvature", curv, "callee contract: total turning of the interface (O04.2-O04.4)")
    if ctx.mode != "sym":
        ctx.apply_stubs = True
        ctx.stub("forsys.edge:BigEdge.calculate_total_curvature", curv)
    return table


def pressure_fixture(ctx, shape, k):
    m, fr, cycles, info, coords = build(ctx, shape, k)
    kap = curvature_by_contract(ctx)
    tens = {}
    for beid, be in ctx.list_of(ctx.get(fr, "big_edges")):
        tens[beid] = ctx.real(f"T_{beid}")
        ctx.set(be, "tension", tens[beid])
    # no cell is degenerate: its area sign is +1 or -1
    areas = {}
    for cid, cyc in cycles.items():
        areas[cid] = shoelace([coords[v][0] for v in cyc], [coords[v][1] for v in cyc])
        ctx.assume(ctx.Not(ctx.zero(areas[cid])), "pre")
    return m, fr, cycles, info, kap, tens, areas


@obligation("O04.1", ["C04", "C07", "C10"], [PM + "_build_matrix", PM + "get_row", GM + "__post_init__"],
            "Young-Laplace system: row k <-> k-th internal interface with exactly two entries +1/-1 at the columns of the two cells it separates "
            "(+1 on its first listed cell iff that cell's area sign is positive), rhs = tension x un-normalised total curvature; cells without "
            "internal interface are the removed columns", tier="Pn")
def o04_1(tier):
    def mk(shape, k):
        def h(ctx):
            m, fr, cycles, info, kap, tens, areas = pressure_fixture(ctx, shape, k)
            P = cls(ctx, "forsys.pmatrix", "PressureMatrix")
            pm = ctx.call(P, fr, ctx.dict())
            internal = ctx.list_of(ctx.get(fr, "internal_big_edges"))
            cids = list(cycles)
            mo = ctx.get(pm, "mapping_order")
            ctx.ensure([ctx.item(mo, c) for c in cids] == list(range(len(cids))), "mapping_order: cell id -> position in the cells dictionary")
            removed = ctx.list_of(ctx.get(pm, "removed_columns"))
            touched = sorted({cids.index(c) for p in info["internal"] for c in info["cells_of"][tuple(p)]})
            ctx.ensure(removed == [i for i in range(len(cids)) if i not in touched], "removed columns = cells touching no internal interface")
            kept = [i for i in range(len(cids)) if i not in removed]
            L = [ctx.list_of(r) for r in ctx.list_of(ctx.get(pm, "lhs_matrix"))]
            R = ctx.list_of(ctx.get(pm, "rhs_matrix"))
            ctx.ensure(len(L) == len(internal) == len(R), "one equation per internal interface")
            for row, be in enumerate(internal):
                path = ctx.list_of(ctx.callm(be, "get_vertices_ids"))
                beid = ctx.get(be, "big_edge_id")
                key = [p for p in info["internal"] if same_path(p, path)][0]
                c1, c2 = info["cells_of"][tuple(key)]
                own = ctx.list_of(ctx.get(be, "own_cells"))
                ctx.ensure(sorted(own) == sorted([c1, c2]), f"row {row}: the interface's cells are the two cells it separates")
                for pos, col in enumerate(kept):
                    cid = cids[col]
                    if cid == own[0]:
                        ctx.ensure(ctx.ite(areas[cid] > 0, ctx.close(L[row][pos], 1), ctx.close(L[row][pos], -1)), f"row {row}: first listed cell gets +1 iff its area sign is positive")
                    elif cid == own[1]:
                        ctx.ensure(ctx.ite(areas[own[0]] > 0, ctx.close(L[row][pos], -1), ctx.close(L[row][pos], 1)), f"row {row}: the other cell gets the opposite sign")
                    else:
                        ctx.ensure(ctx.zero(L[row][pos]), f"row {row}: zero for cell {cid}")
                ctx.ensure(ctx.close(R[row], tens[beid] * kap[beid]), f"row {row}: rhs = tension x total curvature")
        return h
    out = [(f"{s},k={k}", mk(s, k)) for s in ("tri_star", "double_y", "border_fan", "tri_star_ear", "tri_star_two_ears") for k in ((1,) if tier == "quick" else (0, 1, 3))]
    out += [(f"{s}~v{v},k=1", mk(f"{s}~v{v}", 1)) for s in ("tri_star", "double_y", "tri_star_ear") for v in ((1, 2) if tier == "quick" else (1, 2, 3))]
    return out


@obligation("O04.7", ["C04", "C10", "C07"], [GM + "solve_system", GM + "add_lagrange_multiplier", "forsys.forsys:ForSys.solve_pressure",
                                     "forsys.forsys:ForSys.build_pressure_matrix", "forsys.frames:Frame.assign_pressures"],
            "solve_pressure: normal equations bordered by the zero-sum constraint reach the solver; the multiplier is dropped; zeros are re-inserted for "
            "cells without internal interface; every cell gets its own entry; ForSys.pressures[t] holds frame t's list and other frames' entries are untouched",
            tier="Pn")
def o04_7(tier):
    def mk(shape, k, singular):
        def h(ctx):
            m, fr, cycles, info, kap, tens, areas = pressure_fixture(ctx, shape, k)
            FS = cls(ctx, "forsys.forsys", "ForSys")
            prev = ctx.real("prev_other_frame")
            fs = ctx.alloc(FS, frames=ctx.dict([(0, None), (1, fr)]), mesh=ctx.dict(), pressure_matrices=ctx.dict(),
                           forces=ctx.dict([(0, None), (1, ctx.dict())]), pressures=ctx.dict([(0, prev), (1, None)]), force_matrices=ctx.dict())
            log = []
            if ctx.mode == "sym":
                install_solvers(ctx, log, singular)
            ctx.callm(fs, "build_pressure_matrix", when=1)
            ctx.callm(fs, "solve_pressure", when=1, method="lagrange_pressure")
            pm = ctx.item(ctx.get(fs, "pressure_matrices"), 1)
            cids = list(cycles)
            removed = ctx.list_of(ctx.get(pm, "removed_columns"))
            kept = [i for i in range(len(cids)) if i not in removed]
            store = ctx.get(fs, "pressures")
            ctx.ensure(ctx.eq(ctx.item(store, 0), prev), "the other frame's stored pressures are untouched")
            sol = ctx.list_of(ctx.item(store, 1))
            ctx.ensure(len(sol) == len(cids), "one pressure per cell")
            if ctx.mode == "sym":
                kind, A, b = log[-1][0], log[-1][1], log[-1][2]
                n = len(kept)
                ctx.ensure(A.shape == (n + 1, n + 1) and b.shape == (n + 1,), "bordered normal equations (n+1)x(n+1)")
                L = [ctx.list_of(r) for r in ctx.list_of(ctx.get(pm, "lhs_matrix"))]
                R = ctx.list_of(ctx.get(pm, "rhs_matrix"))
                for i in range(n):
                    for j in range(n):
                        ctx.ensure(A.data[i * (n + 1) + j] == sum(L[r][i] * L[r][j] for r in range(len(L))), f"A[{i},{j}] = (L^T L)[{i},{j}]")
                    ctx.ensure(b.data[i] == sum(L[r][i] * R[r] for r in range(len(L))), f"b[{i}] = (L^T rhs)[{i}]")
                ctx.ensure(ctx.And(*[A.data[n * (n + 1) + j] == 1 for j in range(n)] + [A.data[i * (n + 1) + n] == 1 for i in range(n)]), "border of ones")
                ctx.ensure(ctx.And(ctx.zero(A.data[n * (n + 1) + n]), ctx.zero(b.data[n])), "zero-sum constraint")
                prefix = {"inv": "xinv", "nnls": "xnnls"}[kind]
                for pos, col in enumerate(kept):
                    ctx.ensure(sol[col] == ctx.symbols[f"{prefix}{pos}"], f"cell #{col} gets solution entry {pos}")
            for col in removed:
                ctx.ensure(ctx.zero(sol[col]), f"cell #{col} (no internal interface) gets 0")
            for col, cid in enumerate(cids):
                ctx.ensure(ctx.eq(ctx.get(m.c[cid], "pressure"), sol[col]), f"cell {cid} carries its own pressure")
        return h
    def h_history(ctx):
        # the pressure step is run again on the same ForSys after the interface tensions changed: the right-hand side that reaches the
        # solver is tension x turning of the CURRENT tensions (no equation system kept from the earlier run)
        m, fr, cycles, info, kap, tens, areas = pressure_fixture(ctx, "tri_star", 1)
        FS = cls(ctx, "forsys.forsys", "ForSys")
        fs = ctx.alloc(FS, frames=ctx.dict([(1, fr)]), mesh=ctx.dict(), pressure_matrices=ctx.dict(), forces=ctx.dict([(1, ctx.dict())]),
                       pressures=ctx.dict([(1, None)]), force_matrices=ctx.dict())
        log = []
        if ctx.mode != "sym":
            return
        install_solvers(ctx, log, False)
        for run in (0, 1):
            if run == 1:
                for beid, be in ctx.list_of(ctx.get(fr, "big_edges")):
                    tens[beid] = ctx.real(f"T2_{beid}")
                    ctx.set(be, "tension", tens[beid])
            ctx.callm(fs, "build_pressure_matrix", when=1)
            ctx.callm(fs, "solve_pressure", when=1, method="lagrange_pressure")
            pm = ctx.item(ctx.get(fs, "pressure_matrices"), 1)
            L = [ctx.list_of(r) for r in ctx.list_of(ctx.get(pm, "lhs_matrix"))]
            internal = ctx.list_of(ctx.get(fr, "internal_big_edges"))
            rhs = [tens[ctx.get(be, "big_edge_id")] * kap[ctx.get(be, "big_edge_id")] for be in internal]
            b = log[-1][2]
            n = len(L[0])
            for i in range(n):
                ctx.ensure(b.data[i] == sum(L[r][i] * rhs[r] for r in range(len(L))), f"run {run + 1}: b[{i}] = (L^T (current tension x turning))[{i}]")
    out = [(f"{s},k=1", mk(s, 1, False)) for s in ("tri_star", "border_fan", "tri_star_ear", "tri_star_two_ears")]
    out.append(("tri_star,k=1,second-run-after-the-tensions-changed", h_history))
    # relabelled storage (non-contiguous cell ids, other construction order): the re-inserted zero belongs to the cell at that
    # COLUMN POSITION, whatever its id (C07)
    out += [(f"{s},k=1", mk(s, 1, False)) for s in ("tri_star_ear~v1", "tri_star_two_ears~v2", "tri_star_ear~v3")]
    out.append(("tri_star,k=1,singular", mk("tri_star", 1, True)))
    if tier != "quick":
        out.append(("double_y,k=1", mk("double_y", 1, False)))
    return out


# ---- curvature -----------------------------------------------------------------------------------------------------

def interface(ctx, pts):
    vs = mk_vertices(ctx, pts)
    mk_small_edges(ctx, vs)
    return mk_bigedge(ctx, 0, vs)


@obligation("O04.2", ["C04"], ["forsys.edge:BigEdge.calculate_curvature", "forsys.edge:BigEdge.calculate_total_curvature"],
            "straight interfaces (collinear points, any spacing) have zero curvature at every point and zero total turning", tier="Pn")
def o04_2(tier):
    def mk(n):
        def h(ctx):
            ax, ay, dx, dy = ctx.real("ax"), ctx.real("ay"), ctx.real("dx"), ctx.real("dy")
            ctx.assume(ctx.Or(ctx.Not(ctx.zero(dx)), ctx.Not(ctx.zero(dy))), "pre")
            ts = [ctx.real(f"t{i}") for i in range(n)]
            for i in range(1, n):
                ctx.assume(ts[i] > ts[i - 1], "pre")
            be = interface(ctx, [(ax + t * dx, ay + t * dy) for t in ts])
            cur = ctx.list_of(ctx.callm(be, "calculate_curvature"))
            ctx.ensure(ctx.And(*[ctx.zero(c) for c in cur]), "curvature 0 at every point")
            ctx.ensure(ctx.zero(ctx.callm(be, "calculate_total_curvature", normalized=False)), "total turning 0")
        return h
    return [(f"n={n}", mk(n)) for n in ((2, 3, 4) if tier == "quick" else (2, 3, 4, 5, 6, 9))]


@obligation("O04.3", ["C04", "C07"], ["forsys.edge:BigEdge.calculate_curvature", "forsys.edge:BigEdge.calculate_total_curvature"],
            "storing the points of an interface in the opposite direction flips the sign of the curvature at every point", tier="Pn")
def o04_3(tier):
    def mk(n):
        def h(ctx):
            pts = [(ctx.real(f"x{i}"), ctx.real(f"y{i}")) for i in range(n)]
            f = interface(ctx, pts)
            g = interface(ctx, pts[::-1])
            # non-degenerate sampling: the finite-difference velocity vanishes nowhere
            xs, ys = [p[0] for p in pts], [p[1] for p in pts]
            for i in range(n):
                a, b = max(i - 1, 0), min(i + 1, n - 1)
                ctx.assume(ctx.Or(ctx.Not(ctx.close(xs[a], xs[b])), ctx.Not(ctx.close(ys[a], ys[b]))), "pre")
            cf = ctx.list_of(ctx.callm(f, "calculate_curvature"))
            cg = ctx.list_of(ctx.callm(g, "calculate_curvature"))
            for i in range(n):
                ctx.ensure(ctx.close(cg[n - 1 - i], -cf[i]), f"point {i}: curvature changes sign under reversal")
        return h
    return [(f"n={n}", mk(n)) for n in ((2, 3, 4) if tier == "quick" else (2, 3, 4, 5, 6))]


@obligation("O04.4", ["C04", "C06"], ["forsys.edge:BigEdge.calculate_curvature", "forsys.edge:BigEdge.calculate_total_curvature"],
            "the un-normalised total turning is unchanged by translation and uniform scaling (degree 0)", tier="Pn")
def o04_4(tier):
    def mk(n):
        def h(ctx):
            pts = [(ctx.real(f"x{i}"), ctx.real(f"y{i}")) for i in range(n)]
            s, tx, ty = ctx.real("s"), ctx.real("tx"), ctx.real("ty")
            ctx.assume(s > 0, "pre")
            xs, ys = [p[0] for p in pts], [p[1] for p in pts]
            for i in range(n):
                a, b = max(i - 1, 0), min(i + 1, n - 1)
                ctx.assume(ctx.Or(ctx.Not(ctx.close(xs[a], xs[b])), ctx.Not(ctx.close(ys[a], ys[b]))), "pre")
            f = interface(ctx, pts)
            g = interface(ctx, [(s * x + tx, s * y + ty) for x, y in pts])
            cf = ctx.list_of(ctx.callm(f, "calculate_curvature"))
            cg = ctx.list_of(ctx.callm(g, "calculate_curvature"))
            for i in range(n):
                ctx.ensure(ctx.close(cg[i] * s, cf[i]), f"point {i}: curvature has degree -1 (and is translation invariant)")
        return h
    return [(f"n={n}", mk(n)) for n in ((2, 3) if tier == "quick" else (2, 3, 4, 5))]


@obligation("O04.9", ["C04", "C07"], ["forsys.edge:BigEdge.calculate_curvature", "forsys.edge:BigEdge.calculate_total_curvature"],
            "sign convention of the turning (three-point interface A,B,C): the curvature at every point and the total turning are positive exactly when the path "
            "turns clockwise (y up), i.e. they have the sign of the shoelace area of (A,B,C) used by Cell.get_area_sign: with get_row's rule '+1 on the first cell "
            "iff its area sign is positive' the row reads p(centre-of-curvature side) - p(other side) = tension x |turning|", tier="P")
def o04_9(tier):
    def h(ctx):
        pts = [(ctx.real(f"x{i}"), ctx.real(f"y{i}")) for i in range(3)]
        (ax, ay), (bx, by), (cx, cy) = pts
        be = interface(ctx, pts)
        # non-degenerate sampling: consecutive points differ and the two chords are not opposite (finite-difference velocity never vanishes)
        ctx.assume(ctx.Or(ctx.Not(ctx.close(ax, bx)), ctx.Not(ctx.close(ay, by))), "pre")
        ctx.assume(ctx.Or(ctx.Not(ctx.close(cx, bx)), ctx.Not(ctx.close(cy, by))), "pre")
        ctx.assume(ctx.Or(ctx.Not(ctx.close(ax, cx)), ctx.Not(ctx.close(ay, cy))), "pre")
        cross = (bx - ax) * (cy - by) - (by - ay) * (cx - bx)          # > 0: left (counter-clockwise) turn
        area = shoelace([ax, bx, cx], [ay, by, cy])                     # forsys convention: counter-clockwise => negative
        ctx.lemma(ctx.close(area * 2, -cross), "shoelace(A,B,C) = -cross/2", premises=[])
        cur = ctx.list_of(ctx.callm(be, "calculate_curvature"))
        for i, k in enumerate(cur):
            ctx.ensure(ctx.And(ctx.Implies(cross > 0, k < 0), ctx.Implies(cross < 0, k > 0), ctx.Implies(ctx.zero(cross), ctx.zero(k))), f"point {i}: curvature has the sign of the shoelace area of (A,B,C)")
        tot = ctx.callm(be, "calculate_total_curvature", normalized=False)
        ctx.ensure(ctx.And(ctx.Implies(area > 0, tot > 0), ctx.Implies(area < 0, tot < 0), ctx.Implies(ctx.zero(area), ctx.zero(tot))), "total turning has the sign of the shoelace area of (A,B,C)")
    return [("three-points", h)]
