"""C10 - results are a function of the frame and of the last call: ForSys.solve_stress (forsys.py),
Frame.assign_tensions_to_big_edges (frames.py) on top of ForceMatrix.solve (whose own contract is O05.3)."""
from fvc.registry import obligation
from fvc import interp as I
from .common import cls
from .c02_matrix import build
from .c05_solve import install_solvers, solve_fixture, edges_of_path, result_symbol
from .c05_system import sym_matrix

FS = "forsys.forsys:ForSys."


@obligation("O10.1", ["C10", "C01", "C03"], [FS + "solve_stress", "forsys.frames:Frame.assign_tensions_to_big_edges", "forsys.fmatrix:ForceMatrix.solve"],
            "solve_stress(t): forces[t] and frames[t].forces hold this solve's result, other frames' entries are untouched; each internal interface "
            "carries its own value (BigEdge.tension = value i = tension of each of its mesh edges), external interfaces stay at zero; "
            "a second solve with another back end leaves no trace of the first", tier="Pn")
def o10_1(tier):
    def mk(shape, second_method):
        def h(ctx):
            m, fr, fm, internal, used, mm, t0, _ = solve_fixture(ctx, shape, 1, 2)
            # fresh mesh: every mesh edge tension starts at 0 (SmallEdge default)
            for eid, e in ctx.list_of(m.edges):
                ctx.set(e, "tension", 0)
            FSc = cls(ctx, "forsys.forsys", "ForSys")
            other = ctx.real("forces_of_other_frame")
            fs = ctx.alloc(FSc, frames=ctx.dict([(0, None), (1, fr)]), mesh=ctx.dict(), force_matrices=ctx.dict([(1, fm)]),
                           forces=ctx.dict([(0, other), (1, None)]), pressures=ctx.dict([(0, None), (1, None)]), pressure_matrices=ctx.dict())
            log = []
            if ctx.mode == "sym":
                install_solvers(ctx, log)
            ctx.callm(fs, "solve_stress", when=1, allow_negatives=False)
            if second_method is not None:
                n_first = len(log)
                kw = dict(allow_negatives=False)
                if second_method != "default":
                    kw["method"] = second_method
                if ctx.mode == "sym":
                    # the second back end returns its own (different) symbols
                    ctx.symbols_backup = dict(ctx.symbols)
                ctx.callm(fs, "solve_stress", when=1, **kw)
            forces = ctx.item(ctx.get(fs, "forces"), 1)
            ctx.ensure(ctx.eq(ctx.item(ctx.get(fs, "forces"), 0), other), "other frame's stored forces untouched")
            ctx.ensure(ctx.get(fr, "forces") is forces, "frames[t].forces is the stored result of this solve")
            vals = [ctx.item(forces, i) for i in range(len(internal))]
            if ctx.mode == "sym":
                kind = log[-1][0]
                for i in range(len(internal)):
                    ctx.ensure(vals[i] == ctx.symbols[result_symbol(log, kind, i)], f"value {i} comes from the LAST solve's back end")
            bes = ctx.get(fr, "big_edges")
            internal_objs = ctx.list_of(ctx.get(fr, "internal_big_edges"))
            iid = [ctx.get(b, "big_edge_id") for b in internal_objs]
            for pos, be in enumerate(internal_objs):
                ctx.ensure(ctx.close(ctx.get(be, "tension"), vals[pos]), f"internal interface #{pos}: BigEdge.tension = reported value {pos}")
                for eid in ctx.list_of(ctx.get(be, "edges")):
                    ctx.ensure(ctx.close(ctx.get(m.e[eid], "tension"), vals[pos]), f"internal interface #{pos}: mesh edge {eid} carries it")
            for beid, be in ctx.list_of(bes):
                if beid not in iid:
                    ctx.ensure(ctx.zero(ctx.get(be, "tension")), f"external interface {beid} stays at zero")
        return h
    out = [("tri_star,once", mk("tri_star", None)), ("tri_star,default-then-lsq_linear", mk("tri_star", "lsq_linear")),
           ("tri_star,default-then-default", mk("tri_star", "default"))]
    if tier != "quick":
        out.append(("double_y,default-then-lsq", mk("double_y", "lsq")))
    return out
