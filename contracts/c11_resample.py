"""C11 - mesh resampling: statement contracts on the index arithmetic of generate_mesh (virtual_edges.py),
join_two_vertices.  The whole function is only covered by the bounded stand-in B11."""
from fvc.registry import obligation
from fvc import interp as I
from .common import cls, mk_mesh, mk_vertices, stub_center

GM = "forsys.virtual_edges"


class Probe:
    """stands for the list `e` of an interface with a symbolic number of points: len() is symbolic, indexing records
    the (symbolic) index and returns it, so e[k] == k"""

    def __init__(self, length):
        self.length = length
        self.reads = []

    def fvc_len(self, it):
        return self.length

    def fvc_getitem(self, it, key):
        self.reads.append(key)
        return key


@obligation("O11.1", ["C11", "C01"], [GM + ":generate_mesh"],
            "resampling picks for an interface of L > ne >= 1 points the positions idx(i) = int(L/ne*i), i < ne: idx(0) = 0, strictly increasing, "
            "all before the last point L-1 (which is appended): an ordered subsequence with both ends and ne+1 points; L = ne+1 changes nothing",
            tier="P")
def o11_1(tier):
    def h(ctx):
        # anchors: the statement defining the step and the EXPRESSION that picks a sample (the latter survives loop -> comprehension)
        step = ctx.fragment(GM, "generate_mesh", ["each = len(e) / ne"])
        pick = ctx.fragment_expr(GM, "generate_mesh", "e[int(each * i)]")
        L, ne, i = ctx.int("L"), ctx.int("ne"), ctx.int("i")
        ctx.assume(ctx.And(ne >= 1, L > ne, i >= 0, i + 1 < ne), "pre")      # i and i+1 both in range(ne)

        def idx(iv):
            e = Probe(L) if ctx.mode == "sym" else list(range(L))
            env = ctx.run_fragment(GM, step, dict(e=e, ne=ne))
            return ctx.eval_fragment(GM, pick, dict(e=e, ne=ne, i=iv, each=env["each"]))
        a, b = idx(i), idx(i + 1)
        first = idx(0)
        last = idx(ne - 1)
        ctx.ensure(ctx.eq(first, 0), "idx(0) = 0: the first end is kept")
        ctx.ensure(ctx.And(a >= 0, a <= L - 1, b >= 0, b <= L - 1), "indices in bounds")
        ctx.ensure(b > a, "strictly increasing: an ordered subsequence without repeats")
        ctx.ensure(last <= L - 2, "the last sampled index is before the final point, which is appended separately")
        ctx.ensure(ctx.Implies(L == ne + 1, ctx.And(ctx.eq(a, i), ctx.eq(b, i + 1))), "L = ne+1: every point kept (idempotence on interfaces)")
    def h1(ctx):
        # ne = 1 (range(ne) has the single index 0)
        step = ctx.fragment(GM, "generate_mesh", ["each = len(e) / ne"])
        pick = ctx.fragment_expr(GM, "generate_mesh", "e[int(each * i)]")
        L = ctx.int("L")
        ctx.assume(L > 1, "pre")
        e = Probe(L) if ctx.mode == "sym" else list(range(L))
        env = ctx.run_fragment(GM, step, dict(e=e, ne=1))
        got = ctx.eval_fragment(GM, pick, dict(e=e, ne=1, i=0, each=env["each"]))
        ctx.ensure(ctx.eq(got, 0), "ne = 1: only the first end is sampled (the last is appended)")
    return [("symbolic-L-ne-i", h), ("ne=1", h1)]


@obligation("O11.2", ["C11"], [GM + ":generate_mesh"],
            "structure of the resampling loop: an interface longer than ne gets exactly range(ne) samples plus e[-1]; a shorter one is kept verbatim; "
            "a two-point interface is queued for contraction iff both ends belong to fewer than three cells", tier="P")
def o11_2(tier):
    def h(ctx):
        # the selectors below are the contract's anchors; if the code is restructured they are reported as anchor-not-found (undecided)
        frag = ctx.fragment(GM, "generate_mesh", ["edgeRange = range(0, ne)", "for e in bedges:"])
        ne = 3
        for e, cells_at_ends in (([5, 6, 7, 8, 9, 10, 11], (3, 3)), ([5, 6, 7], (3, 3)), ([5, 6], (2, 2)), ([5, 6], (3, 2)), ([5, 6], (2, 3)), ([5, 6], (1, 2)), ([5, 6, 7, 8], (2, 2))):
            V = cls(ctx, "forsys.vertex", "Vertex")
            vd = ctx.dict()
            for vid in e:
                v = ctx.call(V, vid, 0.0, 0.0)
                n = cells_at_ends[0] if vid == e[0] else (cells_at_ends[1] if vid == e[-1] else 2)
                ctx.set(v, "ownCells", list(range(n)))
                if ctx.mode == "sym":
                    ctx.it.dict_set(vd, vid, v)
                else:
                    vd[vid] = v
            env = dict(ne=ne, bedges=[list(e)], nEdgeArray=[], alreadySeen=[], vertices_to_join=[], vertices=vd)
            out = ctx.run_fragment(GM, frag, env)
            res = [ctx.list_of(x) for x in ctx.list_of(out["nEdgeArray"])]
            if len(e) > ne:
                ctx.ensure(len(res) == 1 and len(res[0]) == ne + 1 and res[0][0] == e[0] and res[0][-1] == e[-1], f"{e}: ne+1 points, both ends kept")
                ctx.ensure(all(x in e for x in res[0]) and [e.index(x) for x in res[0]] == sorted(set(e.index(x) for x in res[0])), f"{e}: ordered subsequence")
            else:
                ctx.ensure(res == [e], f"{e}: not longer than ne => unchanged")
            want_join = len(e) == 2 and cells_at_ends[0] < 3 and cells_at_ends[1] < 3
            ctx.ensure(([ctx.list_of(x) for x in ctx.list_of(out["vertices_to_join"])] == [e]) == want_join and (want_join or ctx.list_of(out["vertices_to_join"]) == []),
                       f"{e} with {cells_at_ends} cells at its ends: queued for contraction iff two points and both ends in fewer than three cells")
    def h_cells(ctx):
        # only a cell that lost ALL its vertices is dropped (a cell reduced to two junctions at ne=1 stays)
        from fvc.harness import AnchorNotFound
        try:
            frag = ctx.fragment(GM, "generate_mesh", ["cells_to_remove = []", "for c in cells.keys():"])
        except AnchorNotFound:
            frag = ctx.fragment(GM, "generate_mesh", ["cells_to_remove = ["])         # the same selection written as a comprehension
        C = cls(ctx, "forsys.cell", "Cell")
        V = cls(ctx, "forsys.vertex", "Vertex")
        vs = [ctx.call(V, 70 + i, 0.0, 0.0) for i in range(4)]
        sizes = {5: 0, 9: 2, 2: 3, 7: 1, 4: 0}
        cells = ctx.dict([(cid, ctx.alloc(C, id=cid, vertices=vs[:n])) for cid, n in sizes.items()])
        out = ctx.run_fragment(GM, frag, dict(cells=cells))
        ctx.ensure(ctx.list_of(out["cells_to_remove"]) == [cid for cid, n in sizes.items() if n == 0], "cells queued for removal = cells without any vertex left")
    return [("loop-structure", h), ("empty-cell-removal", h_cells)]


@obligation("O11.7", ["C11", "C06", "C09"], [GM + ":join_two_vertices"],
            "join_two_vertices: the two ends of a two-point border interface are replaced by one new vertex at their midpoint, with a fresh id; cells and "
            "remaining mesh edges are re-attached; the common mesh edge and both old vertices are gone; the mesh is consistent again", tier="Pn")
def o11_7(tier):
    def h(ctx):
        # a square cell 1-2-3-4 and a triangle 2-5-3 sharing edge 2-3 ; contract the border edge 1-2?  use edge 4-1 of the square (both ends in one cell)
        coords = {vid: (ctx.real(f"x{vid}"), ctx.real(f"y{vid}")) for vid in (10, 2, 30, 4, 5)}
        m = mk_mesh(ctx, coords, {7: [10, 2, 30, 4], 3: [2, 5, 30]})
        ve = ctx.module(GM)
        mapper = ctx.dict()
        r = ctx.list_of(ctx.call(ctx.get(ve, "join_two_vertices"), [4, 10], m.vertices, m.edges, m.cells, mapper))
        vertices, edges, cells, mp = r
        keys = ctx.keys(vertices)
        new = [k for k in keys if k not in (10, 2, 30, 4, 5)]
        ctx.ensure(len(new) == 1 and 4 not in keys and 10 not in keys and sorted(k for k in keys if k in (2, 30, 5)) == [2, 5, 30], "both old vertices removed, exactly one new vertex, others kept")
        nv = ctx.item(vertices, new[0])
        ctx.ensure(ctx.get(nv, "id") == new[0], "new vertex stored under its own id")
        ctx.ensure(ctx.And(ctx.close(ctx.get(nv, "x") * 2, coords[4][0] + coords[10][0]), ctx.close(ctx.get(nv, "y") * 2, coords[4][1] + coords[10][1])), "new vertex at the midpoint")
        ctx.ensure(ctx.item(mp, 4) == new[0] and ctx.item(mp, 10) == new[0], "both old ids map to the new one")
        cyc = [ctx.get(v, "id") for v in ctx.list_of(ctx.get(ctx.item(cells, 7), "vertices"))]
        ctx.ensure(len(cyc) == 3 and cyc + cyc in ([2, 30, new[0]] * 2, [30, new[0], 2] * 2, [new[0], 2, 30] * 2), "the square's cycle: merged vertex once, rest in cyclic order")
        ctx.ensure([ctx.get(v, "id") for v in ctx.list_of(ctx.get(ctx.item(cells, 3), "vertices"))] == [2, 5, 30], "the other cell untouched")
        common = m.edge_of[(4, 10)]
        ctx.ensure(common not in ctx.keys(edges), "the contracted mesh edge is gone")
        # consistency of the result (C09 predicate on this mesh)
        ek = ctx.keys(edges)
        for eid in ek:
            e = ctx.item(edges, eid)
            a, b = ctx.get(ctx.get(e, "v1"), "id"), ctx.get(ctx.get(e, "v2"), "id")
            ctx.ensure(a in keys and b in keys and a != b, f"edge {eid} joins two existing, different vertices")
            ctx.ensure(ctx.item(vertices, a) is ctx.get(e, "v1") and ctx.item(vertices, b) is ctx.get(e, "v2"), f"edge {eid} references the stored vertex objects")
        for k in keys:
            v = ctx.item(vertices, k)
            want_e = sorted(eid for eid in ek if k in (ctx.get(ctx.get(ctx.item(edges, eid), "v1"), "id"), ctx.get(ctx.get(ctx.item(edges, eid), "v2"), "id")))
            ctx.ensure(sorted(ctx.list_of(ctx.get(v, "ownEdges"))) == want_e, f"vertex {k} lists exactly the mesh edges ending at it")
            want_c = sorted(cid for cid in ctx.keys(cells) if k in [ctx.get(x, "id") for x in ctx.list_of(ctx.get(ctx.item(cells, cid), "vertices"))])
            ctx.ensure(sorted(ctx.list_of(ctx.get(v, "ownCells"))) == want_c, f"vertex {k} lists exactly the cells whose cycle contains it")
        if ctx.mode != "sym":
            m.keep_alive = r
    return [("square+triangle,border-edge", h)]
