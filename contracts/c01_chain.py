"""C01 / C03 - the inference chain as a lemma over the contracts: for a tissue in force balance (resp. moving with
unit mobility) the true tensions, scaled to mean one, together with a zero multiplier solve the augmented system
that the real code assembles *exactly* (zero residual).  With Lean lemma L-min (lean/Lmin.lean: a zero-residual
point is a global minimiser of |Ax-b|^2, hence also among the non-negative candidates) and the property's own
uniqueness hypothesis, this is the value the assumed solver contracts (A-nnls / A-inv) return; O05.3 / O10.1 carry
it to the reported tensions.  Numerical tolerance (floating point, solver convergence) is not decided here (B01, B03)."""
from fvc.registry import obligation, LeanCheck
from .common import cls
from .c02_matrix import build, versor_by_contract, force_matrix, find_interface
from .c13_velocity import UNITS as U13


def zeros(ctx, r):
    if ctx.mode == "sym":
        from fvc import npmodel
        return npmodel.zeros((r, 1))
    return ctx.module("numpy").zeros((r, 1))


def tensions_and_balance(ctx, fr, fm, u, info, moving):
    """positive tension per unknown (column); returns (T per column, resultant per kept junction)"""
    cols = [ctx.list_of(c) for c in ctx.list_of(ctx.get(fm, "big_edges_to_use"))]
    beids = [find_interface(ctx, fr, c) for c in cols]
    T = [ctx.real(f"T{b}") for b in beids]
    for t in T:
        ctx.assume(t > 0, "pre")
    res = {}
    for j in ctx.keys(ctx.get(fm, "map_vid_to_row")):
        rx = ry = 0
        for ci, c in enumerate(cols):
            if c[0] == j or c[-1] == j:
                ux, uy = u[(beids[ci], j)]
                rx, ry = rx + T[ci] * ux, ry + T[ci] * uy
        res[j] = (rx, ry)
        if not moving:
            ctx.assume(ctx.And(ctx.zero(rx), ctx.zero(ry)), "pre:force-balance")
    return T, res


@obligation("O01.1", ["C01"], ["forsys.fmatrix:ForceMatrix._build_matrix", "forsys.fmatrix:ForceMatrix.add_mean_one", "forsys.fmatrix:ForceMatrix.set_velocity_matrix"],
            "static chain: if every junction with equations is in force balance under positive tensions T, then (T / mean T, multiplier 0) has zero residual "
            "in the augmented system the code assembles (matrix of O02.7 + add_mean_one, b = 0)", tier="Pn")
def o01_1(tier):
    def mk(shape, k):
        def h(ctx):
            m, fr, cycles, info, _ = build(ctx, shape, k)
            u = versor_by_contract(ctx, fr)
            fm = force_matrix(ctx, fr, False)
            T, _ = tensions_and_balance(ctx, fr, fm, u, info, moving=False)
            b, avg = ctx.list_of(ctx.callm(fm, "set_velocity_matrix", ctx.dict()))
            A, bb = ctx.list_of(ctx.callm(fm, "add_mean_one", b))
            A = [ctx.list_of(r) for r in ctx.list_of(A)]
            bb = [ctx.list_of(r)[0] for r in ctx.list_of(bb)]
            c = len(T)
            total = sum(T[1:], T[0])
            # x = T * c / total, multiplier 0; every equation is stated multiplied through by `total` (> 0), which keeps the VC polynomial
            xt = [t * c for t in T] + [0]
            ctx.ensure(len(A) == len(bb) and all(len(r) == c + 1 for r in A), "augmented system has one column per unknown plus the multiplier")
            for i, row in enumerate(A):
                ctx.ensure(ctx.close(sum((a * xv for a, xv in zip(row[1:], xt[1:])), row[0] * xt[0]), bb[i] * total), f"equation {i} holds exactly for the true tensions scaled to mean one")
        return h
    shapes = ["tri_star", "double_y", "tri_star~v1", "four_fold"] if tier == "quick" else ["tri_star", "double_y", "four_fold", "tri_star_ear", "tri_star~v1", "double_y~v2", "four_fold~v3"]
    return [(f"{s},k={k}", mk(s, k)) for s in shapes for k in ((1,) if tier == "quick" else (0, 1, 3))]


@obligation("O03.1", ["C03"], ["forsys.fmatrix:ForceMatrix._build_matrix", "forsys.fmatrix:ForceMatrix.add_mean_one", "forsys.fmatrix:ForceMatrix.set_velocity_matrix"],
            "dynamic chain: if every junction with equations moves with velocity = resultant of the tensions pulling on it (unit mobility, any tensions of "
            "mean one), then (T, multiplier 0) has zero residual in the system assembled with b_matrix='velocity' - before the 3-decimal rounding of b, "
            "whose effect is bounded by 5e-4 per entry (A-round)", tier="Pn")
def o03_1(tier):
    def mk(shape, k, adim):
        def h(ctx):
            m, fr, cycles, info, _ = build(ctx, shape, k)
            u = versor_by_contract(ctx, fr)
            fm = force_matrix(ctx, fr, False)
            T, res = tensions_and_balance(ctx, fr, fm, u, info, moving=True)
            c = len(T)
            ctx.assume(ctx.close(sum(T[1:], T[0]), c), "pre: mean tension one")
            np_ = ctx.module("numpy") if ctx.mode != "sym" else None

            def cv(it, a, kw):
                vid = a[1]
                if np_ is not None:
                    return np_.array(res[vid])
                from fvc import npmodel
                return npmodel.NDArr(list(res[vid]), (2,))
            ctx.stub("forsys.time_series:TimeSeries.calculate_velocity", cv, "callee contract proved as O13.2; here the motion law of the property: velocity = resultant")
            if ctx.mode != "sym":
                ctx.apply_stubs = True
                ctx.stub("forsys.time_series:TimeSeries.calculate_velocity", cv)
            TS = cls(ctx, "forsys.time_series", "TimeSeries")
            ts = ctx.alloc(TS)
            if adim:
                ctx.assume(ctx.Not(ctx.And(*[ctx.And(ctx.zero(r[0]), ctx.zero(r[1])) for r in res.values()])), "pre: some junction moves")
                # ghost lemmas: a moving junction has positive speed, hence the mean speed is positive and (v/avg)*avg = v
                speeds = []
                for j, r in res.items():
                    uu = r[0] * r[0] + r[1] * r[1]
                    n = ctx.sqrt(uu)
                    speeds.append(n)
                    ctx.lemma(ctx.Implies(ctx.Or(ctx.Not(ctx.zero(r[0])), ctx.Not(ctx.zero(r[1]))), n > 0), f"speed-positive({j})", premises=[n >= 0, ctx.close(n * n, uu)])
            b, avg = ctx.list_of(ctx.callm(fm, "set_velocity_matrix", ts, b_matrix="velocity", adimensional_velocity=adim))
            A, bb = ctx.list_of(ctx.callm(fm, "add_mean_one", b))
            A = [ctx.list_of(r) for r in ctx.list_of(A)]
            bb = [ctx.list_of(r)[0] for r in ctx.list_of(bb)]
            # adimensional: the force rows are divided by the mean junction speed `avg`, so their exact solution is T/avg (stated multiplied through
            # by avg); the sum row still asks for mean one, so zero residual of the whole system needs avg = 1: only the force rows are stated
            rows = len(A) - 1
            if adim:
                ctx.lemma(avg > 0, "mean-speed-positive")
            x = list(T) + [0]
            for i in range(rows):
                lhs = sum((a * xv for a, xv in zip(A[i][1:], x[1:])), A[i][0] * x[0])
                ctx.ensure(ctx.close(lhs, bb[i] * (avg if adim else 1)), f"force row {i} holds exactly for the true tensions" + (" over the mean speed" if adim else ""))
            if not adim:
                ctx.ensure(ctx.close(sum((a * xv for a, xv in zip(A[rows][1:], x[1:])), A[rows][0] * x[0]), bb[rows]), "the sum row holds: mean one")
        return h
    out = [(f"{s},k=1,adimensional={a}", mk(s, 1, a)) for s in ("tri_star", "double_y") for a in (False, True) if not (s == "double_y" and a)]
    if tier != "quick":
        out += [(f"{s},k=1,adimensional=False", mk(s, 1, False)) for s in ("four_fold", "tri_star~v2", "double_y~v1")]
    return out


@obligation("L01", ["C01", "C03", "C05", "C04", "C07"], [],
            "Lean/Mathlib, any dimension: a zero-residual point minimises |Ax-b|^2 over all (hence over the non-negative) candidates; balanced tensions scaled to "
            "mean one with multiplier 0 solve the augmented system; the solution of a nonsingular system is linear in its right-hand side; relabelling the "
            "unknowns permutes the solution", tier="L")
def l01(tier):
    return [("lean/Lmin.lean", LeanCheck("lean/Lmin.lean", ["zero_residual_is_minimiser", "balanced_tensions_solve_augmented", "solution_linear_in_rhs", "residual_column_perm"]))]
