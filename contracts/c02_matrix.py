"""C02 (C01, C07, C16) - assembly of the force-balance system: ForceMatrix.__post_init__, _build_matrix, get_row,
get_vertex_equation, get_external_term (fmatrix.py), eid_from_vertex (virtual_edges.py), on concrete small
topologies with symbolic geometry.  The tangent itself is taken by contract (stub of get_versor_from_vertex
returning a symbolic unit vector per (interface, junction); its own obligations are O02.3a/b, O02.4)."""
from fvc.registry import obligation
from .common import cls, mk_mesh, mk_frame
from .shapes import SHAPES, vertex_ids, same_path

FM = "forsys.fmatrix:ForceMatrix."
UNITS = [FM + "__post_init__", FM + "_build_matrix", FM + "get_row", FM + "get_vertex_equation", FM + "get_external_term",
         FM + "get_angle_limited_edges", "forsys.virtual_edges:eid_from_vertex"]


def build(ctx, shape, k, prefix=""):
    cycles, info = SHAPES[shape](k)
    coords = {vid: (ctx.real(f"{prefix}x{vid}"), ctx.real(f"{prefix}y{vid}")) for vid in vertex_ids(cycles)}
    m = mk_mesh(ctx, coords, cycles)
    fr = mk_frame(ctx, m)
    return m, fr, cycles, info, coords


def versor_concrete(ctx, fr, assign):
    """get_versor_from_vertex(vid) -> the concrete rational unit vector assign(path, vid) (a scenario, used where a clause is about
    which junctions/interfaces are selected rather than about the numbers)"""
    table = {}
    np_ = ctx.module("numpy") if ctx.mode != "sym" else None
    for beid, be in ctx.list_of(ctx.get(fr, "big_edges")):
        ids = ctx.list_of(ctx.callm(be, "get_vertices_ids"))
        for vid in (ids[0], ids[-1]):
            table[(beid, vid)] = assign(ids, vid)

    def vers(it, a, k):
        key = (ctx.get(a[0], "big_edge_id"), a[1])
        if np_ is not None:
            return np_.array([float(x) for x in table[key]])
        from fvc import npmodel
        return npmodel.NDArr(list(table[key]), (2,))
    ctx.stub("forsys.edge:BigEdge.get_versor_from_vertex", vers, "callee contract proved as O02.3a/O02.3b/O02.4 (here: a concrete scenario of unit vectors)")
    if ctx.mode != "sym":
        ctx.apply_stubs = True
        ctx.stub("forsys.edge:BigEdge.get_versor_from_vertex", vers)
    return table


def versor_by_contract(ctx, fr=None):
    """get_versor_from_vertex(vid) -> symbolic unit vector u[(interface id, vid)] (contract proved in O02.3/O02.4).
    With a frame given, the vectors of all interface ends are created eagerly and the Cauchy-Schwarz bound
    |u.v| <= 1 is proved as a ghost lemma for every pair meeting at one vertex (arccos needs it)."""
    table = {}
    np_ = ctx.module("numpy") if ctx.mode != "sym" else None
    if fr is not None:
        ends = {}
        for beid, be in ctx.list_of(ctx.get(fr, "big_edges")):
            ids = ctx.list_of(ctx.callm(be, "get_vertices_ids"))
            for vid in (ids[0], ids[-1]):
                ux, uy = ctx.real(f"u_{beid}_{vid}_x"), ctx.real(f"u_{beid}_{vid}_y")
                unit = ctx.close(ux * ux + uy * uy, 1)
                ctx.assume(unit, "pre:unit-versor")
                ctx.lemma(ctx.Or(ctx.Not(ctx.zero(ux)), ctx.Not(ctx.zero(uy))), f"unit-vector-nonzero({beid}@{vid})", premises=[unit])
                table[(beid, vid)] = (ux, uy)
                ends.setdefault(vid, []).append((beid, unit))
        for vid, lst in ends.items():
            for i in range(len(lst)):
                for j in range(i + 1, len(lst)):
                    a, b = table[(lst[i][0], vid)], table[(lst[j][0], vid)]
                    d = a[0] * b[0] + a[1] * b[1]
                    ctx.lemma(ctx.And(d <= 1, d >= -1), f"cauchy-schwarz({lst[i][0]},{lst[j][0]}@{vid})", premises=[lst[i][1], lst[j][1]])

    def vers(it, a, k):
        be, vid = a[0], a[1]
        beid = ctx.get(be, "big_edge_id")
        key = (beid, vid)
        if key not in table:
            ux, uy = ctx.real(f"u_{beid}_{vid}_x"), ctx.real(f"u_{beid}_{vid}_y")
            ctx.assume(ctx.close(ux * ux + uy * uy, 1), "pre:unit-versor")
            table[key] = (ux, uy)
        if np_ is not None:
            return np_.array(table[key])
        from fvc import npmodel
        return npmodel.NDArr(list(table[key]), (2,))
    ctx.stub("forsys.edge:BigEdge.get_versor_from_vertex", vers, "callee contract proved as O02.3a/O02.3b/O02.4")
    if ctx.mode != "sym":
        ctx.apply_stubs = True
        ctx.stub("forsys.edge:BigEdge.get_versor_from_vertex", vers)
    return table


def force_matrix(ctx, fr, ignore_four=False, angle_limit=float("inf")):
    F = cls(ctx, "forsys.fmatrix", "ForceMatrix")
    return ctx.call(F, fr, "none", "none", ctx.dict([("ignore_four", ignore_four)]), ctx.dict(), angle_limit=angle_limit)


def find_interface(ctx, fr, path):
    """big edge id of the interface with this vertex path (either direction), or None"""
    bel = ctx.list_of(ctx.get(fr, "big_edges_list"))
    for i, e in enumerate(bel):
        if same_path(ctx.list_of(e), path):
            return i
    return None


@obligation("O02.7", ["C02", "C01", "C07"], UNITS[:5] + UNITS[6:],
            "assembled system: one column per internal interface, one row pair per junction with >=3 cells and >=3 internal interfaces "
            "(none with ignore_four for >=4), coefficient pair of an interface at its junction = its versor there, everything else 0",
            tier="Pn")
def o02_7(tier):
    def mk(shape, k, ignore_four):
        def h(ctx):
            m, fr, cycles, info, _ = build(ctx, shape, k)
            u = versor_by_contract(ctx, fr)
            fm = force_matrix(ctx, fr, ignore_four)
            cols = [ctx.list_of(c) for c in ctx.list_of(ctx.get(fm, "big_edges_to_use"))]
            ctx.ensure(len(cols) == len(info["internal"]), "one unknown per internal interface")
            for p in info["internal"]:
                ctx.ensure(sum(1 for c in cols if same_path(c, p)) == 1, f"internal interface {p[0]}..{p[-1]} is exactly one column")
            want_rows = list(info["junction_rows"])
            if ignore_four and info.get("fold", 3) >= 4:
                want_rows = []
            mp = ctx.get(fm, "map_vid_to_row")
            keys = ctx.keys(mp)
            ctx.ensure(sorted(keys) == sorted(want_rows), "equations exactly for the junctions with >=3 cells and >=3 internal interfaces")
            mat = ctx.list_of(ctx.get(fm, "matrix"))
            mat = [ctx.list_of(r) for r in mat]
            ctx.ensure(len(mat) == 2 * len(want_rows), "two rows per kept junction and no other row")
            rows = sorted(ctx.item(mp, j) for j in keys)
            ctx.ensure(rows == [2 * i for i in range(len(keys))], "row pairs are 0,2,4,... without gaps or overlaps")
            for j in keys:
                r = ctx.item(mp, j)
                for ci, c in enumerate(cols):
                    if c[0] == j or c[-1] == j:
                        beid = find_interface(ctx, fr, c)
                        ux, uy = u[(beid, j)]
                        ctx.ensure(ctx.And(ctx.close(mat[r][ci], ux), ctx.close(mat[r + 1][ci], uy)),
                                   f"junction {j}, column {ci}: the versor of that interface at that junction")
                    else:
                        ctx.ensure(ctx.And(ctx.zero(mat[r][ci]), ctx.zero(mat[r + 1][ci])), f"junction {j}, column {ci}: zero (interface does not end there)")
        return h
    out = []
    for shape in ("tri_star", "double_y", "four_fold", "border_fan", "border_fan4", "tri_star_ear", "five_fold", "six_fold"):
        for k in ((0, 1) if tier == "quick" else (0, 1, 2, 4)):
            if shape in ("five_fold", "six_fold") and k not in (0, 1):
                continue
            for ig in ((False, True) if shape in ("four_fold", "tri_star", "five_fold", "six_fold") else (False,)):
                out.append((f"{shape},k={k},ignore_four={ig}", mk(shape, k, ig)))
    # C07: the same tissues under other labellings, cycle starts, orientations and construction orders
    for shape in ("tri_star", "double_y", "four_fold", "tri_star_ear", "border_fan4"):
        for v in ((1, 2) if tier == "quick" else (1, 2, 3)):
            out.append((f"{shape}~v{v},k=1,ignore_four=False", mk(f"{shape}~v{v}", 1, False)))
    return out


@obligation("O02.8", ["C02", "C10", "C16"], UNITS[:2] + UNITS[5:6],
            "two builds on the same frame: a system built with an angle limit that excludes interfaces leaves the frame untouched, so a later default build "
            "has again one unknown per internal interface and the equations of every junction", tier="Pn")
def o02_8(tier):
    def mk(shape):
        def h(ctx):
            m, fr, cycles, info, _ = build(ctx, shape, 1)
            u = versor_by_contract(ctx, fr)
            first = force_matrix(ctx, fr, False, angle_limit=0.0)        # every junction opens by >= 0: everything with two flagged ends is excluded
            n_first = len(ctx.list_of(ctx.get(first, "big_edges_to_use")))
            second = force_matrix(ctx, fr, False)
            cols = [ctx.list_of(c) for c in ctx.list_of(ctx.get(second, "big_edges_to_use"))]
            ctx.ensure(n_first < len(info["internal"]), "the first build did exclude interfaces (the scenario is the intended one)")
            ctx.ensure(len(cols) == len(info["internal"]) and all(sum(1 for c in cols if same_path(c, p)) == 1 for p in info["internal"]),
                       "second (default) build: one unknown per internal interface")
            ctx.ensure(sorted(ctx.keys(ctx.get(second, "map_vid_to_row"))) == sorted(info["junction_rows"]), "second build: equations for every junction")
        return h
    return [(s, mk(s)) for s in ("double_y", "tri_star")]
