"""Builders shared by the contracts: construct real repo objects (Vertex, SmallEdge, Cell, BigEdge, ...)
through whichever ctx is active (symbolic interpreter or native CPython)."""

KEEP = []   # native mode: keep SmallEdge/Cell objects referenced (their __del__ unregisters them otherwise)


def cls(ctx, module, name):
    return ctx.get(ctx.module(module), name)


def mk_vertices(ctx, pts, ids=None):
    V = cls(ctx, "forsys.vertex", "Vertex")
    return [ctx.call(V, (i if ids is None else ids[i]), p[0], p[1]) for i, p in enumerate(pts)]


def stub_center(ctx, value=(0.0, 0.0), note="Cell.__post_init__ stores a fitted centre that the unit under contract never reads"):
    ctx.stub("forsys.virtual_edges:calculate_circle_center", lambda it, a, k: value, note)


def mk_cell(ctx, cid, vs, stub=True):
    if stub:
        stub_center(ctx)
    C = cls(ctx, "forsys.cell", "Cell")
    c = ctx.call(C, cid, list(vs))
    KEEP.append(c)
    return c


def mk_small_edges(ctx, vs, first_id=0, closed=False):
    E = cls(ctx, "forsys.edge", "SmallEdge")
    n = len(vs)
    es = []
    rng = range(n) if closed else range(n - 1)
    for k, i in enumerate(rng):
        e = ctx.call(E, first_id + k, vs[i], vs[(i + 1) % n])
        es.append(e)
    KEEP.extend(es)
    return es


def mk_bigedge(ctx, beid, vs):
    B = cls(ctx, "forsys.edge", "BigEdge")
    return ctx.call(B, beid, list(vs))


def shoelace(xs, ys):
    n = len(xs)
    return sum((xs[i] * ys[i - 1] - ys[i] * xs[i - 1]) for i in range(n)) * 0.5


def dot(a, b):
    return a[0] * b[0] + a[1] * b[1]


def cross(a, b):
    return a[0] * b[1] - a[1] * b[0]


class Mesh:
    pass


def mk_mesh(ctx, coords, cycles, center_stub=None):
    """build vertices / mesh edges / cells dicts of real repo objects from a plain description:
    coords: {vid: (x, y)}, cycles: {cid: [vid, ...]} (dict order = construction order).  One SmallEdge per unordered
    consecutive pair, ids in order of first occurrence starting at 100 (not contiguous with vertex ids on purpose)."""
    V = cls(ctx, "forsys.vertex", "Vertex")
    E = cls(ctx, "forsys.edge", "SmallEdge")
    C = cls(ctx, "forsys.cell", "Cell")
    if center_stub is None:
        stub_center(ctx)
    m = Mesh()
    m.vertices, m.edges, m.cells = ctx.dict(), ctx.dict(), ctx.dict()
    m.v, m.e, m.c = {}, {}, {}

    def put(d, k, v):
        if ctx.mode == "sym":
            ctx.it.dict_set(d, k, v)
        else:
            d[k] = v
    for vid, (x, y) in coords.items():
        m.v[vid] = ctx.call(V, vid, x, y)
        put(m.vertices, vid, m.v[vid])
    eid = 100
    seen = {}
    for cid, cyc in cycles.items():
        n = len(cyc)
        for i in range(n):
            a, b = cyc[i], cyc[(i + 1) % n]
            key = (min(a, b), max(a, b))
            if key not in seen:
                seen[key] = eid
                m.e[eid] = ctx.call(E, eid, m.v[a], m.v[b])
                put(m.edges, eid, m.e[eid])
                eid += 3
    m.edge_of = seen
    for cid, cyc in cycles.items():
        m.c[cid] = ctx.call(C, cid, [m.v[i] for i in cyc])
        put(m.cells, cid, m.c[cid])
    if ctx.mode != "sym":
        # natively the mesh dictionaries must hold the ONLY references (the repo relies on __del__ running on `del d[k]`)
        m.v, m.e, m.c = m.vertices, m.edges, m.cells
    KEEP.append(m)
    return m


def mk_frame(ctx, m, frame_id=0, time=0.0, gt=False):
    F = cls(ctx, "forsys.frames", "Frame")
    fr = ctx.call(F, frame_id, m.vertices, m.edges, m.cells, time=time, gt=gt)
    KEEP.append(fr)
    return fr
