"""C12 (C03, C13) - vertex tracking: TimeSeries.find_best / create_mapping / distance (time_series.py)."""
from fvc.registry import obligation
from fvc import interp as I
from .common import cls, mk_vertices

TS = "forsys.time_series:TimeSeries."


def d2(a, b):
    return (a[0] - b[0]) * (a[0] - b[0]) + (a[1] - b[1]) * (a[1] - b[1])


@obligation("O12.1", ["C12"], [TS + "find_best", TS + "distance"],
            "find_best: the result is None or a pool vertex that is not already taken; it is a nearest one among the free pool vertices closer than 8% of "
            "the extent; None exactly when there is none", tier="Pn")
def o12_1(tier):
    def mk(n, taken):
        def h(ctx):
            T = cls(ctx, "forsys.time_series", "TimeSeries")
            p0 = (ctx.real("px"), ctx.real("py"))
            pts = [(ctx.real(f"x{i}"), ctx.real(f"y{i}")) for i in range(n)]
            ids = [20 + 3 * i for i in range(n)]
            mc = ctx.real("maxcoord")
            ctx.assume(mc > 0, "pre")
            v0 = mk_vertices(ctx, [p0], ids=[7])[0]
            vs = mk_vertices(ctx, pts, ids=ids)
            pool = ctx.dict(list(zip(ids, vs)))
            ts = ctx.alloc(T, cutoff=0.1, maxcoord=mc)
            found = [ids[i] for i in taken]
            r = ctx.callm(ts, "find_best", v0, pool, found)
            free = [i for i in range(n) if i not in taken]
            lim = 0.08 * mc
            near = [d2(pts[i], p0) < lim * lim for i in free]
            if ctx.none_is(r):
                ctx.ensure(ctx.Not(ctx.Or(*near)) if near else True, "None only if no free pool vertex lies within 8% of the extent")
            else:
                rid = ctx.get(r, "id")
                ctx.ensure(rid in ids, "result is a vertex of the pool")
                ctx.ensure(rid not in found, "result is not an already assigned target (injectivity)")
                k = ids.index(rid) if rid in ids else 0
                ctx.ensure(d2(pts[k], p0) < lim * lim, "result lies within 8% of the extent")
                ctx.ensure(ctx.And(*[ctx.Implies(d2(pts[i], p0) < lim * lim, d2(pts[k], p0) <= d2(pts[i], p0)) for i in free]), "no free pool vertex within range is closer")
        return h
    out = [("n=1,free", mk(1, [])), ("n=1,taken", mk(1, [0])), ("n=2,first-taken", mk(2, [0]))]
    if tier != "quick":
        out += [("n=2,free", mk(2, []))]
    return out


@obligation("O12.3", ["C12", "C03"], [TS + "create_mapping"],
            "create_mapping: keeps the user's pairs, adds one entry per interface end point of the earlier frame, every value is None or an interface end "
            "point of the later frame, no two keys share a non-None target; a bounding-box shape change above 10% of the extent raises DifferentTissueException",
            tier="Pn")
def o12_3(tier):
    def frame(ctx, tag, ends, others, coords):
        F = cls(ctx, "forsys.frames", "Frame")
        ids = ends + others
        vs = mk_vertices(ctx, [coords[i] for i in ids], ids=ids)
        vd = ctx.dict(list(zip(ids, vs)))
        # interfaces: consecutive ends joined through one interior vertex each
        bel = []
        for k in range(len(ends) - 1):
            bel.append([ends[k], others[k % len(others)], ends[k + 1]])
        return ctx.alloc(F, vertices=vd, big_edges_list=bel, border_vertices=[], cells=ctx.dict())

    def mk(guess, grow, zero_id=False, shared_ids=False):
        def h(ctx):
            T = cls(ctx, "forsys.time_series", "TimeSeries")
            e0, o0 = [3, 8, 5], [40, 41]
            e1, o1 = ([12, 0, 11] if zero_id else [12, 17, 11]), [50, 51]        # zero_id: a vertex numbered 0 in the later frame
            if shared_ids:
                e1 = [5, 3, 8]                                                     # the later frame re-uses the earlier frame's numbers for OTHER junctions
            answered = {}
            c0 = {i: (ctx.real(f"a{i}x"), ctx.real(f"a{i}y")) for i in e0 + o0}
            c1 = {i: (ctx.real(f"b{i}x"), ctx.real(f"b{i}y")) for i in e1 + o1}
            t0, t1 = frame(ctx, "a", e0, o0, c0), frame(ctx, "b", e1, o1, c1)
            ts = ctx.alloc(T, cm=False, cutoff=0.1)
            calls = []

            def fb(it, a, k):
                v0, pool, found = a[1], a[2], a[3]
                foundl = ctx.list_of(found)
                free = [vid for vid in ctx.keys(pool) if vid not in foundl]
                # contract of find_best (O12.1): None or a free pool vertex; which one is an arbitrary choice here
                choice = ctx.int(f"choice{len(calls)}")
                calls.append(choice)
                for j, vid in enumerate(free):
                    if ctx.it.decide(choice == j) if ctx.mode == "sym" else (choice == j):
                        answered.setdefault(ctx.get(v0, "id"), []).append(vid)
                        return ctx.item(pool, vid)
                answered.setdefault(ctx.get(v0, "id"), []).append(None)
                return None
            ctx.stub(TS + "find_best", fb, "callee contract proved as O12.1 (the choice among free candidates is left arbitrary)")
            if ctx.mode != "sym":
                return
            g = ctx.dict(guess)
            exc = ctx.raises(lambda: calls.append(("res", ctx.callm(ts, "create_mapping", t0, t1, g))))
            # spec of the bounding-box test over the interface end points of both frames
            def mx(vals):
                acc = vals[0]
                for v in vals[1:]:
                    acc = ctx.ite(v > acc, v, acc)
                return acc

            def mn(vals):
                acc = vals[0]
                for v in vals[1:]:
                    acc = ctx.ite(v < acc, v, acc)
                return acc
            x0, y0 = [c0[i][0] for i in e0], [c0[i][1] for i in e0]
            x1, y1 = [c1[i][0] for i in e1], [c1[i][1] for i in e1]
            extent = mx([mx(x0 + x1) - mn(x0 + x1), mx(y0 + y1) - mn(y0 + y1)])
            dxs, dys = (mx(x1) - mn(x1)) - (mx(x0) - mn(x0)), (mx(y1) - mn(y1)) - (mx(y0) - mn(y0))
            too_different = dxs * dxs + dys * dys > (0.1 * extent) * (0.1 * extent)
            if exc is not None:
                ctx.ensure(type(exc).__name__ == "DifferentTissueException", "only DifferentTissueException may be raised")
                ctx.ensure(too_different, "raised only if the bounding box changes shape by more than 10% of the extent")
                return
            ctx.ensure(ctx.Not(too_different), "no exception only if the shape change is within 10% of the extent")
            res = [c for c in calls if isinstance(c, tuple)][0][1]
            keys = ctx.keys(res)
            ctx.ensure(sorted(keys) == sorted(set(e0) | set(k for k, _ in guess)), "keys: the interface end points of the earlier frame plus the user's keys")
            for k, v in guess:
                ctx.ensure(ctx.item(res, k) == v, f"user pair {k}->{v} honoured")
            vals = [ctx.item(res, k) for k in keys]
            ctx.ensure(all(v is None or v in e1 or v in [gv for _, gv in guess] for v in vals), "values are None or interface end points of the later frame")
            nn = [v for v in vals if v is not None]
            ctx.ensure(len(nn) == len(set(nn)), "no two vertices are sent to the same target")
            for k in e0:
                if k not in [gk for gk, _ in guess]:
                    ctx.ensure(answered.get(k) is not None and len(answered[k]) == 1 and ctx.item(res, k) == answered[k][0],
                               f"end point {k}: linked to exactly what the proximity search (find_best) answered for it - the vertex numbers play no role")
        return h
    return [("no-guess", mk([], False)), ("guess-3->17", mk([(3, 17)], False)), ("guess-3->0,vertex-id-0", mk([(3, 0)], False, True)), ("no-guess,vertex-id-0", mk([], False, True)),
            ("no-guess,later-frame-reuses-the-numbers", mk([], False, shared_ids=True))]


@obligation("O12.4", ["C12", "C03", "C13"], [TS + "__post_init__", TS + "create_mapping"],
            "TimeSeries constructor on three frames numbered independently (scenario with concrete positions, find_best by contract): step k maps exactly "
            "the interface end points of frame k to their partners in frame k+1 - every step has its own table, no entry of another step leaks into it, "
            "and the caller's initial_guess dictionaries are not written to", tier="Pn")
def o12_4(tier):
    def h(ctx):
        T = cls(ctx, "forsys.time_series", "TimeSeries")
        F = cls(ctx, "forsys.frames", "Frame")
        ctx.real("unused")
        ends = [[3, 8, 5], [12, 17, 11], [21, 22, 23]]
        mids = [[40, 41], [50, 51], [60, 61]]
        pos = [(0.0, 0.0), (4.0, 0.5), (8.0, 0.0)]
        frames = []
        for k in range(3):
            ids = ends[k] + mids[k]
            coords = [(pos[i][0] + 0.01 * k, pos[i][1] + 0.02 * k) for i in range(3)] + [(2.0, 1.0 + 0.01 * k), (6.0, 1.0 + 0.01 * k)]
            vs = mk_vertices(ctx, coords, ids=ids)
            bel = [[ends[k][0], mids[k][0], ends[k][1]], [ends[k][1], mids[k][1], ends[k][2]]]
            frames.append(ctx.alloc(F, vertices=ctx.dict(list(zip(ids, vs))), big_edges_list=bel, border_vertices=[], cells=ctx.dict(), time=float(k)))
        partner = {3: 12, 8: 17, 5: 11, 12: 21, 17: 22, 11: 23}

        def fb(it, a, k):
            v0, pool = a[1], a[2]
            want = partner[ctx.get(v0, "id")]
            return ctx.item(pool, want) if want in ctx.keys(pool) else None
        ctx.stub(TS + "find_best", fb, "callee contract proved as O12.1 (here: the nearest free vertex of the scenario)")
        if ctx.mode != "sym":
            ctx.apply_stubs = True
            ctx.stub(TS + "find_best", fb)
        guess = ctx.dict([(0, ctx.dict()), (1, ctx.dict()), (2, ctx.dict())])
        ts = ctx.call(T, ctx.dict([(0, frames[0]), (1, frames[1]), (2, frames[2])]), False, guess)
        mp = ctx.get(ts, "mapping")
        ctx.ensure(sorted(ctx.keys(mp)) == [0, 1], "one table per pair of consecutive frames")
        for k in (0, 1):
            table = dict(ctx.list_of(ctx.item(mp, k)))
            ctx.ensure(table == {e: partner[e] for e in ends[k]}, f"step {k}: exactly the end points of frame {k}, each sent to its partner in frame {k + 1}")
        ctx.ensure(ctx.item(mp, 0) is not ctx.item(mp, 1), "the two steps do not share one table")
        ctx.ensure(all(len(ctx.list_of(g)) == 0 for _, g in ctx.list_of(guess)), "the caller's (empty) initial guesses are left empty")

    def h_default(ctx):
        # the same with the default initial_guess built by the constructor itself
        T = cls(ctx, "forsys.time_series", "TimeSeries")
        F = cls(ctx, "forsys.frames", "Frame")
        ctx.real("unused")
        ends = [[3, 8, 5], [12, 17, 11], [21, 22, 23]]
        mids = [[40, 41], [50, 51], [60, 61]]
        pos = [(0.0, 0.0), (4.0, 0.5), (8.0, 0.0)]
        frames = []
        for k in range(3):
            ids = ends[k] + mids[k]
            coords = [(pos[i][0] + 0.01 * k, pos[i][1] + 0.02 * k) for i in range(3)] + [(2.0, 1.0 + 0.01 * k), (6.0, 1.0 + 0.01 * k)]
            vs = mk_vertices(ctx, coords, ids=ids)
            bel = [[ends[k][0], mids[k][0], ends[k][1]], [ends[k][1], mids[k][1], ends[k][2]]]
            frames.append(ctx.alloc(F, vertices=ctx.dict(list(zip(ids, vs))), big_edges_list=bel, border_vertices=[], cells=ctx.dict(), time=float(k)))
        partner = {3: 12, 8: 17, 5: 11, 12: 21, 17: 22, 11: 23}

        def fb(it, a, k):
            v0, pool = a[1], a[2]
            want = partner[ctx.get(v0, "id")]
            return ctx.item(pool, want) if want in ctx.keys(pool) else None
        ctx.stub(TS + "find_best", fb, "callee contract proved as O12.1 (here: the nearest free vertex of the scenario)")
        if ctx.mode != "sym":
            ctx.apply_stubs = True
            ctx.stub(TS + "find_best", fb)
        ts = ctx.call(T, ctx.dict([(0, frames[0]), (1, frames[1]), (2, frames[2])]), False)
        mp = ctx.get(ts, "mapping")
        for k in (0, 1):
            table = dict(ctx.list_of(ctx.item(mp, k)))
            ctx.ensure(table == {e: partner[e] for e in ends[k]}, f"default guess, step {k}: exactly the end points of frame {k}, each sent to its partner in frame {k + 1}")
        ctx.ensure(ctx.item(mp, 0) is not ctx.item(mp, 1), "default guess: the two steps do not share one table")
    return [("three-frames,explicit-empty-guess", h), ("three-frames,default-guess", h_default)]
