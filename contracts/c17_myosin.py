"""C17 - myosin quantification (myosin.py): window construction, per-interface statistic, keying, normalisation."""
import z3
from fvc.registry import obligation
from .common import cls, mk_vertices, mk_small_edges, mk_bigedge

M = "forsys.myosin"


class Image:
    """symbolic image: getpixel((x, y)) = pix(x, y), an uninterpreted function of the position; reads are recorded"""

    def __init__(self, ctx, scale=1):
        self.ctx, self.reads, self.scale = ctx, [], scale
        self.f = z3.Function("pix", z3.RealSort(), z3.RealSort(), z3.RealSort())

    def value(self, x, y):
        from fvc import sym
        return self.scale * self.f(sym.to_real(x), sym.to_real(y))

    def fvc_getattr(self, it, name):
        if name != "getpixel":
            from fvc.interp import SymError
            raise SymError("image." + name)
        from fvc.lib import ModelFn

        def gp(it_, pos):
            x, y = list(it_.iterate(pos))
            self.reads.append((x, y))
            return self.value(x, y)
        return ModelFn("Image.getpixel", gp)


class NativeImage:
    def __init__(self, scale=1.0):
        self.scale = scale

    def getpixel(self, pos):
        x, y = pos
        return self.scale * (((37 * float(x) + 101 * float(y)) % 23) + 0.25 * float(x))


def image(ctx, scale=1):
    return Image(ctx, scale) if ctx.mode == "sym" else NativeImage(scale)


def pix(ctx, img, x, y):
    return img.value(x, y) if ctx.mode == "sym" else img.getpixel((x, y))


@obligation("O17.1", ["C17"], [M + ":get_layer_elements"],
            "get_layer_elements(p, L) lists exactly the (2L+1)^2 positions (p.x+i, p.y+k), -L <= i,k <= L, each once", tier="Pn")
def o17_1(tier):
    def mk(L):
        def h(ctx):
            my = ctx.module(M)
            px, py = ctx.real("px"), ctx.real("py")
            r = [ctx.list_of(p) for p in ctx.list_of(ctx.call(ctx.get(my, "get_layer_elements"), [px, py], L))]
            ctx.ensure(len(r) == (2 * L + 1) ** 2, "(2L+1)^2 positions")
            for i in range(-L, L + 1):
                for k in range(-L, L + 1):
                    hits = [ctx.And(ctx.close(p[0], px + i), ctx.close(p[1], py + k)) for p in r]
                    ctx.ensure(sum((ctx.ite(hh, 1, 0) for hh in hits), 0) == 1, f"offset ({i},{k}) occurs exactly once")
        return h
    return [(f"layers={L}", mk(L)) for L in (0, 1, 2, 3)]


@obligation("O17.2", ["C17"], [M + ":get_intensity", M + ":get_layer_elements"],
            "get_intensity reads the window centred on (x*rescale_x + offset_x, y*rescale_y + offset_y)", tier="Pn")
def o17_2(tier):
    def mk(L):
        def h(ctx):
            my = ctx.module(M)
            x, y = ctx.real("x"), ctx.real("y")
            rx, ry, ox, oy = ctx.real("rx"), ctx.real("ry"), ctx.real("ox"), ctx.real("oy")
            v = mk_vertices(ctx, [(x, y)])[0]
            img = image(ctx)
            vals = ctx.list_of(ctx.call(ctx.get(my, "get_intensity"), img, v, L, rescale=[rx, ry], offset=[ox, oy]))
            ctx.ensure(len(vals) == (2 * L + 1) ** 2, "(2L+1)^2 pixel values")
            cx, cy = x * rx + ox, y * ry + oy
            want = [pix(ctx, img, cx + i, cy + k) for i in range(-L, L + 1) for k in range(-L, L + 1)]
            ctx.ensure(ctx.And(*[ctx.close(a, b) for a, b in zip(vals, want)]), "the pixel values of the window around the rescaled, offset vertex")
        return h
    return [(f"layers={L}", mk(L)) for L in (0, 1)]


@obligation("O17.3", ["C17"], [M + ":get_intensities", M + ":get_intensity"],
            "get_intensities(integrate=False): entry k is the mean over the vertices of interface k of the median of its window, keyed and written back by "
            "position (also for repeated interfaces); 'average' divides by the mean so the values average to one; a brighter image scales the raw values", tier="Pn")
def o17_3(tier):
    def edges(ctx, spec):
        out = []
        first = 0
        for n in spec:
            pts = [(ctx.real(f"e{len(out)}x{i}"), ctx.real(f"e{len(out)}y{i}")) for i in range(n)]
            vs = mk_vertices(ctx, pts, ids=[first + i for i in range(n)])
            mk_small_edges(ctx, vs, first)
            out.append((mk_bigedge(ctx, len(out), vs), pts))
            first += n + 5
        return out

    def mk(spec, repeat, normalize, scale):
        def h(ctx):
            my = ctx.module(M)
            es = edges(ctx, spec)
            lst = [e for e, _ in es] + ([es[0][0]] if repeat else [])
            pts = [p for _, p in es] + ([es[0][1]] if repeat else [])
            img = image(ctx, scale)
            ref = image(ctx, 1)
            if ctx.mode == "sym":
                ref.f = img.f
            raw = [sum((pix(ctx, ref, p[0], p[1]) for p in pp[1:]), pix(ctx, ref, pp[0][0], pp[0][1])) / len(pp) * scale for pp in pts]
            if normalize == "average":
                mean = sum(raw[1:], raw[0]) / len(raw)
                ctx.assume(ctx.Not(ctx.zero(mean)), "pre")       # the statement's 'average to one' presupposes a non-zero mean
            res = ctx.call(ctx.get(my, "get_intensities"), lst, img, False, normalize, 0)
            ctx.ensure(ctx.keys(res) == list(range(len(lst))), "one entry per listed interface, keyed by position")
            for k in range(len(lst)):
                ctx.ensure(ctx.close(ctx.item(res, k) * (mean if normalize == "average" else 1), raw[k]), f"entry {k}: mean over the vertices of the window median (layers=0: the pixel itself)")
            # write-back: BigEdge.gt holds the value of (the last position of) that interface
            for k, be in enumerate(lst):
                last = max(j for j, b in enumerate(lst) if b is be)
                ctx.ensure(ctx.eq(ctx.get(be, "gt"), ctx.item(res, last)), f"interface at position {k}: gt written back")
        return h
    return [("two-interfaces,raw", mk([2, 3], False, None, 1)), ("two-interfaces,average", mk([2, 3], False, "average", 1)),
            ("repeated-interface,raw", mk([2, 3], True, None, 1)), ("repeated-interface,average", mk([2, 3], True, "average", 1)), ("brighter-image-x3,raw", mk([3], False, None, 3))]


@obligation("O17.4", ["C17"], [M + ":get_interpolation"],
            "get_interpolation: the polyline is taken in image coordinates (x*rescale_x+offset_x, y*rescale_y+offset_y); each segment is handed to the band "
            "walk between the ceil-ed end points with the given number of layers; the reported length is the Euclidean length of that polyline", tier="Pn")
def o17_4(tier):
    def mk(n):
        def h(ctx):
            my = ctx.module(M)
            pts = [(ctx.real(f"x{i}"), ctx.real(f"y{i}")) for i in range(n)]
            rx, ry, ox, oy = ctx.real("rx"), ctx.real("ry"), ctx.real("ox"), ctx.real("oy")
            vs = mk_vertices(ctx, pts)
            mk_small_edges(ctx, vs)
            be = mk_bigedge(ctx, 0, vs)
            calls = []

            def walk(it, a, k):
                calls.append((list(it.iterate(a[0])), list(it.iterate(a[1])), a[2]))
                from fvc.interp import ISet
                return ISet([])
            ctx.stub("forsys.myosin:walk_two_vertices", walk, "band walk between two pixel positions (bounded stand-in B17 only)")
            if ctx.mode != "sym":
                return
            res = ctx.list_of(ctx.call(ctx.get(my, "get_interpolation"), be, 2, rescale=[rx, ry], offset=[ox, oy]))
            length = res[1]
            img = [(p[0] * rx + ox, p[1] * ry + oy) for p in pts]
            from fvc import sym
            import z3
            ceil = lambda t: sym.concretize(-z3.ToInt(-sym.to_real(t)))
            ctx.ensure(len(calls) == n - 1, "one band walk per segment")
            for i, (a, b, layers) in enumerate(calls):
                ctx.ensure(ctx.And(ctx.eq(a[0], ceil(img[i][0])), ctx.eq(a[1], ceil(img[i][1])), ctx.eq(b[0], ceil(img[i + 1][0])), ctx.eq(b[1], ceil(img[i + 1][1]))),
                           f"segment {i}: walked between the ceil-ed image positions of its two ends")
                ctx.ensure(layers == 2, f"segment {i}: with the requested number of layers")
            spec = 0
            for i in range(n - 1):
                dx, dy = img[i][0] - img[i + 1][0], img[i][1] - img[i + 1][1]
                spec = spec + ctx.sqrt(dx * dx + dy * dy)
            ctx.ensure(ctx.close(length, spec), "length = Euclidean length of the polyline in image coordinates")
        return h
    return [(f"n={n}", mk(n)) for n in (2, 3)]
