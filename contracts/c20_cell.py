"""C20 - cell geometry primitives (forsys/cell.py)."""
from fvc.registry import obligation
from .common import mk_vertices, mk_cell, shoelace, cls

UNITS = ["forsys.cell:Cell.get_area", "forsys.cell:Cell.get_area_sign", "forsys.cell:Cell.get_next_vertex",
         "forsys.cell:Cell.get_previous_vertex", "forsys.cell:Cell.get_perimeter", "forsys.cell:Cell.calculate_neighbors"]


def sizes(tier, lo, hi_quick, hi_thorough, step_quick=1):
    hi = hi_quick if tier == "quick" else hi_thorough
    return list(range(lo, hi + 1))


def _poly(ctx, n):
    xs, ys = ctx.reals("x", n), ctx.reals("y", n)
    return xs, ys


@obligation("O20.1", ["C20"], UNITS[:2], "get_area() is the shoelace area of the stored cycle; get_area_sign() its sign", tier="Pn")
def o20_1(tier):
    def mk(n):
        def h(ctx):
            xs, ys = _poly(ctx, n)
            c = mk_cell(ctx, 0, mk_vertices(ctx, list(zip(xs, ys))))
            a = ctx.callm(c, "get_area")
            spec = shoelace(xs, ys)
            ctx.ensure(ctx.close(a, spec), "area=shoelace")
            s = ctx.callm(c, "get_area_sign")
            # `a` was just proved equal to the shoelace spec; the sign clause is stated on it
            ctx.ensure(ctx.Or(ctx.And(a > 0, s == 1), ctx.And(a < 0, s == -1), ctx.And(ctx.zero(a), s == 0)), "sign")
            ctx.record_result(a)
        return h
    ns = [3, 4, 5, 6, 7, 8, 12, 20, 40, 80] if tier == "quick" else list(range(3, 81))
    return [(f"n={n}", mk(n)) for n in ns]


@obligation("L20.a", ["C20", "C07"], UNITS[:1], "area changes sign under reversal of the cycle and is unchanged by cyclic shifts", tier="Pn")
def l20_a(tier):
    def mk(n, k):
        def h(ctx):
            xs, ys = _poly(ctx, n)
            pts = list(zip(xs, ys))
            c = mk_cell(ctx, 0, mk_vertices(ctx, pts))
            crev = mk_cell(ctx, 1, mk_vertices(ctx, pts[::-1]))
            csh = mk_cell(ctx, 2, mk_vertices(ctx, pts[k:] + pts[:k]))
            a = ctx.callm(c, "get_area")
            ctx.ensure(ctx.close(ctx.callm(crev, "get_area"), -a), "reversal flips sign")
            ctx.ensure(ctx.close(ctx.callm(csh, "get_area"), a), "cyclic shift invariant")
        return h
    ns = [3, 4, 5, 7, 16, 80] if tier == "quick" else list(range(3, 81))
    return [(f"n={n},shift={k}", mk(n, k)) for n in ns for k in sorted({1, n // 2, n - 1})]


@obligation("L20.b", ["C20", "C06"], UNITS[:1], "area is translation invariant and scales with the square of a length factor", tier="Pn")
def l20_b(tier):
    def mk(n):
        def h(ctx):
            xs, ys = _poly(ctx, n)
            tx, ty, s = ctx.real("tx"), ctx.real("ty"), ctx.real("s")
            ctx.assume(s > 0)
            c = mk_cell(ctx, 0, mk_vertices(ctx, list(zip(xs, ys))))
            ct = mk_cell(ctx, 1, mk_vertices(ctx, [(x + tx, y + ty) for x, y in zip(xs, ys)]))
            cs = mk_cell(ctx, 2, mk_vertices(ctx, [(s * x, s * y) for x, y in zip(xs, ys)]))
            a = ctx.callm(c, "get_area")
            ctx.ensure(ctx.close(ctx.callm(ct, "get_area"), a), "translation invariant")
            ctx.ensure(ctx.close(ctx.callm(cs, "get_area"), s * s * a), "degree 2")
        return h
    ns = [3, 4, 6, 17, 80] if tier == "quick" else list(range(3, 81))
    return [(f"n={n}", mk(n)) for n in ns]


@obligation("L20.c", ["C20"], UNITS[:2], "a triangle stored counter-clockwise (y up) has negative area and sign -1", tier="P")
def l20_c(tier):
    def h(ctx):
        xs, ys = _poly(ctx, 3)
        # counter-clockwise in a y-up frame: cross((B-A),(C-A)) > 0
        ccw = (xs[1] - xs[0]) * (ys[2] - ys[0]) - (ys[1] - ys[0]) * (xs[2] - xs[0])
        ctx.assume(ccw > 0)
        c = mk_cell(ctx, 0, mk_vertices(ctx, list(zip(xs, ys))))
        ctx.ensure(ctx.callm(c, "get_area") < 0, "ccw => negative area")
        ctx.ensure(ctx.callm(c, "get_area_sign") == -1, "ccw => sign -1")
        ctx.ensure(ctx.close(ctx.callm(c, "get_area") * -2, ccw), "|area| = half the cross product")
    return [("triangle", h)]


@obligation("O20.3", ["C20", "C07"], UNITS[2:4], "get_next_vertex/get_previous_vertex step by the area sign through the cycle and are mutually inverse", tier="Pn")
def o20_3(tier):
    def mk(n, j):
        def h(ctx):
            xs, ys = _poly(ctx, n)
            # distinct positions so that dataclass equality (used by list.index) identifies the vertex object
            for a in range(n):
                for b in range(a + 1, n):
                    ctx.assume(ctx.Or(ctx.Not(ctx.close(xs[a], xs[b])), ctx.Not(ctx.close(ys[a], ys[b]))))
            vs = mk_vertices(ctx, list(zip(xs, ys)))
            c = mk_cell(ctx, 0, vs)
            area = shoelace(xs, ys)
            nxt = ctx.callm(c, "get_next_vertex", vs[j])
            prv = ctx.callm(c, "get_previous_vertex", vs[j])
            nid, pid = ctx.get(nxt, "id"), ctx.get(prv, "id")
            ctx.ensure(ctx.Implies(area > 0, ctx.And(nid == (j + 1) % n, pid == (j - 1) % n)), "positive area: next is the following stored vertex")
            ctx.ensure(ctx.Implies(area < 0, ctx.And(nid == (j - 1) % n, pid == (j + 1) % n)), "negative area: next is the preceding stored vertex")
            back = ctx.callm(c, "get_previous_vertex", nxt)
            ctx.ensure(ctx.get(back, "id") == j, "previous(next(v)) = v")
        return h
    def mk_history(n, j, how):
        def h(ctx):
            # the walking sense follows the CURRENT area sign, also after the same object was navigated and measured before its
            # geometry changed (mirrored in place / cycle stored the other way round)
            xs, ys = _poly(ctx, n)
            for a in range(n):
                for b in range(a + 1, n):
                    ctx.assume(ctx.Or(ctx.Not(ctx.close(xs[a], xs[b])), ctx.Not(ctx.close(ys[a], ys[b]))))
            vs = mk_vertices(ctx, list(zip(xs, ys)))
            c = mk_cell(ctx, 0, vs)
            ctx.callm(c, "get_next_vertex", vs[j])
            ctx.callm(c, "get_perimeter")
            ctx.callm(c, "get_area_sign")
            if how == "mirror":
                for v, y in zip(vs, ys):
                    ctx.set(v, "y", -y)
                area, step = shoelace(xs, [-y for y in ys]), 1
            else:
                ctx.set(c, "vertices", list(reversed(vs)))
                area, step = -shoelace(xs, ys), -1
            nxt = ctx.callm(c, "get_next_vertex", vs[j])
            prv = ctx.callm(c, "get_previous_vertex", vs[j])
            nid, pid = ctx.get(nxt, "id"), ctx.get(prv, "id")
            ctx.ensure(ctx.Implies(area > 0, ctx.And(nid == (j + step) % n, pid == (j - step) % n)), "positive current area: next is the following stored vertex")
            ctx.ensure(ctx.Implies(area < 0, ctx.And(nid == (j - step) % n, pid == (j + step) % n)), "negative current area: next is the preceding stored vertex")
        return h
    ns = [3, 4, 6] if tier == "quick" else [3, 4, 5, 6, 7, 8, 10]
    out = [(f"n={n},v={j}", mk(n, j)) for n in ns for j in sorted({0, n // 2, n - 1})]
    out += [(f"n=4,v=1,after-{how}-on-the-same-object", mk_history(4, 1, how)) for how in ("mirror", "reversal")]
    return out


@obligation("O20.4", ["C20", "C06"], UNITS[4:5], "get_perimeter() is the length of the closed cycle (either storage sense), of degree 1", tier="Pn")
def o20_4(tier):
    def mk(n):
        def h(ctx):
            xs, ys = _poly(ctx, n)
            for a in range(n):
                for b in range(a + 1, n):
                    ctx.assume(ctx.Or(ctx.Not(ctx.close(xs[a], xs[b])), ctx.Not(ctx.close(ys[a], ys[b]))))
            ctx.assume(ctx.Not(ctx.zero(shoelace(xs, ys))), "non-degenerate polygon")
            vs = mk_vertices(ctx, list(zip(xs, ys)))
            c = mk_cell(ctx, 0, vs)
            p = ctx.callm(c, "get_perimeter")
            spec = 0
            for i in range(n):
                dx, dy = xs[i] - xs[(i + 1) % n], ys[i] - ys[(i + 1) % n]
                spec = spec + ctx.sqrt(dx * dx + dy * dy)
            ctx.ensure(ctx.close(p, spec), "perimeter = sum of side lengths")
        return h
    ns = [3, 4, 5] if tier == "quick" else [3, 4, 5, 6, 7, 8]
    return [(f"n={n}", mk(n)) for n in ns]


@obligation("O20.6", ["C20"], UNITS[5:6], "calculate_neighbors() = union of the ownCells of the cycle's vertices minus the cell itself", tier="Pn")
def o20_6(tier):
    def mk(n, shape):
        def h(ctx):
            xs, ys = _poly(ctx, n)
            vs = mk_vertices(ctx, list(zip(xs, ys)))
            cid = ctx.int("cid")
            others = [ctx.int(f"o{i}") for i in range(len(shape))]
            ctx.distinct([cid] + others)
            c = mk_cell(ctx, cid, vs)
            # other cells registered on some of the vertices (shape[k] = vertex positions listing cell k)
            for k, poss in enumerate(shape):
                for p in poss:
                    ctx.callm(vs[p], "add_cell", others[k])
            res = ctx.callm(c, "calculate_neighbors")
            res = ctx.list_of(res)
            ctx.ensure(len(res) == len([s for s in shape if s]), "one entry per neighbouring cell (no duplicates)")
            for k, poss in enumerate(shape):
                inres = ctx.Or(*[ctx.eq(r, others[k]) for r in res]) if res else False
                ctx.ensure(inres if poss else ctx.Not(inres), f"cell {k} listed iff it shares a vertex")
            ctx.ensure(ctx.Not(ctx.Or(*[ctx.eq(r, cid) for r in res])) if res else True, "the cell itself is not its neighbour")
        return h
    shapes = [[[0, 1], [1, 2]], [[0], [0], [2]], [[0, 1, 2], []]]
    if tier != "quick":
        shapes += [[[0, 1], [1, 2], [2, 3], [3, 0]], [[1], [1], [1]]]
    return [(f"n=4,shape={i}", mk(4, s)) for i, s in enumerate(shapes)]
