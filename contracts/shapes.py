"""Small concrete tissue topologies (ids deliberately non-contiguous and unordered) used by the shape-indexed
obligations.  Each returns (cycles, info): cycles = {cell id: vertex-id cycle} in construction order, info describes
the expected decomposition independently of forsys: interfaces as vertex paths, which are internal, junction ids."""


def _path(a, mids, b):
    return [a] + list(mids) + [b]


def tri_star(k=1):
    """three cells around one inner junction J; spokes with k interior points; outer ring with one point per arc"""
    J, S, R = 90, [11, 12, 13], [21, 22, 23]
    sp = [[1000 + 100 * i + j for j in range(k)] for i in range(3)]        # interior points of spoke i (from J outwards)
    spokes = [_path(J, sp[i], S[i]) for i in range(3)]
    cids = [7, 3, 5]
    cycles = {}
    for i in range(3):
        a, b = i, (i + 1) % 3
        cycles[cids[i]] = spokes[a] + [R[i]] + spokes[b][::-1][:-1]
    ring = [[S[i], R[i], S[(i + 1) % 3]] for i in range(3)]
    info = dict(junction_rows=[J], internal=spokes, external=ring,
                cells_of={tuple(spokes[i]): (cids[(i - 1) % 3], cids[i]) for i in range(3)},
                three_cell_vertices=[J])
    return cycles, info


def double_y(k=1):
    """two inner junctions J1, J2 joined by an interface; four cells (top, bottom, left, right)"""
    J1, J2, A, B, C, D = 61, 64, 15, 18, 16, 19
    XT, XB, XL, XR = 71, 72, 73, 74
    mid = [1800 + j for j in range(k)]
    m1 = [1400 + j for j in range(k)]
    m2 = [1500 + j for j in range(k)]
    m3 = [1600 + j for j in range(k)]
    m4 = [1700 + j for j in range(k)]
    i_mid = _path(J1, mid, J2)
    i_a, i_b = _path(J1, m1, A), _path(J1, m2, B)
    i_c, i_d = _path(J2, m3, C), _path(J2, m4, D)
    T, Bo, L, R = 2, 9, 4, 6
    cycles = {}
    cycles[T] = [A] + m1[::-1] + [J1] + mid + [J2] + m3 + [C, XT]
    cycles[Bo] = [B] + m2[::-1] + [J1] + mid + [J2] + m4 + [D, XB]
    cycles[L] = [A] + m1[::-1] + [J1] + m2 + [B, XL]
    cycles[R] = [C] + m3[::-1] + [J2] + m4 + [D, XR]
    internal = [i_mid, i_a, i_b, i_c, i_d]
    external = [[A, XT, C], [B, XB, D], [A, XL, B], [C, XR, D]]
    info = dict(junction_rows=[J1, J2], internal=internal, external=external,
                cells_of={tuple(i_mid): (T, Bo), tuple(i_a): (T, L), tuple(i_b): (Bo, L), tuple(i_c): (T, R), tuple(i_d): (Bo, R)},
                three_cell_vertices=[J1, J2])
    return cycles, info


def four_fold(k=1):
    """four cells around one inner junction"""
    J, S, R = 77, [31, 32, 33, 34], [41, 42, 43, 44]
    sp = [[2000 + 100 * i + j for j in range(k)] for i in range(4)]
    spokes = [_path(J, sp[i], S[i]) for i in range(4)]
    cids = [8, 1, 6, 3]
    cycles = {}
    for i in range(4):
        a, b = i, (i + 1) % 4
        cycles[cids[i]] = spokes[a] + [R[i]] + spokes[b][::-1][:-1]
    ring = [[S[i], R[i], S[(i + 1) % 4]] for i in range(4)]
    info = dict(junction_rows=[J], internal=spokes, external=ring, three_cell_vertices=[J], fold=4,
                cells_of={tuple(spokes[i]): (cids[(i - 1) % 4], cids[i]) for i in range(4)})
    return cycles, info


def n_fold(n, k=1):
    """n cells around one inner junction (n = 5, 6, 7: junctions of more than four interfaces)"""
    J = 77
    S = [31 + i for i in range(n)]
    R = [41 + i for i in range(n)]
    sp = [[3000 + 100 * i + j for j in range(k)] for i in range(n)]
    spokes = [_path(J, sp[i], S[i]) for i in range(n)]
    cids = [8, 1, 6, 3, 12, 5, 9][:n]
    cycles = {}
    for i in range(n):
        a, b = i, (i + 1) % n
        cycles[cids[i]] = spokes[a] + [R[i]] + spokes[b][::-1][:-1]
    ring = [[S[i], R[i], S[(i + 1) % n]] for i in range(n)]
    info = dict(junction_rows=[J], internal=spokes, external=ring, three_cell_vertices=[J], fold=n,
                cells_of={tuple(spokes[i]): (cids[(i - 1) % n], cids[i]) for i in range(n)})
    return cycles, info


def five_fold(k=1):
    return n_fold(5, k)


def six_fold(k=1):
    return n_fold(6, k)


def border_fan(k=1):
    """a vertex P on the tissue border shared by three cells: two internal spokes and two border interfaces end there,
    so it has three cells but only two internal interfaces => no equations"""
    P, Q0, Q1, Q2, Q3 = 55, 20, 21, 22, 23
    X = [26, 27, 28]
    s = [[4000 + 100 * i + j for j in range(k)] for i in range(4)]
    spoke = [_path(P, s[i], [Q0, Q1, Q2, Q3][i]) for i in range(4)]
    c = [4, 9, 2]
    cycles = {c[i]: spoke[i] + [X[i]] + spoke[i + 1][::-1][:-1] for i in range(3)}
    info = dict(junction_rows=[], internal=[spoke[1], spoke[2]], three_cell_vertices=[P],
                external=[spoke[0] + [X[0], Q1], [Q1, X[1], Q2], spoke[3] + [X[2], Q2]],
                cells_of={tuple(spoke[1]): (c[0], c[1]), tuple(spoke[2]): (c[1], c[2])})
    return cycles, info


def border_fan4(k=1):
    """a vertex P on the tissue border shared by FOUR cells: three internal spokes and two border interfaces end there, so it
    carries equations while border interfaces end at it too (their versors are computed but must not be used)"""
    P, Q = 55, [20, 21, 22, 23, 24]
    X = [26, 27, 28, 29]
    s = [[4000 + 100 * i + j for j in range(k)] for i in range(5)]
    spoke = [_path(P, s[i], Q[i]) for i in range(5)]
    c = [4, 9, 2, 6]
    cycles = {c[i]: spoke[i] + [X[i]] + spoke[i + 1][::-1][:-1] for i in range(4)}
    info = dict(junction_rows=[P], internal=[spoke[1], spoke[2], spoke[3]], three_cell_vertices=[P],
                external=[spoke[0] + [X[0], Q[1]], [Q[1], X[1], Q[2]], [Q[2], X[2], Q[3]], spoke[4] + [X[3], Q[3]]],
                cells_of={tuple(spoke[1]): (c[0], c[1]), tuple(spoke[2]): (c[1], c[2]), tuple(spoke[3]): (c[2], c[3])})
    return cycles, info


def tri_star_ear(k=1):
    """tri_star whose first outer arc carries an extra cell ('ear') glued along one mesh edge: the ear touches no
    internal interface (its only shared interface has no end with three cells)"""
    J, S, R = 90, [11, 12, 13], [21, 22, 23]
    Ra, Rb, E1, E2 = 24, 25, 81, 82
    sp = [[1000 + 100 * i + j for j in range(k)] for i in range(3)]
    spokes = [_path(J, sp[i], S[i]) for i in range(3)]
    cids = [7, 3, 5]
    ear = 12
    cycles = {}
    cycles[cids[0]] = spokes[0] + [Ra, Rb] + spokes[1][::-1][:-1]
    cycles[ear] = [Ra, E1, E2, Rb]           # second in construction order: its column lies between used ones
    for i in (1, 2):
        cycles[cids[i]] = spokes[i] + [R[i]] + spokes[(i + 1) % 3][::-1][:-1]
    info = dict(junction_rows=[J], internal=spokes, three_cell_vertices=[J],
                external=[[S[0], Ra], [Ra, Rb], [Rb, S[1]], [Ra, E1, E2, Rb], [S[1], R[1], S[2]], [S[2], R[2], S[0]]],
                cells_of={tuple(spokes[i]): (cids[(i - 1) % 3], cids[i]) for i in range(3)}, isolated_cells=[ear])
    return cycles, info


def tri_star_two_ears(k=1):
    """tri_star with two ears on different outer arcs, inserted at non-consecutive positions of the construction order:
    two cells without internal interface whose columns are not adjacent"""
    J, S, R = 90, [11, 12, 13], [21, 22, 23]
    Ra, Rb, E1, E2 = 24, 25, 81, 82
    Rc, Rd, E3, E4 = 26, 27, 83, 84
    sp = [[1000 + 100 * i + j for j in range(k)] for i in range(3)]
    spokes = [_path(J, sp[i], S[i]) for i in range(3)]
    cids = [7, 3, 5]
    ear1, ear2 = 12, 14
    cycles = {}
    cycles[ear1] = [Ra, E1, E2, Rb]
    cycles[cids[0]] = spokes[0] + [Ra, Rb] + spokes[1][::-1][:-1]
    cycles[cids[1]] = spokes[1] + [R[1]] + spokes[2][::-1][:-1]
    cycles[ear2] = [Rc, E3, E4, Rd]
    cycles[cids[2]] = spokes[2] + [Rc, Rd] + spokes[0][::-1][:-1]
    info = dict(junction_rows=[J], internal=spokes, three_cell_vertices=[J],
                external=[[S[0], Ra], [Ra, Rb], [Rb, S[1]], [Ra, E1, E2, Rb], [S[1], R[1], S[2]], [S[2], Rc], [Rc, Rd], [Rd, S[0]], [Rc, E3, E4, Rd]],
                cells_of={tuple(spokes[i]): (cids[(i - 1) % 3], cids[i]) for i in range(3)}, isolated_cells=[ear1, ear2])
    return cycles, info


SHAPES = {"tri_star": tri_star, "tri_star_ear": tri_star_ear, "tri_star_two_ears": tri_star_two_ears, "five_fold": five_fold, "six_fold": six_fold, "double_y": double_y, "four_fold": four_fold, "border_fan": border_fan, "border_fan4": border_fan4}


def vertex_ids(cycles):
    out = []
    for cyc in cycles.values():
        for v in cyc:
            if v not in out:
                out.append(v)
    return out


def same_path(a, b):
    return list(a) == list(b) or list(a) == list(b)[::-1]


def variant(name, k, seed):
    """the same physical tissue under another labelling / storage: vertex ids and cell ids permuted to other
    (non-contiguous) numbers, every cycle started at another vertex, some cells stored in the opposite sense, cells
    inserted in another construction order.  `info` is mapped along, so expectations stay phrased over physical objects."""
    import random
    rnd = random.Random(seed)
    cycles, info = SHAPES[name](k)
    vids = vertex_ids(cycles)
    new_v = rnd.sample(range(100, 100 + 7 * len(vids)), len(vids))
    vm = dict(zip(vids, new_v))
    cids = list(cycles)
    new_c = rnd.sample(range(1, 60), len(cids))
    cm = dict(zip(cids, new_c))
    order = cids[:]
    rnd.shuffle(order)
    out = {}
    for c in order:
        cyc = [vm[v] for v in cycles[c]]
        s = rnd.randrange(len(cyc))
        cyc = cyc[s:] + cyc[:s]
        if rnd.random() < 0.5:
            cyc = cyc[::-1]
        out[cm[c]] = cyc
    mp = lambda p: [vm[v] for v in p]
    info2 = dict(info)
    info2["junction_rows"] = [vm[v] for v in info["junction_rows"]]
    info2["internal"] = [mp(p) for p in info["internal"]]
    info2["external"] = [mp(p) for p in info["external"]]
    info2["three_cell_vertices"] = [vm[v] for v in info["three_cell_vertices"]]
    info2["cells_of"] = {tuple(mp(p)): tuple(cm[c] for c in cs) for p, cs in info["cells_of"].items()}
    if "isolated_cells" in info:
        info2["isolated_cells"] = [cm[c] for c in info["isolated_cells"]]
    return out, info2


def register_variants(seeds=(1, 2, 3)):
    for name in list(SHAPES):
        for s in seeds:
            SHAPES[f"{name}~v{s}"] = (lambda n, sd: (lambda k=1: variant(n, k, sd)))(name, s)


BASE_SHAPES = list(SHAPES)
register_variants()
