"""C06 - similarity transforms and changes of units, at the level of the functions that produce the coefficients and
right-hand sides (edge.py versors, set_velocity_matrix, join_two_vertices is O11.7, areas are L20.b, curvature O04.4)."""
from fvc.registry import obligation
from .common import mk_vertices, mk_small_edges, mk_bigedge, cls
from .c02_versors import _axis_between


def two_arcs(ctx, n, f):
    """an n-point arc on a circle with centre C (A-fit) and its image under the map f (points and centre)"""
    pts = [(ctx.real(f"x{i}"), ctx.real(f"y{i}")) for i in range(n)]
    C = (ctx.real("cx"), ctx.real("cy"))
    r2 = (pts[0][0] - C[0]) * (pts[0][0] - C[0]) + (pts[0][1] - C[1]) * (pts[0][1] - C[1])
    ctx.assume(r2 > 0, "pre")
    for p in pts[1:]:
        ctx.assume(ctx.close((p[0] - C[0]) * (p[0] - C[0]) + (p[1] - C[1]) * (p[1] - C[1]), r2), "A-fit:on-circle")
    pts2, C2 = [f(p) for p in pts], f(C)

    def centre(it, a, k):
        first = ctx.get(ctx.list_of(a[0])[0], "id")
        return C if first < 100 else C2
    ctx.stub("forsys.virtual_edges:calculate_circle_center", centre, "A-fit, and its equivariance: the fit of the transformed points is the transformed centre")
    v1 = mk_vertices(ctx, pts, ids=list(range(n)))
    mk_small_edges(ctx, v1, 0)
    v2 = mk_vertices(ctx, pts2, ids=[100 + i for i in range(n)])
    mk_small_edges(ctx, v2, 100)
    return mk_bigedge(ctx, 0, v1), mk_bigedge(ctx, 1, v2), pts, C, pts2, C2


@obligation("O06.b", ["C06"], ["forsys.edge:BigEdge.get_vector_from_vertex", "forsys.edge:BigEdge.get_versor_from_vertex"],
            "translation and uniform scaling: the (un-normalised) tangent vector of the scaled, shifted interface is s times the original one - so the unit "
            "coefficient pair is unchanged (holds for every pose, also inside the sign-forcing class)", tier="Pn")
def o06_b(tier):
    def mk(n, at_end):
        def h(ctx):
            s, tx, ty = ctx.real("s"), ctx.real("tx"), ctx.real("ty")
            ctx.assume(s > 0, "pre")
            b1, b2, pts, C, pts2, C2 = two_arcs(ctx, n, lambda p: (s * p[0] + tx, s * p[1] + ty))
            P, Q = (pts[-1], pts[-2]) if at_end else (pts[0], pts[1])
            ctx.assume(ctx.Or(ctx.Not(ctx.close(P[0], Q[0])), ctx.Not(ctx.close(P[1], Q[1]))), "pre")
            a = ctx.list_of(ctx.callm(b1, "get_vector_from_vertex", n - 1 if at_end else 0))
            b = ctx.list_of(ctx.callm(b2, "get_vector_from_vertex", 100 + (n - 1 if at_end else 0)))
            ctx.ensure(ctx.And(ctx.close(b[0], s * a[0]), ctx.close(b[1], s * a[1])), "vector scales with s and ignores the shift")
        return h
    return [(f"n={n},{'last' if e else 'first'}", mk(n, e)) for n in (2, 3) for e in (False, True)]


@obligation("L06.a", ["C06"], [],
            "lemma over the contract of get_vector_from_vertex (O02.3a/b: parallel to the tangent, oriented along the first segment, length of the radius): "
            "for the rotated or reflected interface the contract forces the rotated / reflected vector, i.e. coefficient pairs turn with the tissue "
            "(inside the sign-forcing class the contract itself fails: known finding KF-C02-sign-forcing)", tier="L")
def l06_a(tier):
    def mk(reflect):
        def h(ctx):
            c, s = ctx.real("c"), ctx.real("s")
            ctx.assume(ctx.close(c * c + s * s, 1), "pre")
            f = (lambda p: (c * p[0] + s * p[1], s * p[0] - c * p[1])) if reflect else (lambda p: (c * p[0] - s * p[1], s * p[0] + c * p[1]))
            t, d = (ctx.real("t1"), ctx.real("t2")), (ctx.real("d1"), ctx.real("d2"))
            a, b = (ctx.real("a1"), ctx.real("a2")), (ctx.real("b1"), ctx.real("b2"))
            # a reflection maps the rot90 tangent of the circle to MINUS the reflected one; the contract is orientation-free (parallel + oriented by the segment)
            t2, d2 = f(t), f(d)
            tt = t[0] * t[0] + t[1] * t[1]
            ctx.assume(tt > 0, "pre")
            ctx.assume(ctx.Not(ctx.zero(t[0] * d[0] + t[1] * d[1])), "pre")
            # contract of the original and of the image
            ctx.assume(ctx.And(ctx.zero(a[0] * t[1] - a[1] * t[0]), a[0] * d[0] + a[1] * d[1] > 0, ctx.close(a[0] * a[0] + a[1] * a[1], tt)), "pre:contract(original)")
            ctx.assume(ctx.And(ctx.zero(b[0] * t2[1] - b[1] * t2[0]), b[0] * d2[0] + b[1] * d2[1] > 0, ctx.close(b[0] * b[0] + b[1] * b[1], tt)), "pre:contract(image)")
            # ghost lemmas: a vector parallel to t with the same length is t or -t
            ctx.lemma(ctx.Or(ctx.And(ctx.close(a[0], t[0]), ctx.close(a[1], t[1])), ctx.And(ctx.close(a[0], -t[0]), ctx.close(a[1], -t[1]))), "a=+-t",
                      premises=[ctx.zero(a[0] * t[1] - a[1] * t[0]), ctx.close(a[0] * a[0] + a[1] * a[1], tt), tt > 0])
            ctx.lemma(ctx.Or(ctx.And(ctx.close(b[0], t2[0]), ctx.close(b[1], t2[1])), ctx.And(ctx.close(b[0], -t2[0]), ctx.close(b[1], -t2[1]))), "b=+-f(t)",
                      premises=[ctx.zero(b[0] * t2[1] - b[1] * t2[0]), ctx.close(b[0] * b[0] + b[1] * b[1], tt), tt > 0, ctx.close(c * c + s * s, 1)])
            ctx.lemma(ctx.close(t2[0] * d2[0] + t2[1] * d2[1], t[0] * d[0] + t[1] * d[1]), "isometry keeps scalar products", premises=[ctx.close(c * c + s * s, 1)])
            fa = f(a)
            goal = ctx.And(ctx.close(b[0], fa[0]), ctx.close(b[1], fa[1]))
            a_pos = ctx.And(ctx.close(a[0], t[0]), ctx.close(a[1], t[1]))
            a_neg = ctx.And(ctx.close(a[0], -t[0]), ctx.close(a[1], -t[1]))
            b_pos = ctx.And(ctx.close(b[0], t2[0]), ctx.close(b[1], t2[1]))
            b_neg = ctx.And(ctx.close(b[0], -t2[0]), ctx.close(b[1], -t2[1]))
            td = t[0] * d[0] + t[1] * d[1]
            td2 = t2[0] * d2[0] + t2[1] * d2[1]
            circ = ctx.close(c * c + s * s, 1)
            # each case is a tiny polynomial fact proved from exactly the premises it needs; the recombination is propositional
            ctx.lemma(ctx.Implies(a_pos, td > 0), "a=t => t.d>0", premises=[a[0] * d[0] + a[1] * d[1] > 0])
            ctx.lemma(ctx.Implies(a_neg, td < 0), "a=-t => t.d<0", premises=[a[0] * d[0] + a[1] * d[1] > 0])
            ctx.lemma(ctx.Implies(b_pos, td2 > 0), "b=f(t) => f(t).f(d)>0", premises=[b[0] * d2[0] + b[1] * d2[1] > 0])
            ctx.lemma(ctx.Implies(b_neg, td2 < 0), "b=-f(t) => f(t).f(d)<0", premises=[b[0] * d2[0] + b[1] * d2[1] > 0])
            ctx.lemma(ctx.Implies(ctx.And(a_pos, b_pos), goal), "case +", premises=[])
            ctx.lemma(ctx.Implies(ctx.And(a_neg, b_neg), goal), "case -", premises=[])
            ctx.ensure(goal, "vector of the image = image of the vector")
        return h
    return [("rotation", mk(False)), ("reflection", mk(True))]


@obligation("L06.d", ["C06", "C03"], ["forsys.fmatrix:ForceMatrix.set_velocity_matrix"],
            "units: multiplying all velocities by a common positive factor (time stamps by 1/k, or lengths by k) leaves the adimensional right-hand side unchanged",
            tier="Pn")
def l06_d(tier):
    def h(ctx):
        from .c13_velocity import mk_fmatrix
        k = ctx.real("k")
        ctx.assume(k > 0, "pre")
        vids = [5, 9]
        vel = {v: (ctx.real(f"vx{v}"), ctx.real(f"vy{v}")) for v in vids}
        ctx.assume(ctx.Or(*[ctx.Not(ctx.zero(c)) for v in vids for c in vel[v]]), "pre: some junction moves")
        scale = [1]
        np_ = ctx.module("numpy") if ctx.mode != "sym" else None

        def cv(it, a, kw):
            vid = a[1]
            val = (vel[vid][0] * scale[0], vel[vid][1] * scale[0])
            if np_ is not None:
                return np_.array(val)
            from fvc import npmodel
            return npmodel.NDArr(list(val), (2,))
        ctx.stub("forsys.time_series:TimeSeries.calculate_velocity", cv, "callee contract O13.2: velocities scale with 1/(time unit) and with the length unit")
        if ctx.mode != "sym":
            ctx.apply_stubs = True
            ctx.stub("forsys.time_series:TimeSeries.calculate_velocity", cv)
        # ghost lemmas: speeds are homogeneous of degree one: sqrt(k^2 u) = k sqrt(u) for k > 0
        for v in vids:
            u = vel[v][0] * vel[v][0] + vel[v][1] * vel[v][1]
            uk = (vel[v][0] * k) * (vel[v][0] * k) + (vel[v][1] * k) * (vel[v][1] * k)
            n1, n2 = ctx.sqrt(u), ctx.sqrt(uk)
            ctx.lemma(ctx.close(n2, k * n1), f"speed-homogeneous({v})", premises=[n1 >= 0, n2 >= 0, ctx.close(n1 * n1, u), ctx.close(n2 * n2, uk), k > 0])
            ctx.lemma(ctx.Implies(ctx.Or(ctx.Not(ctx.zero(vel[v][0])), ctx.Not(ctx.zero(vel[v][1]))), n1 > 0), f"speed-positive({v})", premises=[n1 >= 0, ctx.close(n1 * n1, u)])
        TS = cls(ctx, "forsys.time_series", "TimeSeries")
        out = []
        for sc in (1, k):
            scale[0] = sc
            fm = mk_fmatrix(ctx, 6, 3, [(5, 0), (9, 4)])
            b, avg = ctx.list_of(ctx.callm(fm, "set_velocity_matrix", ctx.alloc(TS), b_matrix="velocity", adimensional_velocity=True))
            out.append(([ctx.list_of(r)[0] for r in ctx.list_of(b)], avg))
        (b1, a1), (b2, a2) = out
        ctx.ensure(ctx.close(a2, k * a1), "the reported system velocity scales with the factor")
        for i in range(6):
            ctx.ensure(ctx.close(b2[i] * a2, b1[i] * a1 * k), f"row {i}: numerator scales with the factor")
            ctx.ensure(ctx.close(b2[i], b1[i]), f"row {i}: adimensional right-hand side unchanged")
    return [("two-junctions", h)]
