"""C05 / C10 / C16 / C01 / C03 - control skeleton of ForceMatrix.solve (fmatrix.py) and the write-back chain
ForSys.solve_stress -> Frame.assign_tensions_to_big_edges -> get_tensions.

The numerical solvers are taken by assumed contract (stubs):
  A-inv    np.linalg.inv(A) raises LinAlgError unless A is square and nonsingular; otherwise inv(A) @ b is the x with A x = b
  A-nnls   scipy.optimize.nnls(A, b) returns x >= 0 (a minimiser of |Ax-b|; optimality itself is not re-proved), ValueError on shape mismatch
  A-lsqlin scipy.optimize.lsq_linear(A, b, bounds=(0, inf)) returns {"x": x >= 0}
  A-lmfit  lmfit.minimize(cost, params, args) returns parameters within their bounds (min=0)
What is proved is everything around them: which system reaches the solver, what happens to its result, which objects
are written, that no exception escapes, and that nothing else is modified (frame conditions)."""
from fvc.registry import obligation
from fvc import interp as I
from .common import cls, mk_mesh, mk_frame
from .c02_matrix import build, find_interface
from .c05_system import sym_matrix
from .shapes import same_path


class SolveProxy:
    """value of np.linalg.inv(A): only `@ b` is supported and yields the solution of A x = b"""

    def __init__(self, ctx, A, log):
        self.ctx, self.A, self.log = ctx, A, log

    def fvc_binop(self, it, op, other, reflected):
        import ast
        from fvc import npmodel, lib
        if not isinstance(op, ast.MatMult) or reflected:
            raise I.SymError("inv(A) used other than as inv(A) @ b")
        b = lib._arr(it, other)
        n = self.A.shape[0]
        if b.shape != (n,):
            raise I.IRaise(ValueError(f"matmul: Input operand 1 has a mismatch in its core dimension 0 (size {b.shape} vs {n})"))
        x = [self.ctx.real(f"xinv{i}") for i in range(n)]
        for i in range(n):
            row = self.A.data[i * n:(i + 1) * n]
            acc = 0
            for a, xv in zip(row, x):
                acc = acc + a * xv
            self.ctx.assume(acc == b.data[i], "A-inv: A x = b")
        self.log.append(("inv", self.A, b))
        return npmodel.NDArr(x, (n,))


class LmParam:
    def __init__(self, value):
        self.value, self.min = value, None

    def fvc_getattr(self, it, name):
        return getattr(self, name)

    def fvc_setattr(self, it, name, v):
        setattr(self, name, v)


class LmParams:
    def __init__(self):
        self.names, self.p = [], {}

    def fvc_getattr(self, it, name):
        if name == "add":
            def add(it_, n, v):
                self.names.append(n)
                self.p[n] = LmParam(v)
            from fvc.lib import ModelFn
            return ModelFn("lmfit.Parameters.add", add)
        raise I.SymError("lmfit.Parameters." + name)

    def fvc_getitem(self, it, key):
        return self.p[key]

    def fvc_iter(self, it):
        return iter(list(self.names))


class LmResult:
    def __init__(self, params):
        self.params = params

    def fvc_getattr(self, it, name):
        return getattr(self, name)


def result_symbol(log, kind, i, upto=None):
    """name of entry i of the result of the LAST call of back end `kind` recorded in log (first call: plain names)"""
    n = sum(1 for e in (log if upto is None else log[:upto]) if e[0] == kind)
    prefix = {"inv": "xinv", "nnls": "xnnls", "lsq_linear": "xlsql", "lsq": "xlm"}[kind]
    return f"{prefix}{i}" + ("" if n <= 1 else f"_c{n}")


def install_solvers(ctx, log, singular=False):
    from fvc import npmodel, lib

    def suffix(kind):
        n = sum(1 for e in log if e[0] == kind) + 1
        return "" if n == 1 else f"_c{n}"

    def inv(it, a, k):
        A = lib._arr(it, a[0])
        if A.ndim != 2 or A.shape[0] != A.shape[1] or singular:
            raise I.IRaise(lib.LinAlgError("Last 2 dimensions of the array must be square / Singular matrix"))
        return SolveProxy(ctx, A, log)

    def nnls(it, a, k):
        A, b = lib._arr(it, a[0]), lib._arr(it, a[1])
        if A.ndim != 2 or b.ndim != 1 or A.shape[0] != b.shape[0]:
            raise I.IRaise(ValueError(f"Incompatible dimensions. The first dimension of A is {A.shape}, while the shape of b is {b.shape}"))
        n = A.shape[1]
        sfx = suffix("nnls")
        x = [ctx.real(f"xnnls{i}{sfx}") for i in range(n)]
        for v in x:
            ctx.assume(v >= 0, "A-nnls: x >= 0")
        log.append(("nnls", A, b))
        return (npmodel.NDArr(x, (n,)), ctx.real("rnorm"))

    def lsq_linear(it, a, k):
        A, b = lib._arr(it, a[0]), lib._arr(it, a[1])
        if A.ndim != 2 or b.ndim != 1 or A.shape[0] != b.shape[0]:
            raise I.IRaise(ValueError("Inconsistent shapes between `A` and `b`."))
        n = A.shape[1]
        sfx = suffix("lsq_linear")
        x = [ctx.real(f"xlsql{i}{sfx}") for i in range(n)]
        for v in x:
            ctx.assume(v >= 0, "A-lsqlin: x within bounds (0, inf)")
        log.append(("lsq_linear", A, b, k.get("bounds")))
        return I.IDict([("x", npmodel.NDArr(x, (n,)))])

    def lm_parameters(it, a, k):
        return LmParams()

    def lm_minimize(it, a, k):
        params, args = k["params"], k["args"]
        A, b = lib._arr(it, args[0]), lib._arr(it, args[1])
        if len(params.names) != A.shape[1]:
            # the cost function multiplies A by the parameter vector: a wrong number of parameters is a shape error
            raise I.IRaise(ValueError(f"shapes {A.shape} and ({len(params.names)},) not aligned"))
        # precondition of the assumed contract (callers must establish it): every start value lies strictly inside its
        # bounds - bounded Levenberg-Marquardt cannot leave a start value that sits on the bound
        for n in params.names:
            if params.p[n].min is not None:
                ctx.ensure(params.p[n].value > params.p[n].min, "A-lmfit precondition: start values strictly inside their bounds")
        out = LmParams()
        sfx = suffix("lsq")
        for i, n in enumerate(params.names):
            v = ctx.real(f"xlm{i}{sfx}")
            if params.p[n].min is not None:
                ctx.assume(v >= params.p[n].min, "A-lmfit: parameters stay within their bounds")
            out.names.append(n)
            out.p[n] = LmParam(v)
        log.append(("lsq", A, b, [params.p[n].value for n in params.names], a[0]))
        return LmResult(out)
    ctx.stub("numpy.linalg.inv", inv, "A-inv: np.linalg.inv raises LinAlgError unless square and nonsingular; inv(A) @ b solves A x = b")
    ctx.stub("scipy.optimize.nnls", nnls, "A-nnls: scipy.optimize.nnls returns x >= 0 (a minimiser of |Ax-b|); ValueError on incompatible shapes")
    ctx.stub("scipy.optimize.lsq_linear", lsq_linear, "A-lsqlin: scipy.optimize.lsq_linear respects its bounds")
    ctx.stub("lmfit.Parameters", lm_parameters, "A-lmfit: lmfit.Parameters is an ordered name->parameter map")
    ctx.stub("lmfit.minimize", lm_minimize, "A-lmfit: lmfit.minimize returns parameters within their bounds")


def solve_fixture(ctx, shape, k, rows, restrict=None):
    """frame of the given topology + a ForceMatrix whose constructor did not run, holding a symbolic rows x c matrix"""
    m, fr, cycles, info, _ = build(ctx, shape, k)
    internal = [ctx.list_of(c) for c in ctx.list_of(ctx.get(fr, "internal_big_edges_vertices"))]
    used = internal if restrict is None else [p for i, p in enumerate(internal) if i not in restrict]
    M, mm = sym_matrix(ctx, "m", rows, len(used))
    FMc = cls(ctx, "forsys.fmatrix", "ForceMatrix")
    deletes = set()
    if restrict:
        for i in restrict:
            deletes.add(internal[i][0])
            deletes.add(internal[i][-1])
    if ctx.mode == "sym":
        dl = I.ISet(sorted(deletes))
    else:
        dl = deletes
    fm = ctx.alloc(FMc, frame=fr, matrix=M, externals_to_use=[], big_edges_to_use=[list(p) for p in used], deletes=dl,
                   map_vid_to_row=ctx.dict(), metadata=ctx.dict(), term="none")
    # give every mesh edge a symbolic previous tension, to observe the frame condition of the write-back
    t0 = {}
    for eid, e in ctx.list_of(m.edges):
        t0[eid] = ctx.real(f"t0_{eid}")
        ctx.set(e, "tension", t0[eid])
    return m, fr, fm, internal, used, mm, t0, deletes


def edges_of_path(m, path):
    return [m.edge_of[(min(a, b), max(a, b))] for a, b in zip(path, path[1:])]


CONFIGS = [("default", None), ("lsq_linear", "lsq_linear"), ("lsq", "lsq")]


@obligation("O05.3", ["C05", "C10", "C01", "C03"],
            ["forsys.fmatrix:ForceMatrix.solve", "forsys.fmatrix:ForceMatrix.set_velocity_matrix", "forsys.fmatrix:ForceMatrix.add_mean_one",
             "forsys.fmatrix:ForceMatrix.add_mean_one_before", "forsys.fmatrix:ForceMatrix.get_solution_no_discarded",
             "forsys.fmatrix:ForceMatrix.get_new_initial_condition"],
            "solve(): the augmented system of O05.1/O05.2 with the right-hand side rounded to 3 decimals reaches the selected back end "
            "(inversion only if square, nonsingular and acceptable, else the non-negative fallback); result i goes to internal interface i and to "
            "each of its mesh edges; multiplier dropped; nothing else is written; no exception escapes; non-negative when negatives are disallowed",
            tier="Pn")
def o05_3(tier):
    def mk(shape, rows, method, allow_neg, singular):
        def h(ctx):
            m, fr, fm, internal, used, mm, t0, _ = solve_fixture(ctx, shape, 1, rows)
            c = len(used)
            log = []
            if ctx.mode == "sym":
                install_solvers(ctx, log, singular)
            kw = dict(allow_negatives=allow_neg)
            if method:
                kw["method"] = method
            res = ctx.callm(fm, "solve", ctx.dict(), **kw)
            keys = ctx.keys(res)
            ctx.ensure(keys == list(range(len(internal))), "one reported value per internal interface, keyed by position")
            vals = [ctx.item(res, i) for i in range(c)]
            if ctx.mode == "sym":
                ctx.ensure(len(log) >= 1, "a solver back end was invoked")
                kind = log[-1][0]
                A, b = log[-1][1], log[-1][2]
                if method == "lsq_linear":
                    ctx.ensure(kind == "lsq_linear", "lsq_linear selected => scipy lsq_linear decides")
                    ctx.ensure(A.shape == (c + 1, c + 1) and b.shape == (c + 1,), "normal-equation system (c+1)x(c+1)")
                    for i in range(c):
                        for j in range(c):
                            ctx.ensure(A.data[i * (c + 1) + j] == sum(mm[r][i] * mm[r][j] for r in range(rows)), f"A[{i},{j}] = (M^T M)[{i},{j}]")
                    ctx.ensure(ctx.And(*[ctx.close(b.data[i], 0) for i in range(c)]), "static rhs: M^T 0 = 0")
                    ctx.ensure(ctx.close(b.data[c], c), "constraint rhs = number of unknowns")
                else:
                    if method == "lsq":
                        ctx.ensure(kind == "lsq", "lsq selected => lmfit decides")
                        x0 = log[-1][3]
                        ctx.ensure(len(x0) == c + 1, "one start value per unknown plus one for the multiplier")
                    else:
                        square = (rows == c)
                        if kind == "inv":
                            ctx.ensure(square and not singular, "inversion only for a square nonsingular system")
                        else:
                            ctx.ensure(kind == "nnls", "otherwise the non-negative least-squares fallback decides")
                    ctx.ensure(A.shape == (rows + 1, c + 1) and b.shape == (rows + 1,), "augmented system (r+1)x(c+1)")
                    for i in range(rows):
                        for j in range(c):
                            ctx.ensure(A.data[i * (c + 1) + j] == mm[i][j], f"A[{i},{j}] = force-balance coefficient")
                    ctx.ensure(ctx.And(*[ctx.close(A.data[rows * (c + 1) + j], 1) for j in range(c)]), "sum row of ones")
                    ctx.ensure(ctx.And(*[ctx.close(A.data[i * (c + 1) + c], 1) for i in range(rows)] + [ctx.zero(A.data[rows * (c + 1) + c])]), "multiplier column")
                    ctx.ensure(ctx.And(*[ctx.zero(b.data[i]) for i in range(rows)]), "static rhs 0")
                    ctx.ensure(ctx.close(b.data[rows], c), "rhs of the sum row = number of unknowns")
                # the reported values are the first c entries of that back end's result
                prefix = {"inv": "xinv", "nnls": "xnnls", "lsq_linear": "xlsql", "lsq": "xlm"}[kind]
                for i in range(c):
                    ctx.ensure(vals[i] == ctx.symbols[f"{prefix}{i}"], f"value {i} = entry {i} of the solver result (multiplier dropped)")
            if not allow_neg:
                ctx.ensure(ctx.And(*[vals[i] >= 0 for i in range(c)]), "negatives disallowed => no reported tension is negative")
                if ctx.mode == "sym" and log[-1][0] == "inv":
                    ctx.ensure(ctx.symbols[result_symbol(log, "inv", c)] >= 0,
                               "negatives disallowed => an exact solution is accepted only with a non-negative multiplier (the optimum is over non-negative candidates)")
            # write-back and frame condition
            written = {}
            for i, p in enumerate(used):
                for eid in edges_of_path(m, p):
                    written[eid] = vals[i]
            for eid, e in ctx.list_of(m.edges):
                t = ctx.get(e, "tension")
                if eid in written:
                    ctx.ensure(ctx.close(t, written[eid]), f"mesh edge {eid} carries the tension of its interface")
                else:
                    ctx.ensure(ctx.close(t, t0[eid]), f"mesh edge {eid} (external interface) is not written")
            M2 = [ctx.list_of(r) for r in ctx.list_of(ctx.get(fm, "matrix"))]
            ctx.ensure(ctx.And(*[ctx.close(M2[i][j], mm[i][j]) for i in range(rows) for j in range(c)]) and len(M2) == rows, "solve() does not modify the stored matrix")
            ctx.ensure([ctx.list_of(p) for p in ctx.list_of(ctx.get(fm, "big_edges_to_use"))] == used, "solve() does not modify the list of unknowns")
        return h

    def mk_ic(shape, rows):
        def h(ctx):
            # 'lsq' with a user-supplied initial condition of arbitrary NON-NEGATIVE values (zeros allowed): either lmfit is started strictly
            # inside its bounds, or (entries dropped => shape error) the non-negative fallback decides; never a start value on the bound
            m, fr, fm, internal, used, mm, t0, _ = solve_fixture(ctx, shape, 1, rows)
            c = len(used)
            x0 = [ctx.real(f"ic{i}") for i in range(c)]
            for v in x0:
                ctx.assume(v >= 0, "pre")
            log = []
            if ctx.mode != "sym":
                return
            install_solvers(ctx, log)
            res = ctx.callm(fm, "solve", ctx.dict(), method="lsq", allow_negatives=False, initial_condition=list(x0))
            ctx.ensure(ctx.keys(res) == list(range(len(internal))), "one reported value per internal interface")
            kind = log[-1][0]
            ctx.ensure(kind in ("lsq", "nnls"), "lmfit or the non-negative fallback decides")
            for i in range(c):
                ctx.ensure(ctx.item(res, i) == ctx.symbols[result_symbol(log, kind, i)], f"value {i} = entry {i} of that back end's result")
                ctx.ensure(ctx.item(res, i) >= 0, f"value {i} non-negative")
        return h

    out = []
    for name, method in CONFIGS:
        for allow in (True, False):
            out.append((f"tri_star,2x3,{name},allow_negatives={allow}", mk("tri_star", 2, method, allow, False)))
    out.append(("tri_star,2x3,lsq,user-initial-condition", mk_ic("tri_star", 2)))
    out.append(("tri_star,3x3-square,default,allow_negatives=True", mk("tri_star", 3, None, True, False)))
    out.append(("tri_star,3x3-square,default,allow_negatives=False", mk("tri_star", 3, None, False, False)))
    out.append(("tri_star,3x3-singular,default,allow_negatives=True", mk("tri_star", 3, None, True, True)))
    if tier != "quick":
        out.append(("double_y,4x5,default,allow_negatives=False", mk("double_y", 4, None, False, False)))
        out.append(("double_y,5x5-square,default,allow_negatives=False", mk("double_y", 5, None, False, False)))
    return out


@obligation("O05.3f", ["C05", "C10"], ["forsys.fmatrix:ForceMatrix.solve", "forsys.fmatrix:ForceMatrix.fix_one_stress"],
            "solve(method='fix_stress') completes, reports one value per internal interface and leaves the stored matrix unmodified",
            tier="Pn", known={"fix_stress": "KF-C05-fix-stress"})
def o05_3f(tier):
    def mk_fix(shape, rows):
        def h(ctx):
            m, fr, fm, internal, used, mm, t0, _ = solve_fixture(ctx, shape, 1, rows)
            log = []
            if ctx.mode == "sym":
                install_solvers(ctx, log)
            res = ctx.callm(fm, "solve", ctx.dict(), method="fix_stress")
            ctx.ensure(len(ctx.keys(res)) == len(internal), "one reported value per internal interface")
            M2 = [ctx.list_of(r) for r in ctx.list_of(ctx.get(fm, "matrix"))]
            ctx.ensure(len(M2) == rows and all(len(r) == len(used) for r in M2), "solve() does not modify the stored matrix")
        return h
    return [("fix_stress", mk_fix("tri_star", 2))]


@obligation("O16.5", ["C16", "C10", "C05"],
            ["forsys.fmatrix:ForceMatrix.solve", "forsys.fmatrix:ForceMatrix.get_solution_no_discarded", "forsys.fmatrix:ForceMatrix.get_new_initial_condition"],
            "solve() with interfaces excluded by an angle limit: the restricted system (columns = remaining interfaces) reaches the back end; the result has one "
            "entry per internal interface, -1 at the excluded positions and the restricted solution, in order, elsewhere; remaining interfaces' mesh edges carry "
            "their value, excluded ones are reset to 0; no exception escapes (default, lsq and lsq_linear back ends)", tier="Pn")
def o16_5(tier):
    def mk(shape, restrict, method):
        def h(ctx):
            m, fr, fm, internal, used, mm, t0, deletes = solve_fixture(ctx, shape, 1, 2, restrict=restrict)
            c = len(used)
            log = []
            if ctx.mode == "sym":
                install_solvers(ctx, log)
            kw = dict(allow_negatives=False)
            if method:
                kw["method"] = method
            res = ctx.callm(fm, "solve", ctx.dict(), **kw)
            ctx.ensure(ctx.keys(res) == list(range(len(internal))), "one reported value per internal interface")
            if ctx.mode == "sym":
                kind, A = log[-1][0], log[-1][1]
                ctx.ensure(A.shape[1] == c + 1, "the system handed to the back end has one column per remaining interface plus the multiplier")
            rank = 0
            for i, p in enumerate(internal):
                v = ctx.item(res, i)
                if i in restrict:
                    ctx.ensure(ctx.close(v, -1), f"excluded interface {i} reported as -1")
                    for eid in edges_of_path(m, p):
                        ctx.ensure(ctx.zero(ctx.get(m.e[eid], "tension")), f"excluded interface {i}: mesh edge {eid} carries no tension from any solve")
                else:
                    if ctx.mode == "sym":
                        ctx.ensure(v == ctx.symbols[result_symbol(log, kind, rank)], f"interface {i} gets entry {rank} of the restricted solution")
                    ctx.ensure(v >= 0, f"interface {i}: non-negative")
                    for eid in edges_of_path(m, p):
                        ctx.ensure(ctx.close(ctx.get(m.e[eid], "tension"), v), f"interface {i}: mesh edge {eid} carries its value")
                    rank += 1
        return h
    out = []
    for method in (None, "lsq", "lsq_linear"):
        out.append((f"double_y,exclude-middle,{method or 'default'}", mk("double_y", [0], method)))
    out.append(("double_y,exclude-two,lsq", mk("double_y", [1, 3], "lsq")))
    return out


@obligation("O05.4", ["C05", "C03", "C13"], ["forsys.fmatrix:ForceMatrix.solve", "forsys.fmatrix:ForceMatrix.set_velocity_matrix"],
            "velocity mode: the right-hand side that reaches the back end is, row by row, the junction's own velocity component rounded to three decimals "
            "(|rounded - exact| <= 5e-4, A-round), the sum row stays the number of unknowns", tier="Pn")
def o05_4(tier):
    def h(ctx):
        m, fr, fm, internal, used, mm, t0, _ = solve_fixture(ctx, "tri_star", 1, 4)
        J, S = 90, 11
        ctx.set(fm, "map_vid_to_row", ctx.dict([(S, 2), (J, 0)]))
        ctx.set(fr, "frame_id", 1)
        vel = {J: (ctx.real("vJx"), ctx.real("vJy")), S: (ctx.real("vSx"), ctx.real("vSy"))}
        np_ = ctx.module("numpy") if ctx.mode != "sym" else None

        def cv(it, a, kw):
            if np_ is not None:
                return np_.array(vel[a[1]])
            from fvc import npmodel
            return npmodel.NDArr(list(vel[a[1]]), (2,))
        ctx.stub("forsys.time_series:TimeSeries.calculate_velocity", cv, "callee contract proved as O13.2")
        log = []
        if ctx.mode != "sym":
            return
        install_solvers(ctx, log)
        TS = cls(ctx, "forsys.time_series", "TimeSeries")
        res = ctx.callm(fm, "solve", ctx.alloc(TS), b_matrix="velocity", allow_negatives=False)
        b = log[-1][2]
        from fvc import sym
        want = [vel[J][0], vel[J][1], vel[S][0], vel[S][1]]
        for i in range(4):
            ctx.ensure(ctx.close(b.data[i], sym.py_round(want[i], 3)), f"row {i}: that junction's velocity component, rounded to 3 decimals")
            ctx.ensure(ctx.And(b.data[i] - want[i] <= 0.0005, want[i] - b.data[i] <= 0.0005), f"row {i}: within 5e-4 of the exact value")
        ctx.ensure(ctx.close(b.data[4], len(used)), "sum row: number of unknowns")
    return [("tri_star,two-junctions", h)]
