"""C13 (and C03, C06) - velocities: TimeSeries.calculate_velocity / get_point_id_by_map (time_series.py),
ForceMatrix.set_velocity_matrix (fmatrix.py), ForSys.get_system_velocity_per_frame (forsys.py)."""
from fvc.registry import obligation
from .common import cls, mk_vertices

TS = "forsys.time_series:TimeSeries."
UNITS = [TS + "calculate_velocity", TS + "get_point_id_by_map", "forsys.fmatrix:ForceMatrix.set_velocity_matrix",
         "forsys.forsys:ForSys.get_system_velocity_per_frame"]


def mk_series(ctx, nframes, ids, mapped=True, broken_at=None, missing_at=None):
    """a series of `nframes` frames holding one tracked vertex whose id in frame k is ids[k]; symbolic positions and
    strictly increasing symbolic time stamps; mapping[k] = {ids[k]: ids[k+1]} (+ an unrelated pair)"""
    V = cls(ctx, "forsys.vertex", "Vertex")
    F = cls(ctx, "forsys.frames", "Frame")
    T = cls(ctx, "forsys.time_series", "TimeSeries")
    frames, pos, times = ctx.dict(), [], []
    for k in range(nframes):
        x, y, t = ctx.real(f"x{k}"), ctx.real(f"y{k}"), ctx.real(f"t{k}")
        pos.append((x, y))
        times.append(t)
        if k:
            ctx.assume(times[k] > times[k - 1], "pre")
        other = ctx.call(V, 1000 + k, x + 1, y - 2)
        vd = ctx.dict([(ids[k], ctx.call(V, ids[k], x, y)), (1000 + k, other)])
        fr = ctx.alloc(F, frame_id=k, vertices=vd, time=t)
        if ctx.mode == "sym":
            ctx.it.dict_set(frames, k, fr)
        else:
            frames[k] = fr
    mapping = ctx.dict()
    for k in range(nframes - 1):
        if broken_at == k:
            m = None
        else:
            tgt = None if missing_at == k else ids[k + 1]
            m = ctx.dict([(1000 + k, 1000 + k + 1), (ids[k], tgt)])
        if ctx.mode == "sym":
            ctx.it.dict_set(mapping, k, m)
        else:
            mapping[k] = m
    ts = ctx.alloc(T, time_series=frames, mapping=mapping)
    return ts, pos, times


@obligation("O13.1", ["C13", "C12", "C03"], UNITS[1:2],
            "get_point_id_by_map composes the per-step maps forwards, the inverted maps backwards, and stops at an untracked vertex")
def o13_1(tier):
    def mk(n, t0, t1, missing_at=None):
        def h(ctx):
            ids = [7, 3, 11, 5, 2][:n]
            ts, pos, times = mk_series(ctx, n, ids, missing_at=missing_at)
            r = ctx.callm(ts, "get_point_id_by_map", ids[t0], t0, t1)
            if missing_at is not None and t0 <= missing_at < t1:
                ctx.ensure(ctx.none_is(r), "untracked from the missing step on: None")
            else:
                ctx.ensure(ctx.eq(r, ids[t1]), "id of the same physical vertex at the target frame")
        return h
    out = []
    for n, t0, t1 in [(2, 0, 1), (2, 1, 0), (4, 0, 3), (4, 3, 0), (4, 1, 2), (4, 2, 1), (3, 1, 1), (5, 4, 1)]:
        out.append((f"frames={n},{t0}->{t1}", mk(n, t0, t1)))
    out.append(("frames=4,0->3,lost-at-1", mk(4, 0, 3, missing_at=1)))

    def mk_sym(n, t0, t1):
        def h(ctx):
            # arbitrary non-negative vertex numbers (0 included), different in every frame
            ids = [ctx.int(f"id{k}") for k in range(n)]
            for k in range(n):
                ctx.assume(ctx.And(ids[k] >= 0, ids[k] < 1000), "pre")
            ts, pos, times = mk_series(ctx, n, ids)
            r = ctx.callm(ts, "get_point_id_by_map", ids[t0], t0, t1)
            ctx.ensure(ctx.Not(ctx.none_is(r)) and ctx.eq(r, ids[t1]), "id of the same physical vertex at the target frame, whatever the numbering")
        return h
    out += [("frames=3,0->2,symbolic-ids", mk_sym(3, 0, 2)), ("frames=3,2->0,symbolic-ids", mk_sym(3, 2, 0))]

    def mk_history(queries):
        def h(ctx):
            # the answer is a function of the arguments, not of the queries made before on the same object
            ids = [7, 3, 11, 5]
            ts, pos, times = mk_series(ctx, 4, ids)
            for t0, t1 in queries:
                r = ctx.callm(ts, "get_point_id_by_map", ids[t0], t0, t1)
                ctx.ensure(ctx.eq(r, ids[t1]), f"query {t0}->{t1} after {queries.index((t0, t1))} earlier queries on the same series")
        return h
    out += [("same-object,forward-then-backward", mk_history([(0, 3), (3, 0), (1, 2), (2, 1)])),
            ("same-object,backward-then-forward", mk_history([(3, 1), (1, 3), (2, 3), (0, 1)]))]
    return out


@obligation("O13.2", ["C13", "C03", "C06"], UNITS[0:2],
            "calculate_velocity: forward difference to the tracked successor over the real elapsed time; backward at the last frame; zero without partner; DifferentTissueException for an unmapped step")
def o13_2(tier):
    def mk(n, t):
        def h(ctx):
            ids = [7, 3, 11, 5, 2][:n]
            ts, pos, times = mk_series(ctx, n, ids)
            v = ctx.list_of(ctx.callm(ts, "calculate_velocity", ids[t], t))
            o = t - 1 if t == n - 1 else t + 1
            dt = times[o] - times[t]
            ctx.ensure(ctx.close(v[0] * dt, pos[o][0] - pos[t][0]), "vx = (x_partner - x) / (t_partner - t)")
            ctx.ensure(ctx.close(v[1] * dt, pos[o][1] - pos[t][1]), "vy = (y_partner - y) / (t_partner - t)")
        return h

    def mk_missing(n, t):
        def h(ctx):
            ids = [7, 3, 11, 5, 2][:n]
            ts, pos, times = mk_series(ctx, n, ids, missing_at=t)
            v = ctx.list_of(ctx.callm(ts, "calculate_velocity", ids[t], t))
            ctx.ensure(ctx.And(ctx.zero(v[0]), ctx.zero(v[1])), "no tracked partner: velocity zero")
        return h

    def mk_broken(n, t):
        def h(ctx):
            ids = [7, 3, 11, 5, 2][:n]
            step = t - 1 if t == n - 1 else t
            ts, pos, times = mk_series(ctx, n, ids, broken_at=step)
            exc = ctx.raises(lambda: ctx.callm(ts, "calculate_velocity", ids[t], t))
            ctx.ensure(exc is not None and type(exc).__name__ == "DifferentTissueException", "unmapped step raises DifferentTissueException")
        return h
    out = [(f"frames={n},t={t}", mk(n, t)) for n, t in [(2, 0), (2, 1), (3, 1), (3, 2), (5, 0), (5, 3), (5, 4)]]
    out += [("frames=3,t=1,no-partner", mk_missing(3, 1)), ("frames=3,t=0,unmapped", mk_broken(3, 0)), ("frames=3,t=2,unmapped", mk_broken(3, 2))]
    return out


def mk_fmatrix(ctx, rows, cols, vid_rows, frame_id=1, metadata=None):
    """a ForceMatrix whose constructor did not run: only the fields set_velocity_matrix reads (metadata: the options dict
    every ForceMatrix carries; ForSys.build_force_matrix hands the SAME default dict to every matrix it builds)"""
    FM = cls(ctx, "forsys.fmatrix", "ForceMatrix")
    F = cls(ctx, "forsys.frames", "Frame")
    np_ = ctx.module("numpy") if ctx.mode != "sym" else None
    if ctx.mode == "sym":
        from fvc import npmodel
        mat = npmodel.zeros((rows, cols))
    else:
        mat = np_.zeros((rows, cols))
    fr = ctx.alloc(F, frame_id=frame_id)
    return ctx.alloc(FM, matrix=mat, map_vid_to_row=ctx.dict(vid_rows), frame=fr, metadata=ctx.dict() if metadata is None else metadata)


@obligation("O13.3", ["C13", "C03", "C06"], UNITS[2:3],
            "set_velocity_matrix: each used junction's velocity goes to its own two rows; all other rows 0; static mode gives b=0; adimensional mode divides by the mean junction speed, times velocity_normalization; second result is that mean")
def o13_3(tier):
    def velocities(ctx, vids):
        vel = {vid: (ctx.real(f"vx{vid}"), ctx.real(f"vy{vid}")) for vid in vids}
        np_ = ctx.module("numpy") if ctx.mode != "sym" else None

        def cv(it, a, k):
            vid = a[1] if len(a) > 2 else a[0]
            if np_ is not None:
                return np_.array(vel[vid])
            from fvc import npmodel
            return npmodel.NDArr(list(vel[vid]), (2,))
        ctx.stub("forsys.time_series:TimeSeries.calculate_velocity", cv, "callee contract proved as O13.2")
        if ctx.mode != "sym":
            ctx.apply_stubs = True
            ctx.stub("forsys.time_series:TimeSeries.calculate_velocity", cv)
        return vel

    def mk(layout, adim, mode):
        # layout: list of (vid,row); rows total = 2*len + 2 spare rows
        def h(ctx):
            vids = [v for v, _ in layout]
            rows = 2 * len(layout) + 2
            vel = velocities(ctx, vids)
            fm = mk_fmatrix(ctx, rows, 3, layout)
            T = cls(ctx, "forsys.time_series", "TimeSeries")
            ts = ctx.alloc(T)
            vn = ctx.real("vn")
            kw = dict(b_matrix=mode, adimensional_velocity=adim, velocity_normalization=vn)
            speeds = [ctx.sqrt(vel[v][0] * vel[v][0] + vel[v][1] * vel[v][1]) for v in vids]
            mean = sum(speeds[1:], speeds[0]) / len(speeds)
            if adim and mode == "velocity":
                ctx.assume(ctx.Not(ctx.And(*[ctx.And(ctx.zero(vel[v][0]), ctx.zero(vel[v][1])) for v in vids])), "pre")
            b, avg = ctx.list_of(ctx.callm(fm, "set_velocity_matrix", ts, **kw))
            b = ctx.list_of(b)
            b = [ctx.list_of(r)[0] for r in b]
            ctx.ensure(len(b) == rows, "one right-hand side per row")
            if mode != "velocity":
                ctx.ensure(ctx.And(*[ctx.zero(x) for x in b]), "static mode: all zero")
                ctx.ensure(ctx.eq(avg, 1), "static mode: average 1")
                return
            used = {}
            for vid, row in layout:
                used[row], used[row + 1] = vel[vid][0], vel[vid][1]
            scale = mean if adim else 1
            for r in range(rows):
                if r in used:
                    ctx.ensure(ctx.close(b[r] * scale, used[r] * vn), f"row {r}: that junction's own velocity component")
                else:
                    ctx.ensure(ctx.zero(b[r]), f"row {r}: no junction => 0")
            ctx.ensure(ctx.close(avg, scale), "second result = mean junction speed (1 if not adimensional)")
        return h
    out = []
    for name, layout in [("one", [(5, 0)]), ("two-rows-swapped", [(9, 2), (4, 0)]), ("three", [(3, 4), (8, 0), (1, 2)])]:
        for adim in (False, True):
            out.append((f"{name},adim={adim}", mk(layout, adim, "velocity")))
    out.append(("static", mk([(9, 2), (4, 0)], True, None)))

    def h_history(ctx):
        # two matrices of frames with the same id (two analyses in one session) sharing the options dict, as build_force_matrix's
        # default argument makes them: the second right-hand side is a function of ITS velocities only
        layout = [(9, 2), (4, 0)]
        shared = ctx.dict()
        T = cls(ctx, "forsys.time_series", "TimeSeries")
        res = []
        for run in (0, 1):
            vel = {vid: (ctx.real(f"r{run}vx{vid}"), ctx.real(f"r{run}vy{vid}")) for vid, _ in layout}
            np_ = ctx.module("numpy") if ctx.mode != "sym" else None

            def cv(it, a, k, vel=vel):
                vid = a[1] if len(a) > 2 else a[0]
                if np_ is not None:
                    return np_.array(vel[vid])
                from fvc import npmodel
                return npmodel.NDArr(list(vel[vid]), (2,))
            ctx.stub("forsys.time_series:TimeSeries.calculate_velocity", cv, "callee contract proved as O13.2")
            if ctx.mode != "sym":
                ctx.apply_stubs = True
                ctx.stub("forsys.time_series:TimeSeries.calculate_velocity", cv)
            ctx.assume(ctx.Not(ctx.And(*[ctx.And(ctx.zero(v[0]), ctx.zero(v[1])) for v in vel.values()])), "pre")
            fm = mk_fmatrix(ctx, 6, 3, layout, metadata=shared)
            b, avg = ctx.list_of(ctx.callm(fm, "set_velocity_matrix", ctx.alloc(T), b_matrix="velocity", adimensional_velocity=True))
            speeds = [ctx.sqrt(v[0] * v[0] + v[1] * v[1]) for v in vel.values()]
            ctx.ensure(ctx.close(avg, (speeds[0] + speeds[1]) / 2), f"analysis {run + 1}: normalised by the mean junction speed of ITS OWN velocities")
    out.append(("two-analyses-sharing-the-options-dict", h_history))
    return out
