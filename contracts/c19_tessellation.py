"""C19 - tessellation glue (tessellation.py): line_eq, vertex / edge interning, area sign.  The Voronoi diagram itself
(scipy.spatial.Voronoi / Qhull) is an assumed dependency (A-voronoi); the comparison against it is the bounded stand-in B19."""
from fvc.registry import obligation
from .common import shoelace

T = "forsys.tessellation"


@obligation("O19.1", ["C19"], [T + ":line_eq"],
            "line_eq evaluated at the two (rounded) end abscissae of a ridge returns the two (rounded) end ordinates - for every ridge, vertical ones "
            "included, without raising", tier="P")
def o19_1(tier):
    def mk(vertical):
        def h(ctx):
            te = ctx.module(T)
            x0, y0, x1, y1 = ctx.real("x0"), ctx.real("y0"), ctx.real("x1"), ctx.real("y1")
            if ctx.mode == "sym":
                from fvc import sym, npmodel
                r = lambda v: sym.py_round(v, 3)
                X = npmodel.NDArr([r(x0), r(x1)], (2,))
                P0, P1 = npmodel.NDArr([x0, y0], (2,)), npmodel.NDArr([x1, y1], (2,))
            else:
                np_ = ctx.module("numpy")
                r = lambda v: float(np_.around(v, 3))
                X = np_.array([r(x0), r(x1)])
                P0, P1 = np_.array([x0, y0]), np_.array([x1, y1])
            same = ctx.close(r(x0), r(x1))
            ctx.assume(same if vertical else ctx.Not(same), "pre:class")
            out = ctx.list_of(ctx.call(ctx.get(te, "line_eq"), P0, P1, X))
            ctx.ensure(len(out) == 2, "two ordinates")
            ctx.ensure(ctx.close(out[0], r(y0)), "at the first end: its (rounded) ordinate")
            ctx.ensure(ctx.close(out[1], r(y1)), "at the second end: its (rounded) ordinate")
        return h
    return [("oblique-or-horizontal", mk(False)), ("vertical", mk(True))]


@obligation("O19.2", ["C19"], [T + ":get_vertex_number", T + ":get_enum"],
            "interning: an already known point / vertex pair gets its existing id (negated for the reversed pair), a new one gets max+1 (1 if empty) and is stored; "
            "ids stay unique per point", tier="Pn")
def o19_2(tier):
    def h_vertex(n, hit):
        def h(ctx):
            te = ctx.module(T)
            pts = [(ctx.real(f"x{i}"), ctx.real(f"y{i}")) for i in range(n)]
            for a in range(n):
                for b in range(a + 1, n):
                    ctx.assume(ctx.Or(ctx.Not(ctx.close(pts[a][0], pts[b][0])), ctx.Not(ctx.close(pts[a][1], pts[b][1]))), "pre: stored points pairwise different")
            keys = [3, 7, 4, 9][:n]
            d = ctx.dict(list(zip(keys, pts)))
            if hit is None:
                q = (ctx.real("qx"), ctx.real("qy"))
                for p in pts:
                    ctx.assume(ctx.Or(ctx.Not(ctx.close(p[0], q[0])), ctx.Not(ctx.close(p[1], q[1]))), "pre: new point")
            else:
                q = pts[hit]
            r = ctx.call(ctx.get(te, "get_vertex_number"), q, d)
            if hit is None:
                want = (max(keys) + 1) if keys else 1
                ctx.ensure(r == want, "new point: max key + 1 (1 for the first)")
                ctx.ensure(ctx.keys(d) == keys + [want], "and stored under that key")
            else:
                ctx.ensure(r == keys[hit], "known point: its existing key")
                ctx.ensure(ctx.keys(d) == keys, "dictionary unchanged")
        return h

    def h_enum(case):
        def h(ctx):
            te = ctx.module(T)
            d = ctx.dict([(2, [5, 6]), (8, [6, 9]), (3, [9, 5])])
            q = {"known": [6, 9], "reversed": [9, 6], "new": [5, 7]}[case]
            r = ctx.call(ctx.get(te, "get_enum"), q, d)
            ctx.ensure(r == {"known": 8, "reversed": -8, "new": 9}[case], f"{case} pair")
            ctx.ensure(len(ctx.keys(d)) == (4 if case == "new" else 3), "stored only when new")
        return h
    out = [(f"vertex,n={n},{'new' if hit is None else 'known#%d' % hit}", h_vertex(n, hit)) for n, hit in ((0, None), (2, None), (3, 1), (4, 3), (4, None))]
    out += [(f"edge,{c}", h_enum(c)) for c in ("known", "reversed", "new")]
    return out


@obligation("O19.4", ["C19", "C20"], [T + ":get_cell_area", T + ":get_cell_area_sign"],
            "get_cell_area is the shoelace area of the listed vertices; a repeated consecutive vertex does not change it; get_cell_area_sign its sign", tier="Pn")
def o19_4(tier):
    def mk(n):
        def h(ctx):
            te = ctx.module(T)
            xs, ys = ctx.reals("x", n), ctx.reals("y", n)
            d = ctx.dict([(10 + i, (xs[i], ys[i])) for i in range(n)])
            ids = [10 + i for i in range(n)]
            a = ctx.call(ctx.get(te, "get_cell_area"), ids, d)
            ctx.ensure(ctx.close(a, shoelace(xs, ys)), "shoelace area")
            doubled = [v for i in ids for v in (i, i)]
            ctx.ensure(ctx.close(ctx.call(ctx.get(te, "get_cell_area"), doubled, d), a), "every vertex listed twice in a row (as create_lattice_elements does): same area")
            s = ctx.call(ctx.get(te, "get_cell_area_sign"), ids, d)
            ctx.ensure(ctx.Or(ctx.And(a > 0, s == 1), ctx.And(a < 0, s == -1), ctx.And(ctx.zero(a), s == 0)), "sign")
        return h
    return [(f"n={n}", mk(n)) for n in (3, 4, 6)]


@obligation("O19.6", ["C19"], [T + ":remove_infinite_regions", T + ":distance_matrix"],
            "remove_infinite_regions drops exactly the bounded regions whose diameter (largest corner-to-corner distance over ALL corners) exceeds the "
            "cut-off; unbounded (-1) and empty regions are left for the caller to skip", tier="Pn")
def o19_6(tier):
    def mk(n):
        def h(ctx):
            te = ctx.module(T)
            pts = [(ctx.real(f"x{i}"), ctx.real(f"y{i}")) for i in range(n)]
            for a in range(n):
                for b in range(a + 1, n):
                    ctx.assume(ctx.Or(ctx.Not(ctx.close(pts[a][0], pts[b][0])), ctx.Not(ctx.close(pts[a][1], pts[b][1]))), "pre: corners pairwise different")
            far = (ctx.real("fx"), ctx.real("fy"))
            md = ctx.real("max_distance")
            ctx.assume(md > 0, "pre")

            class Tess:
                pass
            if ctx.mode == "sym":
                from fvc import npmodel

                class TS:
                    def fvc_getattr(self, it, name):
                        return npmodel.asarray([list(p) for p in pts] + [list(far)])
                tess = TS()
            else:
                tess = Tess()
                tess.vertices = ctx.module("numpy").array([list(p) for p in pts] + [list(far)])
            region = list(range(n))
            regions = [[], [0, -1, 1], list(region)]
            out = ctx.list_of(ctx.call(ctx.get(te, "remove_infinite_regions"), tess, regions, max_distance=md))
            out = [ctx.list_of(r) for r in out]
            d2 = [(pts[a][0] - pts[b][0]) * (pts[a][0] - pts[b][0]) + (pts[a][1] - pts[b][1]) * (pts[a][1] - pts[b][1]) for a in range(n) for b in range(a + 1, n)]
            too_big = ctx.Or(*[d > md * md for d in d2])
            kept = region in out
            ctx.ensure(ctx.Not(too_big) if kept else too_big, "bounded region kept iff no two of its corners are farther apart than the cut-off")
            ctx.ensure([] in out and [0, -1, 1] in out, "empty and unbounded regions are not touched here")
        return h
    return [(f"corners={n}", mk(n)) for n in ((3,) if tier == "quick" else (3, 4))]


@obligation("O19.7", ["C19", "C10"], [T + ":create_lattice_elements", T + ":remove_infinite_regions", T + ":create_lattice", T + ":get_vertex_number", T + ":get_enum"],
            "create_lattice_elements + create_lattice on a given diagram (A-voronoi: the Voronoi object is what scipy returns) - a 2x2 arrangement of "
            "rectangular regions with symbolic (rounded) spacing, stored in mixed senses and from different starting corners, plus an empty, an unbounded "
            "and an oversized bounded region: one cell per bounded region below the cut-off with the region's corners as its cycle, shared corners and "
            "ridges interned once, all cells in one rotational sense, consistent mesh; a later call with a larger cut-off sees the oversized region", tier="Pn")
def o19_7(tier):
    def mk(symbolic):
        return lambda ctx: h(ctx, symbolic)

    def h(ctx, symbolic):
        te = ctx.module(T)
        from fvc import sym as _sym
        r3 = (lambda v: _sym.py_round(v, 3)) if ctx.mode == "sym" else (lambda v: round(v, 3))
        if symbolic:
            X = [r3(ctx.real(f"rx{i}")) for i in range(3)]
            Y = [r3(ctx.real(f"ry{i}")) for i in range(3)]
            for seq in (X, Y):
                ctx.assume(ctx.And(seq[1] > seq[0] + 2, seq[2] > seq[1] + 2, seq[1] < seq[0] + 3, seq[2] < seq[1] + 3),
                           "pre: rectangular arrangement with spacings between 2 and 3: every small region has a diameter below 4.25, the outer one above 5.6")
        else:
            ox, oy = ctx.real("ox"), ctx.real("oy")          # keeps the instance non-trivial for the sampler; the diagram itself is concrete
            X, Y = [100.0, 102.5, 104.75], [-3.25, -1.0, 1.5]
        corner = lambda rr, cc: rr * 3 + cc
        V = [[X[cc], Y[rr]] for rr in range(3) for cc in range(3)]
        small = {(0, 0): [corner(0, 0), corner(0, 1), corner(1, 1), corner(1, 0)],            # counter-clockwise from its lower left corner
                 (0, 1): [corner(1, 2), corner(0, 2), corner(0, 1), corner(1, 1)],            # clockwise, other start
                 (1, 0): [corner(2, 1), corner(2, 0), corner(1, 0), corner(1, 1)],            # counter-clockwise, other start
                 (1, 1): [corner(1, 1), corner(2, 1), corner(2, 2), corner(1, 2)]}            # clockwise
        outer = [corner(0, 0), corner(0, 2), corner(2, 2), corner(2, 0)]
        V.append([X[2] + 50, Y[2] + 50])                     # a far corner, listed LAST in its region: only it makes the region oversized
        spike = [corner(2, 1), corner(2, 2), 9]
        V.append([X[2] + 0.001, Y[2]])                      # a corner one rounding step away from corner(2,2), at coordinates >= 100: a distinct vertex
        sliver = [corner(1, 2), corner(2, 2), 10]                # thin but not degenerate
        # two oversized regions in a row (outer, spike): both must go at the small cut-off
        regions = [[], list(small[(0, 0)]), [0, -1, 1], list(small[(0, 1)]), list(outer), list(spike), list(small[(1, 0)]), list(small[(1, 1)]), list(sliver)]
        if ctx.mode == "sym":
            from fvc import npmodel

            class Tess:
                def fvc_getattr(self, it, name):
                    if name == "vertices":
                        return npmodel.asarray([list(p) for p in V])
                    if name == "regions":
                        return [list(r) for r in regions]
                    raise AttributeError(name)
            mk_tess = lambda it, a, k: Tess()
        else:
            np_ = ctx.module("numpy")

            class TessN:
                pass

            def mk_tess(it, a, k):
                t = TessN()
                t.vertices, t.regions = np_.array([list(p) for p in V], dtype=float), [list(r) for r in regions]
                return t
        ctx.stub("scipy.spatial.Voronoi", mk_tess, "A-voronoi: the diagram of the centres (vertices, regions) is what scipy.spatial.Voronoi returns")
        from .common import stub_center
        stub_center(ctx)
        if ctx.mode != "sym":
            ctx.apply_stubs = True
            ctx.stub("scipy.spatial.Voronoi", mk_tess)
        centres = [(0.0, 0.0), (1.0, 0.0), (0.0, 1.0), (1.0, 1.0)]

        def run(md, want_regions, label):
            nv, ne, nc = ctx.list_of(ctx.call(ctx.get(te, "create_lattice_elements"), centres, max_distance=md))
            verts = dict(ctx.list_of(nv))
            edges = {k: ctx.list_of(v) for k, v in ctx.list_of(ne)}
            cells = {k: ctx.list_of(v) for k, v in ctx.list_of(nc)}
            ctx.ensure(len(cells) == len(want_regions), f"{label}: one cell per bounded region below the cut-off ({len(want_regions)})")
            ctx.ensure(len({abs(k) for k in cells}) == len(cells), f"{label}: cell numbers are distinct")
            used = sorted({i for reg in want_regions for i in reg})
            ctx.ensure(len(verts) == len(used), f"{label}: every corner interned exactly once ({len(used)} vertices)")
            pos = {vid: ctx.list_of(p) for vid, p in verts.items()}
            def vid_of(i):
                hit = [vid for vid, p in pos.items() if ctx.it.truth(ctx.And(ctx.eq(p[0], V[i][0]), ctx.eq(p[1], V[i][1])))] if ctx.mode == "sym" else \
                      [vid for vid, p in pos.items() if ctx.close(p[0], V[i][0]) and ctx.close(p[1], V[i][1])]
                return hit[0] if len(hit) == 1 else None
            ids = {i: vid_of(i) for i in used}
            ctx.ensure(all(v is not None for v in ids.values()), f"{label}: each used corner is a vertex at its rounded position")
            seen_pairs = {}
            for (cnum, reg) in zip(sorted(cells, key=abs), want_regions):
                walk = []
                for e in cells[cnum]:
                    a, b = edges[abs(e)]
                    walk.append((a, b) if e > 0 else (b, a))
                    seen_pairs.setdefault(frozenset((a, b)), []).append(e)
                want = [(ids[reg[i]], ids[reg[(i + 1) % len(reg)]]) for i in range(len(reg))]
                ctx.ensure(walk == want, f"{label}: cell {abs(cnum)} walks its region's corners in the region's order, ridge by ridge")
            ctx.ensure(len(edges) == len(seen_pairs) and all(len(v) <= 2 for v in seen_pairs.values()), f"{label}: every ridge interned once and used by at most two cells")
            vs, es, cs = ctx.list_of(ctx.call(ctx.get(te, "create_lattice"), nv, ne, nc))
            signs = [ctx.callm(c, "get_area_sign") for _, c in ctx.list_of(cs)]
            if not signs:
                ctx.ensure(False, f"{label}: the lattice has cells")
                return
            ctx.ensure(ctx.And(*[ctx.eq(sg, signs[0]) for sg in signs] + [ctx.Not(ctx.eq(signs[0], 0))]), f"{label}: all cells stored in the same rotational sense")
            for cid, c in ctx.list_of(cs):
                cyc = [ctx.get(w, "id") for w in ctx.list_of(ctx.get(c, "vertices"))]
                ctx.ensure(len(cyc) in (3, 4) and len(set(cyc)) == len(cyc), f"{label}: cell {cid} has its corners, none repeated")
        four = [small[(0, 0)], small[(0, 1)], small[(1, 0)], small[(1, 1)], sliver]
        run(4.3, four, "cut-off 4.3")
        run(100.0, [small[(0, 0)], small[(0, 1)], outer, spike, small[(1, 0)], small[(1, 1)], sliver], "cut-off 100 afterwards")
        run(4.3, four, "cut-off 4.3 again")
    return [("2x2-rectangles+empty+unbounded+oversized,concrete-spacing", mk(False))]
