"""C19 - tessellation glue (tessellation.py): line_eq, vertex / edge interning, area sign.  The Voronoi diagram itself
(scipy.spatial.Voronoi / Qhull) is an assumed dependency (A-voronoi); the comparison against it is the bounded stand-in B19."""
from fvc.registry import obligation
from .common import shoelace

T = "forsys.tessellation"


@obligation("O19.1", ["C19"], [T + ":line_eq"],
            "line_eq evaluated at the two (rounded) end abscissae of a ridge returns the two (rounded) end ordinates - for every ridge, vertical ones "
            "included, without raising", tier="P")
def o19_1(tier):
    def mk(vertical):
        def h(ctx):
            te = ctx.module(T)
            x0, y0, x1, y1 = ctx.real("x0"), ctx.real("y0"), ctx.real("x1"), ctx.real("y1")
            if ctx.mode == "sym":
                from fvc import sym, npmodel
                r = lambda v: sym.py_round(v, 3)
                X = npmodel.NDArr([r(x0), r(x1)], (2,))
                P0, P1 = npmodel.NDArr([x0, y0], (2,)), npmodel.NDArr([x1, y1], (2,))
            else:
                np_ = ctx.module("numpy")
                r = lambda v: float(np_.around(v, 3))
                X = np_.array([r(x0), r(x1)])
                P0, P1 = np_.array([x0, y0]), np_.array([x1, y1])
            same = ctx.close(r(x0), r(x1))
            ctx.assume(same if vertical else ctx.Not(same), "pre:class")
            out = ctx.list_of(ctx.call(ctx.get(te, "line_eq"), P0, P1, X))
            ctx.ensure(len(out) == 2, "two ordinates")
            ctx.ensure(ctx.close(out[0], r(y0)), "at the first end: its (rounded) ordinate")
            ctx.ensure(ctx.close(out[1], r(y1)), "at the second end: its (rounded) ordinate")
        return h
    return [("oblique-or-horizontal", mk(False)), ("vertical", mk(True))]


@obligation("O19.2", ["C19"], [T + ":get_vertex_number", T + ":get_enum"],
            "interning: an already known point / vertex pair gets its existing id (negated for the reversed pair), a new one gets max+1 (1 if empty) and is stored; "
            "ids stay unique per point", tier="Pn")
def o19_2(tier):
    def h_vertex(n, hit):
        def h(ctx):
            te = ctx.module(T)
            pts = [(ctx.real(f"x{i}"), ctx.real(f"y{i}")) for i in range(n)]
            for a in range(n):
                for b in range(a + 1, n):
                    ctx.assume(ctx.Or(ctx.Not(ctx.close(pts[a][0], pts[b][0])), ctx.Not(ctx.close(pts[a][1], pts[b][1]))), "pre: stored points pairwise different")
            keys = [3, 7, 4, 9][:n]
            d = ctx.dict(list(zip(keys, pts)))
            if hit is None:
                q = (ctx.real("qx"), ctx.real("qy"))
                for p in pts:
                    ctx.assume(ctx.Or(ctx.Not(ctx.close(p[0], q[0])), ctx.Not(ctx.close(p[1], q[1]))), "pre: new point")
            else:
                q = pts[hit]
            r = ctx.call(ctx.get(te, "get_vertex_number"), q, d)
            if hit is None:
                want = (max(keys) + 1) if keys else 1
                ctx.ensure(r == want, "new point: max key + 1 (1 for the first)")
                ctx.ensure(ctx.keys(d) == keys + [want], "and stored under that key")
            else:
                ctx.ensure(r == keys[hit], "known point: its existing key")
                ctx.ensure(ctx.keys(d) == keys, "dictionary unchanged")
        return h

    def h_enum(case):
        def h(ctx):
            te = ctx.module(T)
            d = ctx.dict([(2, [5, 6]), (8, [6, 9]), (3, [9, 5])])
            q = {"known": [6, 9], "reversed": [9, 6], "new": [5, 7]}[case]
            r = ctx.call(ctx.get(te, "get_enum"), q, d)
            ctx.ensure(r == {"known": 8, "reversed": -8, "new": 9}[case], f"{case} pair")
            ctx.ensure(len(ctx.keys(d)) == (4 if case == "new" else 3), "stored only when new")
        return h
    out = [(f"vertex,n={n},{'new' if hit is None else 'known#%d' % hit}", h_vertex(n, hit)) for n, hit in ((0, None), (2, None), (3, 1), (4, 3), (4, None))]
    out += [(f"edge,{c}", h_enum(c)) for c in ("known", "reversed", "new")]
    return out


@obligation("O19.4", ["C19", "C20"], [T + ":get_cell_area", T + ":get_cell_area_sign"],
            "get_cell_area is the shoelace area of the listed vertices; a repeated consecutive vertex does not change it; get_cell_area_sign its sign", tier="Pn")
def o19_4(tier):
    def mk(n):
        def h(ctx):
            te = ctx.module(T)
            xs, ys = ctx.reals("x", n), ctx.reals("y", n)
            d = ctx.dict([(10 + i, (xs[i], ys[i])) for i in range(n)])
            ids = [10 + i for i in range(n)]
            a = ctx.call(ctx.get(te, "get_cell_area"), ids, d)
            ctx.ensure(ctx.close(a, shoelace(xs, ys)), "shoelace area")
            doubled = [v for i in ids for v in (i, i)]
            ctx.ensure(ctx.close(ctx.call(ctx.get(te, "get_cell_area"), doubled, d), a), "every vertex listed twice in a row (as create_lattice_elements does): same area")
            s = ctx.call(ctx.get(te, "get_cell_area_sign"), ids, d)
            ctx.ensure(ctx.Or(ctx.And(a > 0, s == 1), ctx.And(a < 0, s == -1), ctx.And(ctx.zero(a), s == 0)), "sign")
        return h
    return [(f"n={n}", mk(n)) for n in (3, 4, 6)]


@obligation("O19.6", ["C19"], [T + ":remove_infinite_regions", T + ":distance_matrix"],
            "remove_infinite_regions drops exactly the bounded regions whose diameter (largest corner-to-corner distance over ALL corners) exceeds the "
            "cut-off; unbounded (-1) and empty regions are left for the caller to skip", tier="Pn")
def o19_6(tier):
    def mk(n):
        def h(ctx):
            te = ctx.module(T)
            pts = [(ctx.real(f"x{i}"), ctx.real(f"y{i}")) for i in range(n)]
            for a in range(n):
                for b in range(a + 1, n):
                    ctx.assume(ctx.Or(ctx.Not(ctx.close(pts[a][0], pts[b][0])), ctx.Not(ctx.close(pts[a][1], pts[b][1]))), "pre: corners pairwise different")
            far = (ctx.real("fx"), ctx.real("fy"))
            md = ctx.real("max_distance")
            ctx.assume(md > 0, "pre")

            class Tess:
                pass
            if ctx.mode == "sym":
                from fvc import npmodel

                class TS:
                    def fvc_getattr(self, it, name):
                        return npmodel.asarray([list(p) for p in pts] + [list(far)])
                tess = TS()
            else:
                tess = Tess()
                tess.vertices = ctx.module("numpy").array([list(p) for p in pts] + [list(far)])
            region = list(range(n))
            regions = [[], [0, -1, 1], list(region)]
            out = ctx.list_of(ctx.call(ctx.get(te, "remove_infinite_regions"), tess, regions, max_distance=md))
            out = [ctx.list_of(r) for r in out]
            d2 = [(pts[a][0] - pts[b][0]) * (pts[a][0] - pts[b][0]) + (pts[a][1] - pts[b][1]) * (pts[a][1] - pts[b][1]) for a in range(n) for b in range(a + 1, n)]
            too_big = ctx.Or(*[d > md * md for d in d2])
            kept = region in out
            ctx.ensure(ctx.Not(too_big) if kept else too_big, "bounded region kept iff no two of its corners are farther apart than the cut-off")
            ctx.ensure([] in out and [0, -1, 1] in out, "empty and unbounded regions are not touched here")
        return h
    return [(f"corners={n}", mk(n)) for n in ((3,) if tier == "quick" else (3, 4))]
