"""C18 - coarse-grained stress tensor (stress_tensor.py): statement contract on the per-grid-cell arithmetic.
The pandas selection (which cells / interfaces fall into a grid cell) is an assumed dependency (A-pandas) and is
compared with an independent computation only by the bounded stand-in B18."""
from fvc.registry import obligation

S = "forsys.stress_tensor"
PATTERNS = ["pressure_area_term = ", "tension_xx = 0", "tension_yy = 0", "tension_xy = 0", "for _, bedge in current_edges_mesh.iterrows()",
            "sigma_xx = ", "sigma_yy = ", "sigma_xy = ", "sigmas[f'{row}{column}'] = np.array([[sigma_xx"]


class FakeDF:
    """the two things the block does with a selected DataFrame: iterrows() and nothing else"""

    def __init__(self, rows):
        self.rows = rows

    def fvc_getattr(self, it, name):
        from fvc.lib import ModelFn
        from fvc.interp import SymError
        if name == "iterrows":
            return ModelFn("DataFrame.iterrows", lambda it_: [(i, r) for i, r in enumerate(self.rows)])
        raise SymError("DataFrame." + name)


def frame_of(ctx, rows):
    if ctx.mode == "sym":
        return FakeDF([ctx.dict(list(r.items())) for r in rows])
    pd = ctx.module("pandas")
    return pd.DataFrame(rows)


def run_block(ctx, cells, edges, total_area, row=2, column=7):
    stmts = ctx.fragment(S, "stress_tensor", PATTERNS, skips=["current_edges_mesh = big_edges.loc["])      # A-pandas: the selection is given
    sig = ctx.dict()
    env = dict(current_cell_mesh=frame_of(ctx, cells), current_edges_mesh=frame_of(ctx, edges), total_area=total_area,
               sigmas=sig, row=row, column=column)
    if ctx.mode == "sym":
        env["np"] = ctx.get(ctx.module(S), "np")
    out = ctx.run_fragment(S, stmts, env)
    t = ctx.item(out["sigmas"], f"{row}{column}")
    return [ctx.list_of(r) for r in ctx.list_of(t)]


def inputs(ctx, nc, ne, tag=""):
    cells = [dict(pressure=ctx.real(f"{tag}p{i}"), area=ctx.real(f"{tag}a{i}")) for i in range(nc)]
    edges = [dict(stress=ctx.real(f"{tag}t{j}"), vector=[ctx.real(f"{tag}vx{j}"), ctx.real(f"{tag}vy{j}")]) for j in range(ne)]
    for c in cells:
        ctx.assume(c["area"] > 0, "pre")
    for e in edges:
        ctx.assume(ctx.Or(ctx.Not(ctx.zero(e["vector"][0])), ctx.Not(ctx.zero(e["vector"][1]))), "pre")
    area = sum((c["area"] for c in cells[1:]), cells[0]["area"])
    return cells, edges, area


@obligation("O18.1", ["C18"], [S + ":stress_tensor"],
            "per grid cell: the stored tensor is symmetric; with all tensions zero and every selected cell at pressure p it is -p times the identity; "
            "it is jointly linear in (pressures, tensions)", tier="Pn")
def o18_1(tier):
    def mk(nc, ne):
        def h(ctx):
            cells, edges, area = inputs(ctx, nc, ne)
            T = run_block(ctx, cells, edges, area)
            ctx.ensure(len(T) == 2 and len(T[0]) == 2 and len(T[1]) == 2, "2x2")
            ctx.ensure(ctx.close(T[0][1], T[1][0]), "symmetric")
            # spec: sigma = ( -sum p_i A_i * I + sum_e T_e v v^T / |v| ) / total area
            pa = sum((c["pressure"] * c["area"] for c in cells[1:]), cells[0]["pressure"] * cells[0]["area"])
            txx = tyy = txy = 0
            for e in edges:
                vx, vy = e["vector"]
                nrm = ctx.sqrt(vx * vx + vy * vy)
                txx, tyy, txy = txx + e["stress"] * vx * vx / nrm, tyy + e["stress"] * vy * vy / nrm, txy + e["stress"] * vx * vy / nrm
            ctx.ensure(ctx.close(T[0][0] * area, -pa + txx), "xx = (-sum p A + sum T vx vx/|v|) / area")
            ctx.ensure(ctx.close(T[1][1] * area, -pa + tyy), "yy = (-sum p A + sum T vy vy/|v|) / area")
            ctx.ensure(ctx.close(T[0][1] * area, txy), "xy = sum T vx vy/|v| / area")
        return h

    def mk_iso(nc, ne):
        def h(ctx):
            cells, edges, area = inputs(ctx, nc, ne)
            p = ctx.real("p")
            for c in cells:
                c["pressure"] = p
            for e in edges:
                e["stress"] = 0
            T = run_block(ctx, cells, edges, area)
            ctx.ensure(ctx.And(ctx.close(T[0][0], -p), ctx.close(T[1][1], -p), ctx.zero(T[0][1]), ctx.zero(T[1][0])), "pure pressure p: -p times the identity")
        return h

    def closed_form(ctx, cells, edges):
        pa = sum((c["pressure"] * c["area"] for c in cells[1:]), cells[0]["pressure"] * cells[0]["area"])
        txx = tyy = txy = 0
        for e in edges:
            vx, vy = e["vector"]
            nrm = ctx.sqrt(vx * vx + vy * vy)
            txx, tyy, txy = txx + e["stress"] * (vx * vx / nrm), tyy + e["stress"] * (vy * vy / nrm), txy + e["stress"] * (vx * vy / nrm)
        return [[-pa + txx, txy], [txy, -pa + tyy]]

    def mk_lin(nc, ne):
        def h(ctx):
            ca, ea, area = inputs(ctx, nc, ne, "a")
            cb, eb, _ = inputs(ctx, nc, ne, "b")
            for i in range(nc):
                cb[i]["area"] = ca[i]["area"]
            for j in range(ne):
                eb[j]["vector"] = ea[j]["vector"]
            al, be = ctx.real("alpha"), ctx.real("beta")
            cc = [dict(pressure=al * ca[i]["pressure"] + be * cb[i]["pressure"], area=ca[i]["area"]) for i in range(nc)]
            ec = [dict(stress=al * ea[j]["stress"] + be * eb[j]["stress"], vector=ea[j]["vector"]) for j in range(ne)]
            # the code's result for the combined input equals the closed form (as in the first instance) ...
            Tc = run_block(ctx, cc, ec, area)
            Fa, Fb, Fc = closed_form(ctx, ca, ea), closed_form(ctx, cb, eb), closed_form(ctx, cc, ec)
            for r in range(2):
                for c in range(2):
                    ctx.ensure(ctx.close(Tc[r][c] * area, Fc[r][c]), f"entry ({r},{c}) of the combined input has the closed form")
                    # ... and the closed form is linear: same areas and directions, pressures/tensions combined
                    ctx.ensure(ctx.close(Fc[r][c], al * Fa[r][c] + be * Fb[r][c]), f"closed form of entry ({r},{c}) is linear in (pressures, tensions)")
        return h
    return [("cells=2,edges=3", mk(2, 3)), ("cells=1,edges=0", mk(1, 0)), ("isotropic,cells=3,edges=2", mk_iso(3, 2)), ("linear,cells=2,edges=1", mk_lin(2, 1))] + ([("linear,cells=3,edges=1", mk_lin(3, 1))] if tier != "quick" else [])


@obligation("O18.2", ["C18", "C10"], [S + ":get_big_edges_df", S + ":get_cells_df"],
            "the per-interface and per-cell tables feeding the stress tensor are rebuilt from the frame's CURRENT tensions and pressures at every call "
            "(no state carried from an earlier call), one row per interface / cell in dictionary order", tier="Pn")
def o18_2(tier):
    def h(ctx):
        from .c02_matrix import build
        from .c08_frames import column
        m, fr, cycles, info, _ = build(ctx, "tri_star", 1)
        np_ = ctx.module("numpy") if ctx.mode != "sym" else None

        def vec(it, a, k):
            beid = ctx.get(a[0], "big_edge_id")
            val = (ctx.real(f"w{beid}x"), ctx.real(f"w{beid}y"))
            if np_ is not None:
                return np_.array(val)
            from fvc import npmodel
            return npmodel.NDArr(list(val), (2,))
        ctx.stub("forsys.edge:BigEdge.get_vector_from_vertex", vec, "callee contract O02.3a/b (only its value is tabulated here)")
        if ctx.mode != "sym":
            ctx.apply_stubs = True
            ctx.stub("forsys.edge:BigEdge.get_vector_from_vertex", vec)
        st = ctx.module(S)
        bes = ctx.list_of(ctx.get(fr, "big_edges"))
        for round_ in (1, 2):
            tens, pres = {}, {}
            for beid, be in bes:
                tens[beid] = ctx.real(f"T{round_}_{beid}")
                ctx.set(be, "tension", tens[beid])
            for cid in cycles:
                pres[cid] = ctx.real(f"P{round_}_{cid}")
                ctx.set(m.c[cid], "pressure", pres[cid])
                ctx.set(m.c[cid], "gt_pressure", ctx.real(f"GTP_{cid}"))       # a reference pressure is present and must not leak into the table
            df = ctx.call(ctx.get(st, "get_big_edges_df"), fr)
            ctx.ensure([int(x) for x in column(ctx, df, "ids")] == [b for b, _ in bes], f"call {round_}: one row per interface in dictionary order")
            ctx.ensure(ctx.And(*[ctx.close(a, tens[b]) for a, (b, _) in zip(column(ctx, df, "stress"), bes)]), f"call {round_}: the CURRENT tension of every interface")
            dc = ctx.call(ctx.get(st, "get_cells_df"), fr)
            ctx.ensure([int(x) for x in column(ctx, dc, "ids")] == list(cycles), f"call {round_}: one row per cell")
            ctx.ensure(ctx.And(*[ctx.close(a, pres[c]) for a, c in zip(column(ctx, dc, "pressure"), cycles)]), f"call {round_}: the CURRENT pressure of every cell")
    return [("tri_star,two-calls", h)]


@obligation("O18.3", ["C18", "C10"], ["forsys.frames:Frame.calculate_stress_tensor"],
            "Frame.calculate_stress_tensor: principal_stress holds exactly one entry per grid centre of the tensor field just computed, namely the "
            "eigen-decomposition of THAT grid cell's tensor - also when an earlier call on the same frame used another grid", tier="Pn")
def o18_3(tier):
    def h(ctx):
        F = ctx.get(ctx.module("forsys.frames"), "Frame")
        fr = ctx.alloc(F)
        grids = [([ctx.real("ax0"), ctx.real("ax1")], [ctx.real("ay0")]), ([ctx.real("bx0")], [ctx.real("by0"), ctx.real("by1")])]
        for xs, ys in grids:
            ctx.assume(ctx.Not(ctx.close(xs[0], xs[-1])) if len(xs) > 1 else True, "pre: distinct grid centres")
            ctx.assume(ctx.Not(ctx.close(ys[0], ys[-1])) if len(ys) > 1 else True, "pre: distinct grid centres")
        ctx.assume(ctx.And(ctx.Not(ctx.close(grids[0][0][0], grids[1][0][0])), ctx.Not(ctx.close(grids[0][0][1], grids[1][0][0]))), "pre: the second grid's centres differ from the first's")
        state = dict(call=0)
        tensors = {}

        def field(it, a, k):
            g = state["call"]
            xs, ys = grids[g]
            state["call"] += 1
            sig = []
            for r in range(len(xs)):
                for c in range(len(ys)):
                    tensors[(g, r, c)] = ("tensor", g, r, c)
                    sig.append((f"{r}{c}", tensors[(g, r, c)]))
            return (ctx.dict(sig), (list(xs), list(ys)))

        def eig(it, a, k):
            return ("eig-of",) + tuple(a[0][1:])
        ctx.stub("forsys.stress_tensor:stress_tensor", field, "callee contract O18.1 (per grid cell) / B18 (selection): only its shape matters here")
        ctx.stub("numpy.linalg.eig", eig, "A-eig: numpy.linalg.eig returns the eigen-decomposition of the matrix it is given")
        if ctx.mode != "sym":
            return           # tensors are opaque tokens here; the native comparison with numpy's eig is B18
        for g, (xs, ys) in enumerate(grids):
            ctx.callm(fr, "calculate_stress_tensor", 5 + g, 1.0)
            got = ctx.list_of(ctx.get(fr, "principal_stress"))
            ctx.ensure(len(got) == len(xs) * len(ys), f"call {g + 1}: one entry per grid centre of the current field ({len(xs) * len(ys)}), none left from an earlier grid")
            for r in range(len(xs)):
                for c in range(len(ys)):
                    hit = [v for kk, v in got if ctx.it.truth(ctx.And(ctx.close(kk[0], xs[r]), ctx.close(kk[1], ys[c])))]
                    ctx.ensure(len(hit) == 1 and hit[0] == ("eig-of", g, r, c), f"call {g + 1}: centre ({r},{c}) carries the eigen-decomposition of its own tensor")
    def h_wide(ctx):
        # a grid with a two-digit index (11 x 1 and 1 x 11, the largest size whose keys f"{row}{column}" are still unambiguous): every
        # grid centre gets the eigen-system of the tensor stored under ITS row and column
        if ctx.mode != "sym":
            return
        F = ctx.get(ctx.module("forsys.frames"), "Frame")
        for nx, ny in ((11, 1), (1, 11)):
            fr = ctx.alloc(F)
            xs, ys = [ctx.real(f"g{nx}x{i}") for i in range(nx)], [ctx.real(f"g{nx}y{i}") for i in range(ny)]
            for seq in (xs, ys):
                for i in range(1, len(seq)):
                    ctx.assume(seq[i] > seq[i - 1] + 1, "pre: distinct grid centres")

            def field(it, a, k, xs=xs, ys=ys):
                return (ctx.dict([(f"{r}{c}", ("tensor", r, c)) for r in range(len(xs)) for c in range(len(ys))]), (list(xs), list(ys)))
            ctx.stub("forsys.stress_tensor:stress_tensor", field, "callee contract O18.1 / B18: only its shape matters here")
            ctx.stub("numpy.linalg.eig", lambda it, a, k: ("eig-of",) + tuple(a[0][1:]), "A-eig")
            ctx.callm(fr, "calculate_stress_tensor", 11, 1.0)
            got = ctx.list_of(ctx.get(fr, "principal_stress"))
            ctx.ensure(len(got) == nx * ny, f"{nx}x{ny}: one entry per grid centre")
            for r in range(nx):
                for c in range(ny):
                    hit = [v for kk, v in got if ctx.it.truth(ctx.And(ctx.close(kk[0], xs[r]), ctx.close(kk[1], ys[c])))]
                    ctx.ensure(len(hit) == 1 and hit[0] == ("eig-of", r, c), f"{nx}x{ny}: centre ({r},{c}) carries the eigen-decomposition of its own tensor")
    return [("two-calls-with-different-grids", h), ("grid-index-of-two-digits", h_wide)]
