"""C16 - angle-limit exclusion: ForceMatrix.get_angle_limited_edges, get_solution_no_discarded,
get_new_initial_condition (fmatrix.py)."""
import itertools
from fvc.registry import obligation
from .common import cls, mk_vertices
from .c02_matrix import build, versor_by_contract, versor_concrete, force_matrix, find_interface
from .shapes import same_path

FM = "forsys.fmatrix:ForceMatrix."


def fake_interfaces(ctx, paths):
    """BigEdge-like objects of which only get_vertices_ids() is read"""
    B = cls(ctx, "forsys.edge", "BigEdge")
    V = cls(ctx, "forsys.vertex", "Vertex")
    out = []
    for k, p in enumerate(paths):
        vs = [ctx.call(V, vid, 0.0, 0.0) for vid in p]
        out.append(ctx.alloc(B, big_edge_id=k, vertices=vs))
    return out


def mk_set(ctx, elems):
    if ctx.mode == "sym":
        from fvc import interp
        return interp.ISet(list(elems))
    return set(elems)


def fm_for_alignment(ctx, paths, deletes):
    F = cls(ctx, "forsys.frames", "Frame")
    M = cls(ctx, "forsys.fmatrix", "ForceMatrix")
    fr = ctx.alloc(F, internal_big_edges=fake_interfaces(ctx, paths))
    return ctx.alloc(M, frame=fr, deletes=mk_set(ctx, deletes))


CHAIN = [[10, 31, 20], [20, 30], [30, 32, 33, 40], [40, 50], [50, 10]]
ENDS = [10, 20, 30, 40, 50]


def excluded(path, deletes):
    return path[0] in deletes and path[-1] in deletes


@obligation("O16.3", ["C16", "C10"], [FM + "get_solution_no_discarded"],
            "re-alignment: position i holds -1 if interface i is excluded (both ends flagged), else the next value of the restricted solution, in order",
            tier="Pn")
def o16_3(tier):
    def mk(subsets):
        def h(ctx):
            for n, dele in enumerate(subsets):
                fm = fm_for_alignment(ctx, CHAIN, dele)
                keep = [i for i, p in enumerate(CHAIN) if not excluded(p, dele)]
                xs = [ctx.real(f"s{n}_x{i}") for i in range(len(keep))]
                if ctx.mode == "sym":
                    from fvc import npmodel
                    X = npmodel.NDArr(xs, (len(xs),))
                else:
                    X = ctx.module("numpy").array(xs, dtype=float)
                res = ctx.list_of(ctx.callm(fm, "get_solution_no_discarded", X))
                ctx.ensure(len(res) == len(CHAIN), f"{sorted(dele)}: one entry per internal interface")
                rank = 0
                for i, p in enumerate(CHAIN):
                    if excluded(p, dele):
                        ctx.ensure(ctx.close(res[i], -1), f"{sorted(dele)}: excluded interface {i} reported as -1")
                    else:
                        ctx.ensure(ctx.close(res[i], xs[rank]), f"{sorted(dele)}: interface {i} gets restricted value #{rank}")
                        rank += 1
        return h
    subs = [set(c) for r in range(len(ENDS) + 1) for c in itertools.combinations(ENDS, r)]
    chunks = [subs[i::4] for i in range(4)]
    return [(f"chain5,deletes-subsets-{i}", mk(ch)) for i, ch in enumerate(chunks)]


@obligation("O16.4", ["C16"], [FM + "get_new_initial_condition"],
            "initial condition: exactly the excluded positions are marked (-1, or 0 for what='zero') and returned with their original values",
            tier="Pn")
def o16_4(tier):
    def mk(subsets, what):
        def h(ctx):
            for n, dele in enumerate(subsets):
                fm = fm_for_alignment(ctx, CHAIN, dele)
                x0 = [ctx.real(f"s{n}_x{i}") for i in range(len(CHAIN))]
                arg = list(x0)
                r = ctx.list_of(ctx.callm(fm, "get_new_initial_condition", arg, what=what))
                new, removed = ctx.list_of(r[0]), r[1]
                rk = ctx.keys(removed)
                want = [i for i, p in enumerate(CHAIN) if excluded(p, dele)]
                ctx.ensure(sorted(rk) == want, f"{sorted(dele)}: removed indices = excluded positions")
                for i in range(len(CHAIN)):
                    if i in want:
                        ctx.ensure(ctx.close(new[i], 0 if what == "zero" else -1), f"{sorted(dele)}: position {i} marked")
                        ctx.ensure(ctx.close(ctx.item(removed, i), x0[i]), f"{sorted(dele)}: original value of {i} returned")
                    else:
                        ctx.ensure(ctx.close(new[i], x0[i]), f"{sorted(dele)}: position {i} untouched")
        return h
    subs = [set(c) for r in range(len(ENDS) + 1) for c in itertools.combinations(ENDS, r)]
    return [("chain5,other", mk(subs[::2], "other")), ("chain5,zero", mk(subs[1::2], "zero"))]


@obligation("O16.1", ["C16"], [FM + "get_angle_limited_edges"],
            "a junction is flagged iff some pair of interface directions there opens by at least the limit; an internal interface is dropped iff both its ends are flagged; order of the others kept",
            tier="Pn")
def o16_1(tier):
    def mk(shape, k, infinite, quiet_ends=False):
        def h(ctx):
            m, fr, cycles, info, _ = build(ctx, shape, k)
            u = versor_by_contract(ctx, fr)
            limit = float("inf") if infinite else ctx.real("limit")
            if quiet_ends:
                # cheaper instance: only the inner junction may be flagged (the outer ends open by less than the limit)
                from fvc import sym as S
                import math
                inner = set(info["junction_rows"])
                for v in sorted({vv for (_, vv) in u}):
                    if v in inner:
                        continue
                    at = sorted(b for (b, vv) in u if vv == v)
                    for a, b in itertools.combinations(at, 2):
                        d = u[(a, v)][0] * u[(b, v)][0] + u[(a, v)][1] * u[(b, v)][1]
                        ang = S.arccos(d, ctx.it.decide) if ctx.mode == "sym" else math.acos(max(-1.0, min(1.0, d)))
                        ctx.assume(ang < limit, "pre: outer ends not flagged")
            before = [ctx.list_of(e) for e in ctx.list_of(ctx.get(fr, "internal_big_edges_vertices"))]
            fm = force_matrix(ctx, fr, False, angle_limit=limit)
            after = [ctx.list_of(e) for e in ctx.list_of(ctx.get(fr, "internal_big_edges_vertices"))]
            ctx.ensure(after == before, "frame condition: building the (restricted) system does not modify the frame's own list of internal interfaces")
            internal = [ctx.list_of(ctx.callm(be, "get_vertices_ids")) for be in ctx.list_of(ctx.get(fr, "internal_big_edges"))]
            deletes = ctx.list_of(ctx.get(fm, "deletes"))
            used = [ctx.list_of(c) for c in ctx.list_of(ctx.get(fm, "big_edges_to_use"))]
            ends = []
            for p in internal:
                for v in (p[0], p[-1]):
                    if v not in ends:
                        ends.append(v)
            if infinite:
                ctx.ensure(deletes == [], "infinite limit: no junction flagged")
                ctx.ensure(used == internal, "infinite limit: every internal interface is an unknown, in frame order")
                return
            # spec of 'flagged': some pair of directions at the junction with arccos(u.v) >= limit
            from fvc import sym as S
            for v in ends:
                at = sorted(b for (b, vv) in u if vv == v)
                pairs = []
                for a, b in itertools.combinations(at, 2):
                    d = u[(a, v)][0] * u[(b, v)][0] + u[(a, v)][1] * u[(b, v)][1]
                    if ctx.mode == "sym":
                        ang = S.arccos(d, ctx.it.decide)
                    else:
                        import math
                        ang = math.acos(max(-1.0, min(1.0, d)))
                    pairs.append(ang >= limit)
                flagged = ctx.Or(*pairs)
                ctx.ensure(flagged if v in deletes else ctx.Not(flagged), f"junction {v}: flagged iff a pair opens by >= limit")
            ctx.ensure(all(d in ends for d in deletes), "only end junctions of internal interfaces are flagged")
            want = [p for p in internal if not (p[0] in deletes and p[-1] in deletes)]
            ctx.ensure(used == want, "unknowns = internal interfaces minus those with both ends flagged, order kept")
            # the restricted system keeps the equations of every junction that still has three remaining interfaces - flagged or not
            rows = sorted(ctx.keys(ctx.get(fm, "map_vid_to_row")))
            want_rows = sorted(j for j in info["three_cell_vertices"] if sum(1 for p in used if p[0] == j or p[-1] == j) >= 3)
            ctx.ensure(rows == want_rows, "equations for every junction with >=3 cells and >=3 remaining interfaces (a flagged junction keeps its equations)")
            mat = [ctx.list_of(r) for r in ctx.list_of(ctx.get(fm, "matrix"))]
            ctx.ensure(len(mat) == 2 * len(want_rows) and all(len(r) == len(used) for r in mat), "restricted system: two rows per such junction, one column per remaining interface")
            for j in rows:
                r = ctx.item(ctx.get(fm, "map_vid_to_row"), j)
                for ci, c in enumerate(used):
                    if c[0] == j or c[-1] == j:
                        beid = find_interface(ctx, fr, c)
                        ctx.ensure(ctx.And(ctx.close(mat[r][ci], u[(beid, j)][0]), ctx.close(mat[r + 1][ci], u[(beid, j)][1])), f"junction {j}, remaining interface {ci}: its versor")
        return h
    out = []
    # a junction where four interfaces meet (quick: only that junction may be flagged; thorough: every end)
    out.append(("four_fold,k=0,limit=symbolic,outer-ends-quiet", mk("four_fold", 0, False, True)))
    if tier != "quick":
        out.append(("four_fold,k=0,limit=symbolic", mk("four_fold", 0, False)))
    for shape in ("tri_star", "double_y"):
        out.append((f"{shape},k=1,limit=inf", mk(shape, 1, True)))
        if shape == "tri_star" or tier != "quick":
            out.append((f"{shape},k=1,limit=symbolic", mk(shape, 1, False)))
    return out


@obligation("O16.6", ["C16", "C02", "C10"], [FM + "get_angle_limited_edges", FM + "_build_matrix"],
            "scenario with concrete unit directions: a four-fold junction whose opposite interfaces open by pi is flagged by the limit 3.0 while its "
            "neighbours are not: nothing is excluded (an interface needs BOTH ends flagged) and the flagged junction keeps its two equations with all four "
            "coefficients; with the limit 1.0 every junction is flagged, every interface is excluded", tier="Pn")
def o16_6(tier):
    from fractions import Fraction as Fr
    E = [(Fr(1), Fr(0)), (Fr(0), Fr(1)), (Fr(-1), Fr(0)), (Fr(0), Fr(-1))]

    def rot(v, w):      # complex product: rotate v by the direction w
        return (v[0] * w[0] - v[1] * w[1], v[0] * w[1] + v[1] * w[0])

    def mk(limit, expect_all_excluded):
        def h(ctx):
            m, fr, cycles, info, _ = build(ctx, "four_fold", 0)
            J = info["junction_rows"][0]
            spokes = info["internal"]

            def assign(path, vid):
                for i, sp in enumerate(spokes):
                    if same_path(sp, path):
                        return E[i] if vid == J else (-E[i][0], -E[i][1])
                # ring arc ending at an outer vertex: 53.13 degrees off the outward direction, to either side
                i = [k for k, sp in enumerate(spokes) if sp[-1] == vid][0]
                side = (Fr(3, 5), Fr(4, 5)) if path[0] == vid else (Fr(3, 5), Fr(-4, 5))
                return rot(E[i], side)
            u = versor_concrete(ctx, fr, assign)
            lim = limit
            if limit == "pi":
                # the opening of the opposite spokes IS the limit (arccos(-1) = pi): 'at least the limit' includes equality
                if ctx.mode == "sym":
                    from fvc import lib
                    lim = lib.pi_value()
                else:
                    import math
                    lim = math.pi
            fm = force_matrix(ctx, fr, False, angle_limit=lim)
            deletes = sorted(ctx.list_of(ctx.get(fm, "deletes")))
            used = [ctx.list_of(c) for c in ctx.list_of(ctx.get(fm, "big_edges_to_use"))]
            rows = sorted(ctx.keys(ctx.get(fm, "map_vid_to_row")))
            mat = [ctx.list_of(r) for r in ctx.list_of(ctx.get(fm, "matrix"))]
            if expect_all_excluded:
                ctx.ensure(deletes == sorted([J] + [sp[-1] for sp in spokes]), "limit 1.0: every junction is flagged")
                ctx.ensure(used == [] and rows == [] and len(mat) == 0, "limit 1.0: every interface is excluded, no equation is left")
                return
            ctx.ensure(deletes == [J], f"only the four-fold junction (opposite interfaces open by pi >= {limit}) is flagged")
            ctx.ensure(len(used) == 4, "no interface is excluded: none has both ends flagged")
            ctx.ensure(rows == [J] and len(mat) == 2, "the flagged junction keeps its two equations")
            if len(mat) != 2:
                return
            for ci, c in enumerate(used):
                i = [k for k, sp in enumerate(spokes) if same_path(sp, c)][0]
                ctx.ensure(ctx.And(ctx.close(mat[0][ci], E[i][0]), ctx.close(mat[1][ci], E[i][1])), f"column {ci}: the direction of that interface at the junction")
        return h
    def h_two_builds(ctx):
        # an earlier build of the SAME frame saw other directions (another circle-fit method): the limit is applied to the directions of
        # the build at hand.  First build: the opposite spokes bent so that no pair opens by 3.0; second build: straight through (pi)
        m, fr, cycles, info, _ = build(ctx, "four_fold", 0)
        J = info["junction_rows"][0]
        spokes = info["internal"]
        bent = [(Fr(1), Fr(0)), (Fr(0), Fr(1)), (Fr(-3, 5), Fr(4, 5)), (Fr(-4, 5), Fr(-3, 5))]      # largest opening 126.9 degrees = 2.21 rad

        def table(dirs):
            def assign(path, vid):
                for i, sp in enumerate(spokes):
                    if same_path(sp, path):
                        return dirs[i] if vid == J else (-dirs[i][0], -dirs[i][1])
                i = [k for k, sp in enumerate(spokes) if sp[-1] == vid][0]
                side = (Fr(3, 5), Fr(4, 5)) if path[0] == vid else (Fr(3, 5), Fr(-4, 5))
                return rot(dirs[i], side)
            return assign
        versor_concrete(ctx, fr, table(bent))
        first = force_matrix(ctx, fr, False, angle_limit=3.0)
        ctx.ensure(sorted(ctx.list_of(ctx.get(first, "deletes"))) == [], "first build (bent spokes, largest opening 2.21 < 3.0): nothing flagged")
        versor_concrete(ctx, fr, table(E))
        second = force_matrix(ctx, fr, False, angle_limit=3.0)
        ctx.ensure(sorted(ctx.list_of(ctx.get(second, "deletes"))) == [J], "second build (straight spokes, opening pi >= 3.0): the junction is flagged by ITS directions")
    return [("four_fold,limit=3.0", mk(3.0, False)), ("four_fold,limit=1.0", mk(1.0, True)), ("four_fold,limit=pi-exactly-the-opening", mk("pi", False)), ("four_fold,two-builds-with-other-directions", h_two_builds)]


@obligation("O16.3u", ["C16", "C10"], [FM + "get_solution_no_discarded"],
            "re-alignment for ANY number of internal interfaces (mode b, loop cut at an inductive invariant): with one solver value per remaining interface, "
            "position j of the result holds -1 if interface j is excluded and the value of rank rank(j) = number of remaining interfaces before j otherwise; "
            "no index leaves its bounds", tier="P")
def o16_3u(tier):
    def native(ctx):
        # the same contract on CPython for the (n, m) of a counter-model: random exclusion patterns with exactly n - m excluded interfaces
        import random
        import numpy as np
        from forsys.fmatrix import ForceMatrix
        from forsys.frames import Frame
        n, m = ctx.int("n"), ctx.int("m")
        ctx.assume(0 <= m < n and n <= 400, "pre")
        rnd = random.Random(1000 * n + m)

        class BE:
            def __init__(self, ids): self.ids = ids
            def get_vertices_ids(self): return self.ids
        for _ in range(6):
            excluded = set(rnd.sample(range(n), n - m))
            deletes, edges = set(), []
            for i in range(n):
                ids = [3 * i, 3 * i + 1, 3 * i + 2]
                edges.append(BE(ids))
                if i in excluded:
                    deletes.update((ids[0], ids[-1]))
                else:
                    deletes.update(rnd.choice(([], [ids[0]], [ids[-1]], [ids[1]])))
            fm, fr = ForceMatrix.__new__(ForceMatrix), Frame.__new__(Frame)
            fr.internal_big_edges, fm.frame, fm.deletes = edges, fr, deletes
            xres = np.array([rnd.uniform(0.1, 2) for _ in range(m)], dtype=float)
            res = fm.get_solution_no_discarded(xres)
            ctx.ensure(len(res) == n, "one entry per internal interface")
            rank = 0
            for i in range(n):
                want = -1 if i in excluded else xres[rank]
                rank += i not in excluded
                ctx.ensure(res[i] == want, "position p: -1 if excluded, else the solver value of its rank")

    def h(ctx):
        if ctx.mode != "sym":
            return native(ctx)
        import z3
        from fvc import modeb
        from fvc.lib import ModelFn
        Int, Real, Bool = z3.IntSort(), z3.RealSort(), z3.BoolSort()
        n, m = ctx.int("n"), ctx.int("m")
        ctx.assume(ctx.And(n >= 0, m >= 0), "pre")
        first, last = z3.Function("first_", Int, Int), z3.Function("last_", Int, Int)
        flag = z3.Function("flag_", Int, Bool)
        rank = z3.Function("rank_", Int, Int)
        excl = lambda i: z3.And(flag(first(i)), flag(last(i)))
        a, b, d = z3.Ints("a_ b_ d_")
        # definition of rank (number of remaining interfaces before position i)
        ctx.assume(rank(0) == 0, "def:rank")
        ctx.assume(z3.ForAll([a], z3.Implies(a >= 0, rank(a + 1) == rank(a) + z3.If(excl(a), 0, 1)), patterns=[rank(a + 1)]), "def:rank")
        # lemma (induction on d, each step discharged on explicit instances): rank is monotone
        ctx.lemma(rank(a) <= rank(a + 0), "rank-monotone: base", premises=[])
        ctx.lemma(rank(a) <= rank(a + d + 1), "rank-monotone: step",
                  premises=[a >= 0, d >= 0, rank(a) <= rank(a + d), rank(a + d + 1) == rank(a + d) + z3.If(excl(a + d), 0, 1)])
        ctx.assume(z3.ForAll([a, b], z3.Implies(z3.And(0 <= a, a <= b), rank(a) <= rank(b)), patterns=[z3.MultiPattern(rank(a), rank(b))]), "lemma(induction): rank monotone")
        ctx.assume(m == rank(n), "pre: one solver value per remaining interface")
        ctx.assume(ctx.Not(n == m), "pre:class (some interface is excluded; the no-exclusion shortcut returns its argument unchanged)")

        class AbsPath:
            def __init__(self, i):
                self.i = i

            def fvc_getitem(self, it, key):
                return first(self.i) if key == 0 else last(self.i) if key == -1 else z3.Function("inner_", Int, Int, Int)(self.i, key)

        class AbsBigEdge:
            def __init__(self, i):
                self.i = i

            def fvc_getattr(self, it, name):
                return ModelFn("get_vertices_ids", lambda it_: AbsPath(self.i))
        internal = modeb.SymSeq(n, getter=lambda i: AbsBigEdge(i), name="internal")
        xarr = z3.Array("xres_", Int, Real)
        xres = modeb.SymSeq(m, array=xarr, name="xres")
        F = cls(ctx, "forsys.frames", "Frame")
        M = cls(ctx, "forsys.fmatrix", "ForceMatrix")
        fm = ctx.alloc(M, frame=ctx.alloc(F, internal_big_edges=internal), deletes=modeb.AbsSet(lambda x: flag(x)))
        j = z3.Int("j_")

        def inv(look, k):
            new = look.kind("seq")               # the result array (whatever the function calls it)
            return z3.And(look.kind("int") == rank(k), k <= n,
                          z3.ForAll([j], z3.Implies(z3.And(0 <= j, j < k), z3.Select(new.array, j) == z3.If(excl(j), z3.RealVal(-1), z3.Select(xarr, rank(j))))))
        ctx.invariant("forsys.fmatrix:ForceMatrix.get_solution_no_discarded", 0, inv)      # modified locals taken from the loop's AST
        res = ctx.callm(fm, "get_solution_no_discarded", xres)
        ctx.ensure(isinstance(res, modeb.SymSeq) and ctx.eq(res.length, n), "one entry per internal interface")
        p = ctx.int("p")
        ctx.assume(ctx.And(p >= 0, p < n), "arbitrary position")
        ctx.ensure(res.at(p) == z3.If(excl(p), z3.RealVal(-1), z3.Select(xarr, rank(p))), "position p: -1 if excluded, else the solver value of its rank")
    return [("any-length", h)]


@obligation("O16.4u", ["C16", "C10"], [FM + "get_new_initial_condition"],
            "initial condition for ANY number of internal interfaces (mode b, loop cut at an inductive invariant): exactly the positions of excluded interfaces are "
            "overwritten by the mark (0 / -1) and remembered with their previous value; every other entry (the multiplier behind the tensions included) is unchanged; "
            "no index leaves its bounds", tier="P")
def o16_4u(tier):
    def native(ctx, what):
        import random
        from forsys.fmatrix import ForceMatrix
        from forsys.frames import Frame
        n, L = ctx.int("n"), ctx.int("L")
        ctx.assume(0 <= n <= L <= 400, "pre")
        rnd = random.Random(1000 * n + L)

        class BE:
            def __init__(self, ids): self.ids = ids
            def get_vertices_ids(self): return self.ids
        for _ in range(6):
            excluded = set(i for i in range(n) if rnd.random() < 0.4)
            deletes, edges = set(), []
            for i in range(n):
                ids = [3 * i, 3 * i + 1, 3 * i + 2]
                edges.append(BE(ids))
                deletes.update((ids[0], ids[-1]) if i in excluded else rnd.choice(([], [ids[0]], [ids[-1]], [ids[1]])))
            fm, fr = ForceMatrix.__new__(ForceMatrix), Frame.__new__(Frame)
            fr.internal_big_edges, fm.frame, fm.deletes = edges, fr, deletes
            old = [rnd.uniform(0.1, 2) for _ in range(L)]
            res, removed = fm.get_new_initial_condition(list(old), what=what)
            mark = 0 if what == "zero" else -1
            ctx.ensure(len(res) == L, "length unchanged")
            ctx.ensure(all(res[p] == (mark if p in excluded else old[p]) for p in range(L)), "position p: the mark if excluded, else unchanged")
            ctx.ensure(removed == {p: old[p] for p in excluded}, "remembered: exactly the excluded positions")

    def mk(what):
        def h(ctx):
            if ctx.mode != "sym":
                return native(ctx, what)
            import z3
            from fvc import modeb
            from fvc.lib import ModelFn
            Int, Real, Bool = z3.IntSort(), z3.RealSort(), z3.BoolSort()
            n, L = ctx.int("n"), ctx.int("L")
            ctx.assume(ctx.And(n >= 0, L >= n), "pre: one initial value per internal interface (and possibly the multiplier behind them)")
            first, last = z3.Function("first_", Int, Int), z3.Function("last_", Int, Int)
            flag = z3.Function("flag_", Int, Bool)
            excl = lambda i: z3.And(flag(first(i)), flag(last(i)))
            mark = z3.RealVal(0 if what == "zero" else -1)

            class AbsPath:
                def __init__(self, i): self.i = i
                def fvc_getitem(self, it, key): return first(self.i) if key == 0 else last(self.i) if key == -1 else z3.Function("inner_", Int, Int, Int)(self.i, key)

            class AbsBigEdge:
                def __init__(self, i): self.i = i
                def fvc_getattr(self, it, name): return ModelFn("get_vertices_ids", lambda it_: AbsPath(self.i))
            internal = modeb.SymSeq(n, getter=lambda i: AbsBigEdge(i), name="internal")
            old = z3.Array("x0_", Int, Real)
            x0 = modeb.SymSeq(L, array=old, name="x0")
            F = cls(ctx, "forsys.frames", "Frame")
            M = cls(ctx, "forsys.fmatrix", "ForceMatrix")
            fm = ctx.alloc(M, frame=ctx.alloc(F, internal_big_edges=internal), deletes=modeb.AbsSet(lambda x: flag(x)))
            j = z3.Int("j_")

            def inv(look, k):
                cur, rem = look.kind("seq"), look.kind("map")
                return z3.And(k <= n,
                              z3.ForAll([j], z3.Select(cur.array, j) == z3.If(z3.And(0 <= j, j < k, excl(j)), mark, z3.Select(old, j))),
                              z3.ForAll([j], rem.has(j) == z3.And(0 <= j, j < k, excl(j))),
                              z3.ForAll([j], z3.Implies(rem.has(j), rem.at(j) == z3.Select(old, j))))
            ctx.invariant("forsys.fmatrix:ForceMatrix.get_new_initial_condition", 0, inv)
            res, removed = ctx.list_of(ctx.callm(fm, "get_new_initial_condition", x0, what=what))
            ctx.ensure(res is x0 and ctx.eq(res.length, L), "the list itself, length unchanged")
            p = ctx.int("p")
            ctx.ensure(ctx.Implies(ctx.And(p >= 0, p < L), res.at(p) == z3.If(z3.And(p < n, excl(p)), mark, z3.Select(old, p))),
                       "position p: the mark if it is an excluded interface, else unchanged (entries behind the tensions included)")
            ctx.ensure(removed.has(p) == z3.And(0 <= p, p < n, excl(p)), "remembered: exactly the excluded positions")
            ctx.ensure(ctx.Implies(removed.has(p), removed.at(p) == z3.Select(old, p)), "remembered with the value they had")
        return h
    return [("any-length,what=zero", mk("zero")), ("any-length,what=other", mk("other"))]
