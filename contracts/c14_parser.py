"""C14 - Surface Evolver parser (surface_evolver.py): statement contracts on the record loops of get_vertices,
get_edges, get_cells, get_pressures at token level, and on create_lattice's cell cycles.

Assumed (A-split/regex): str.split() yields the whitespace separated tokens of a record; the first run of digits in a
record line is its leading id token; float()/int() of a numeric token give its value.  Lines are therefore modelled as
token lists: numeric tokens are symbolic, marker words ('density', '\\', '/*area', '-500*/') are real strings.
File layout (section markers, blank lines) and pandas are only exercised by the bounded stand-in B14."""
from fvc.registry import obligation
from fvc import interp as I

SE = "forsys.surface_evolver"


class Tok:
    """a numeric token with a symbolic value"""

    def __init__(self, kind, val):
        self.kind, self.val = kind, val

    def fvc_int(self, it):
        if self.kind != "int":
            raise I.IRaise(ValueError("invalid literal for int()"))
        return self.val

    def fvc_float(self, it):
        from fvc import sym
        return sym.to_real(self.val)

    def fvc_contains(self, it, x):
        return False                      # a number contains no comment marker


class Line:
    def __init__(self, toks):
        self.toks = toks

    def fvc_getattr(self, it, name):
        from fvc.lib import ModelFn
        if name == "split":
            return ModelFn("str.split", lambda it_: list(self.toks))
        raise I.SymError("str." + name)


class Match:
    def __init__(self, tok):
        self.tok = tok

    def fvc_getattr(self, it, name):
        from fvc.lib import ModelFn
        return ModelFn("Match.group", lambda it_: self.tok)


class Re:
    def fvc_getattr(self, it, name):
        from fvc.lib import ModelFn
        return ModelFn("re.search", lambda it_, pat, line: Match(line.toks[0]))


def make_lines(ctx, rows):
    """rows: list of token lists; a token is ('i', name) / ('r', name) for symbolic numbers or a plain string.
    Returns (lines, values) with values[name] the symbolic / concrete number"""
    vals = {}
    lines = []
    for row in rows:
        toks, txt = [], []
        for t in row:
            if isinstance(t, tuple):
                v = ctx.int(t[1]) if t[0] == "i" else ctx.real(t[1])
                vals[t[1]] = v
                toks.append(Tok("int" if t[0] == "i" else "real", v))
                txt.append(repr(v) if t[0] == "r" else str(v))
            else:
                toks.append(t)
                txt.append(t)
        lines.append(Line(toks) if ctx.mode == "sym" else "  " + "   ".join(txt) + "\n")
    return lines, vals


class FakeFile:
    """what `with open(...) as f` yields: only readlines() is used by the record readers"""

    def __init__(self, lines):
        self.lines = lines

    def __enter__(self):
        return self

    def __exit__(self, *a):
        return False

    def fvc_getattr(self, it, name):
        from fvc.lib import ModelFn
        if name == "readlines":
            return ModelFn("file.readlines", lambda it_: list(self.lines))
        raise I.SymError("file." + name)


def run_reader(ctx, method, lines, index, pressures=None):
    """runs the WHOLE reader method (get_vertices / get_edges / get_cells / get_pressures) of a SurfaceEvolver object on the given
    lines; section bounds (get_first_last) and, for get_cells, the pressures are given by contract.  Independent of the names of
    the method's locals."""
    import os
    import tempfile
    from .common import cls, KEEP
    SEc = cls(ctx, SE, "SurfaceEvolver")
    idx = {"get_vertices": 0, "get_edges": 1, "get_cells": 2, "get_pressures": 3}[method]
    bounds = [(0, 0)] * 4
    bounds[idx] = index
    ctx.stub(SE + ":SurfaceEvolver.get_first_last", lambda it, a, k: tuple(bounds), "section boundaries (calculate_first_last: bounded stand-in B14)")
    if pressures is not None:
        ctx.stub(SE + ":SurfaceEvolver.get_pressures", lambda it, a, k: pressures, "callee contract: body records (O14.2/body-records)")
    if ctx.mode == "sym":
        ctx.stub("builtins.open", lambda it, a, k: FakeFile(lines), "A-split/regex: a dump file is the list of its lines")
        ctx.stub("re.search", lambda it, a, k: Match(a[1].toks[0]), "A-split/regex: first digit run of a record = its leading id token")
        se = ctx.alloc(SEc, fname="dump.dmp")
    else:
        f = tempfile.NamedTemporaryFile("w", suffix=".dmp", delete=False)
        f.write("".join(lines))
        f.close()
        KEEP.append(f.name)
        ctx.apply_stubs = True
        ctx.stub(SE + ":SurfaceEvolver.get_first_last", lambda it, a, k: tuple(bounds))
        if pressures is not None:
            ctx.stub(SE + ":SurfaceEvolver.get_pressures", lambda it, a, k: pressures)
        se = ctx.alloc(SEc, fname=f.name)
    out = ctx.callm(se, method)
    if ctx.mode != "sym":
        os.unlink(f.name)
    return out


def run_reader_text(ctx, method, text_lines, index):
    """the same whole-method run on LITERAL record lines (strings): str.split, re and float()/int() are the real ones here, so number
    formats the token model abstracts away (exponent notation, signs, integer-valued coordinates, tabs) are exercised"""
    import os
    import tempfile
    from .common import cls, KEEP
    SEc = cls(ctx, SE, "SurfaceEvolver")
    idx = {"get_vertices": 0, "get_edges": 1}[method]
    bounds = [(0, 0)] * 4
    bounds[idx] = index
    ctx.stub(SE + ":SurfaceEvolver.get_first_last", lambda it, a, k: tuple(bounds), "section boundaries (calculate_first_last: bounded stand-in B14)")
    if ctx.mode == "sym":
        ctx.stub("builtins.open", lambda it, a, k: FakeFile(list(text_lines)), "a dump file is the list of its lines")
        se = ctx.alloc(SEc, fname="dump.dmp")
        return ctx.callm(se, method)
    f = tempfile.NamedTemporaryFile("w", suffix=".dmp", delete=False)
    f.write("".join(text_lines))
    f.close()
    ctx.apply_stubs = True
    ctx.stub(SE + ":SurfaceEvolver.get_first_last", lambda it, a, k: tuple(bounds))
    se = ctx.alloc(SEc, fname=f.name)
    try:
        return ctx.callm(se, method)
    finally:
        os.unlink(f.name)


def col(ctx, df, name):
    if ctx.mode == "sym":
        return list(df.columns[name])
    return df[name].tolist()


def run_loop(ctx, func, pattern, env):
    stmts = ctx.fragment(SE, "SurfaceEvolver." + func, [pattern])
    if ctx.mode == "sym":
        env = dict(env, re=Re())
    return ctx.run_fragment(SE, stmts, env)


@obligation("O14.2", ["C14"], [SE + ":SurfaceEvolver.get_vertices", SE + ":SurfaceEvolver.get_edges", SE + ":SurfaceEvolver.get_pressures"],
            "record loops: a vertex record gives (id, x, y) with coordinates rounded to 3 decimals; an edge record gives (id, v1, v2) and the density "
            "token if one follows the word 'density', else 1 - also for a record of only three tokens; a body record gives (id, token 7)", tier="Pn")
def o14_2(tier):
    def h_vertices(ctx):
        rows = [[("i", "a0"), ("r", "x0"), ("r", "y0")], [("i", "a1"), ("r", "x1"), ("r", "y1"), "fixed"]]
        header = ["vertices", "/*", "coordinates", "*/"]
        lines, v = make_lines(ctx, [header] + rows + [[]])
        for name in ("a0", "a1"):
            ctx.assume(v[name] >= 0, "pre: ids are written without sign")
        df = run_reader(ctx, "get_vertices", lines, (0, 3))
        ids, xs, ys = col(ctx, df, "id"), col(ctx, df, "x"), col(ctx, df, "y")
        ctx.ensure(len(ids) == 2 and ctx.eq(ids[0], v["a0"]) and ctx.eq(ids[1], v["a1"]), "one id per record, in order")
        if ctx.mode == "sym":
            from fvc import sym
            r3 = lambda t: sym.py_round(t, 3)
        else:
            r3 = lambda t: round(t, 3)
        ctx.ensure(ctx.And(ctx.close(xs[0], r3(v["x0"])), ctx.close(ys[0], r3(v["y0"])), ctx.close(xs[1], r3(v["x1"])), ctx.close(ys[1], r3(v["y1"]))), "coordinates = tokens 1 and 2 rounded to three decimals")

    def h_edges(ctx):
        rows = [[("i", "e0"), ("i", "p0"), ("i", "q0"), "density", ("r", "d0")],
                [("i", "e1"), ("i", "p1"), ("i", "q1")],
                [("i", "e2"), ("i", "p2"), ("i", "q2"), "density", ("r", "d2"), "original", ("i", "o2")],
                [("i", "e3"), ("i", "p3"), ("i", "q3"), "fixed"]]
        lines, v = make_lines(ctx, [["edges", "/*", "endpoints", "*/"]] + rows + [[]])
        for k in range(4):
            for nm in (f"e{k}", f"p{k}", f"q{k}"):
                ctx.assume(v[nm] >= 0, "pre: ids are written without sign")
        ctx.assume(v["o2"] >= 0, "pre")
        df = run_reader(ctx, "get_edges", lines, (0, 5))
        ids, id1, id2, fo = (col(ctx, df, k) for k in ("id", "id1", "id2", "force"))
        ctx.ensure(len(ids) == 4, "one edge per record")
        for k in range(4):
            ctx.ensure(ctx.And(ctx.eq(ids[k], v[f"e{k}"]), ctx.eq(id1[k], v[f"p{k}"]), ctx.eq(id2[k], v[f"q{k}"])), f"record {k}: id and the two recorded vertices")
        ctx.ensure(ctx.close(fo[0], v["d0"]) and ctx.close(fo[2], v["d2"]), "density field => that value")
        ctx.ensure(ctx.eq(fo[1], 1) and ctx.eq(fo[3], 1), "no density field (three tokens, or another attribute) => 1")

    def h_text(ctx):
        # literal records as Surface Evolver's %.15g writes them: exponent notation for tiny and huge values, signs, integer-valued numbers
        ctx.real("unused")          # keeps the sampler happy (the instance has no symbolic input)
        vlines = ["vertices        /*  coordinates  */    \n",
                  "  1   173.340016165612  132.347414130987\n",
                  "  2   2.49999999946709e-05 -25.9807617135332\n",
                  " 17   -1.5e+03   4E-4  fixed\n",
                  " 30\t12 -7\n",
                  "\n"]
        df = run_reader_text(ctx, "get_vertices", vlines, (0, 5))
        ids, xs, ys = col(ctx, df, "id"), col(ctx, df, "x"), col(ctx, df, "y")
        ctx.ensure(ids == [1, 2, 17, 30], "literal vertex records: ids")
        want = [(173.34, 132.347), (0.0, -25.981), (-1500.0, 0.0), (12.0, -7.0)]
        ctx.ensure(all(ctx.close(x, w[0]) and ctx.close(y, w[1]) for x, y, w in zip(xs, ys, want)) and len(xs) == 4,
                   "literal vertex records: coordinates are the VALUES of tokens 1 and 2 (exponent notation, signs, integers) rounded to 3 decimals")
        elines = ["edges  \n", "  1       1  304      density 1.001 \n", "  2       2  305\n", " 12  17 30   density 2.5e-01  original 3\n", "  7  30 1 fixed\n", "\n"]
        df = run_reader_text(ctx, "get_edges", elines, (0, 5))
        ids, id1, id2, fo = (col(ctx, df, k) for k in ("id", "id1", "id2", "force"))
        ctx.ensure(ids == [1, 2, 12, 7] and id1 == [1, 2, 17, 30] and id2 == [304, 305, 30, 1], "literal edge records: id and the two recorded vertices")
        ctx.ensure(all(ctx.close(a, b) for a, b in zip(fo, [1.001, 1.0, 0.25, 1.0])) and len(fo) == 4, "literal edge records: density value (also in exponent notation) or 1")

    def h_bodies(ctx):
        rows = [[("i", "b0"), ("i", "f0"), "volume", ("r", "v0"), "/*actual:", "500*/", "lagrange_multiplier", ("r", "m0"), "centerofmass"],
                [("i", "b1"), ("i", "f1"), "volume", ("r", "v1"), "/*actual:", "499.9*/", "lagrange_multiplier", ("r", "m1"), "centerofmass"]]
        lines, v = make_lines(ctx, [["bodies", "/*", "facets", "*/"]] + rows + [[]])
        ctx.assume(ctx.And(v["b0"] >= 0, v["b1"] >= 0, ctx.Not(ctx.eq(v["b0"], v["b1"]))), "pre")
        pr = run_reader(ctx, "get_pressures", lines, (0, 3))
        ctx.ensure(len(ctx.keys(pr)) == 2, "one pressure per body")
        ctx.ensure(ctx.And(ctx.close(ctx.item(pr, v["b0"]), v["m0"]), ctx.close(ctx.item(pr, v["b1"]), v["m1"])), "body id -> its Lagrange multiplier (token 7)")
    return [("vertex-records", h_vertices), ("edge-records", h_edges), ("body-records", h_bodies), ("literal-records,exponent-notation", h_text)]


@obligation("O14.4", ["C14"], [SE + ":SurfaceEvolver.get_cells"],
            "face records: each face yields its id and its signed edge loop in order, whatever the wrapping over continuation lines", tier="Pn")
def o14_4(tier):
    def mk(wrap):
        # wrap: list of faces; a face is a list of line lengths (edge tokens per line)
        def h(ctx):
            rows, want = [], []
            for f, lens in enumerate(wrap):
                es = [("i", f"f{f}e{j}") for j in range(sum(lens))]
                want.append([n for _, n in es])
                pos = 0
                for li, n in enumerate(lens):
                    row = ([("i", f"face{f}")] if li == 0 else []) + es[pos:pos + n]
                    pos += n
                    row += ["\\"] if li < len(lens) - 1 else ["/*area", "-500*/"]
                    rows.append(row)
            lines, v = make_lines(ctx, [["faces", "/*", "edge", "loop", "*/"]] + rows + [[]])
            for f in range(len(wrap)):
                ctx.assume(v[f"face{f}"] >= 0, "pre")
            pvals = [ctx.real(f"pressure{f}") for f in range(len(wrap))]
            df = run_reader(ctx, "get_cells", lines, (0, len(rows) + 1), pressures=ctx.dict([(100 + f, pvals[f]) for f in range(len(wrap))]))
            ids, edges = col(ctx, df, "id"), [ctx.list_of(e) for e in col(ctx, df, "edges")]
            ctx.ensure(ctx.And(*[ctx.close(a, b) for a, b in zip(col(ctx, df, "pressures"), pvals)]) and len(col(ctx, df, "pressures")) == len(wrap), "pressures paired with the faces in order")
            ctx.ensure(len(ids) == len(wrap) and len(edges) == len(wrap), "one cell per face record")
            for f in range(len(wrap)):
                got_id = ids[f]
                if ctx.mode == "sym":
                    ctx.ensure(isinstance(got_id, Tok) and ctx.eq(got_id.val, v[f"face{f}"]), f"face {f}: its id token")
                else:
                    ctx.ensure(int(got_id) == v[f"face{f}"], f"face {f}: its id token")
                ctx.ensure(len(edges[f]) == len(want[f]) and ctx.And(*[ctx.eq(a, v[n]) for a, n in zip(edges[f], want[f])]), f"face {f}: the signed edge loop in order")
        return h
    shapes = {"one-line": [[4]], "two-lines": [[3, 2]], "three-lines": [[2, 2, 1]], "two-faces-mixed": [[3], [2, 3]], "three-faces": [[1, 1, 1], [5], [2, 1]]}
    if tier != "quick":
        shapes.update({"long": [[10, 10, 4]], "comment-alone-on-last-line": [[3, 0]]})
    return [(k, mk(wr)) for k, wr in shapes.items()]


@obligation("O14.6", ["C14", "C09"], [SE + ":SurfaceEvolver.create_lattice"],
            "create_lattice: a cell's cycle is the sequence of tail vertices of its signed edges (first recorded vertex of a positive reference, second of a "
            "negative one)", tier="Pn")
def o14_6(tier):
    def h(ctx):
        stmts = ctx.fragment(SE, "SurfaceEvolver.create_lattice", ["vlist = [edges[abs(e)].v1 if e > 0 else edges[abs(e)].v2 for e in r.edges]"])
        from .common import mk_vertices, cls
        E = cls(ctx, "forsys.edge", "SmallEdge")
        vs = mk_vertices(ctx, [(0.0, 0.0), (1.0, 0.0), (1.0, 1.0)], ids=[4, 9, 6])
        # edges 5: 4->9, 8: 6->9 (stored against the walk), 2: 6->4
        ed = {5: ctx.call(E, 5, vs[0], vs[1]), 8: ctx.call(E, 8, vs[2], vs[1]), 2: ctx.call(E, 2, vs[2], vs[0])}
        edges = ctx.dict(list(ed.items()))

        class R:
            pass
        if ctx.mode == "sym":
            class RS:
                def fvc_getattr(self, it, name):
                    return [5, -8, 2]
            r = RS()
        else:
            r = R()
            r.edges = [5, -8, 2]
        out = ctx.run_fragment(SE, stmts, dict(edges=edges, r=r))
        cyc = [ctx.get(v, "id") for v in ctx.list_of(out["vlist"])]
        ctx.ensure(cyc == [4, 9, 6], "walk 4 -(5)-> 9 -(-8)-> 6 -(2)-> 4: tails 4, 9, 6")
        from .common import KEEP
        KEEP.append(ed)
    return [("triangle-with-a-negative-reference", h)]


@obligation("O14.7", ["C14", "C09"], [SE + ":SurfaceEvolver.create_lattice"],
            "create_lattice: after the cells are built, exactly the vertices and edges that belong to no face are dropped - also an edge a face refers to only "
            "with a negative sign is kept, also a chord between two face vertices is dropped - and the remaining back-references are consistent", tier="Pn")
def o14_7(tier):
    def h(ctx):
        from .common import mk_vertices, cls, stub_center, KEEP
        from fvc.harness import AnchorNotFound
        head = ["cells = {}", "edges_in_cells = set()", "for _, r in self.get_cells().iterrows():"]
        tail = ["for i in vertex_to_delete:", "for e in [e for e in edges if e not in edges_in_cells]:"]
        try:
            stmts = ctx.fragment(SE, "SurfaceEvolver.create_lattice", head + ["vertex_to_delete = []", "for vid, v in vertices.items():"] + tail)
        except AnchorNotFound:
            stmts = ctx.fragment(SE, "SurfaceEvolver.create_lattice", head + ["vertex_to_delete = ["] + tail)      # selection written as a comprehension
        stub_center(ctx)
        E = cls(ctx, "forsys.edge", "SmallEdge")
        ids = [4, 9, 6, 77, 78]
        vs = mk_vertices(ctx, [(ctx.real(f"x{i}"), ctx.real(f"y{i}")) for i in ids], ids=ids)
        V = dict(zip(ids, vs))
        # face walk 4 -(5)-> 9 -(-8)-> 6 -(2)-> 4 : edge 8 is stored against the walk and referenced ONLY negatively
        spec = {5: (4, 9), 8: (6, 9), 2: (6, 4), 11: (4, 9), 12: (9, 77)}      # 11: second (chord-like) edge in no face, 12: dangling edge to an orphan
        vertices = ctx.dict([(i, V[i]) for i in ids])
        edges = ctx.dict()
        for eid, (a, b) in spec.items():
            if ctx.mode == "sym":
                ctx.it.dict_set(edges, eid, ctx.call(E, eid, V[a], V[b]))
            else:
                edges[eid] = ctx.call(E, eid, V[a], V[b])      # no other reference: `del edges[k]` must finalise the edge (A-gc)
        pressure = ctx.real("p")
        if ctx.mode == "sym":
            from fvc.lib import ModelFn
            from fvc import interp as II

            class Row:
                def fvc_getattr(self, it, name):
                    return {"edges": [5, -8, 2], "id": 3}[name]

                def fvc_getitem(self, it, key):
                    return pressure

            class DF:
                def fvc_getattr(self, it, name):
                    return ModelFn("iterrows", lambda it_: [(0, Row())])

            # the reader object itself is a real (allocated) SurfaceEvolver that outlives the call - whatever the method stores on it
            # stays referenced; only its table of face records is given
            ctx.stub(SE + ":SurfaceEvolver.get_cells", lambda it_, a, k: DF(), "face records as a table (pandas, A-pandas): given")
            me = ctx.alloc(cls(ctx, SE, "SurfaceEvolver"))
        else:
            pd = ctx.module("pandas")
            SEC = cls(ctx, SE, "SurfaceEvolver")

            class Self(SEC):
                def get_cells(self_):
                    return pd.DataFrame({"id": [3], "edges": [[5, -8, 2]], "pressures": [pressure]})
            me = object.__new__(Self)
            KEEP.append(me)
        out = ctx.run_fragment(SE, stmts, dict(vertices=vertices, edges=edges, self=me))
        ek, vk = ctx.keys(out["edges"]), ctx.keys(out["vertices"])
        ctx.ensure(sorted(ek) == [2, 5, 8], "edges kept = the face's edges (incl. the one referenced only as -8); chord 11 and dangling 12 dropped")
        ctx.ensure(sorted(vk) == [4, 6, 9], "vertices kept = the face's vertices; orphans 77, 78 dropped")
        want = {4: [2, 5], 9: [5, 8], 6: [2, 8]}
        for vid in (4, 9, 6):
            ctx.ensure(sorted(ctx.list_of(ctx.get(ctx.item(out["vertices"], vid), "ownEdges"))) == want[vid], f"vertex {vid} lists exactly its remaining edges")
        cyc = [ctx.get(v, "id") for v in ctx.list_of(ctx.get(ctx.item(out["cells"], 3), "vertices"))]
        ctx.ensure(cyc == [4, 9, 6], "cell cycle = tail vertices of the signed loop")
        if ctx.mode != "sym":
            KEEP.append(out)
    return [("triangle+chord+dangling+orphans", h)]
