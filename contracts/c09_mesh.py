"""C09 (C11) - atomic mutators of the vertex/edge/cell back-references (vertex.py, edge.py, cell.py) and
join_two_vertices / get_unused_id (virtual_edges.py).  The composite editors (generate_mesh, the parsers) are only
covered by the bounded stand-in B09."""
from fvc.registry import obligation
from .common import cls, mk_vertices, mk_mesh, stub_center

V = "forsys.vertex:Vertex."


def member(ctx, lst, x):
    return ctx.Or(*[ctx.eq(e, x) for e in lst]) if lst else False


def count(ctx, lst, x):
    return sum((ctx.ite(ctx.eq(e, x), 1, 0) for e in lst), 0)


@obligation("O09.1", ["C09"], [V + "add_edge", V + "add_cell", V + "add_big_edge"],
            "Vertex.add_*: appends the id iff it is absent and says so; existing entries and their order are kept; never creates a duplicate")
def o09_1(tier):
    def mk(method, field, n):
        def h(ctx):
            Vc = cls(ctx, "forsys.vertex", "Vertex")
            old = [ctx.int(f"e{i}") for i in range(n)]
            ctx.distinct(old)
            new = ctx.int("new")
            v = ctx.call(Vc, 1, 0.0, 0.0)
            ctx.set(v, field, list(old))
            r = ctx.callm(v, method, new)
            now = ctx.list_of(ctx.get(v, field))
            present = member(ctx, old, new)
            ctx.ensure(ctx.eq(r, ctx.Not(present)), "returns True iff the id was absent")
            ctx.ensure(len(now) >= n and ctx.And(*[ctx.eq(a, b) for a, b in zip(now, old)]), "existing entries kept in order")
            ctx.ensure(ctx.ite(present, len(now) == n, len(now) == n + 1 and ctx.eq(now[-1], new)), "appended at the end iff absent")
        return h
    return [(f"{meth},n={n}", mk(meth, field, n)) for meth, field in (("add_edge", "ownEdges"), ("add_cell", "ownCells"), ("add_big_edge", "own_big_edges")) for n in (0, 1, 3)]


@obligation("O09.2", ["C09"], [V + "remove_edge", V + "remove_cell"],
            "Vertex.remove_*: removes exactly one occurrence of the id, keeps the others in order; raises ValueError when it is not listed")
def o09_2(tier):
    def mk(method, field, n):
        def h(ctx):
            Vc = cls(ctx, "forsys.vertex", "Vertex")
            old = [ctx.int(f"e{i}") for i in range(n)]
            ctx.distinct(old)
            x = ctx.int("x")
            v = ctx.call(Vc, 1, 0.0, 0.0)
            ctx.set(v, field, list(old))
            exc = ctx.raises(lambda: ctx.callm(v, method, x), ValueError)
            now = ctx.list_of(ctx.get(v, field))
            if exc is not None:
                ctx.ensure(ctx.Not(member(ctx, old, x)), "ValueError only if the id is not listed")
                ctx.ensure(len(now) == n, "list unchanged on error")
            else:
                ctx.ensure(member(ctx, old, x), "no error only if the id was listed")
                ctx.ensure(len(now) == n - 1 and ctx.Not(member(ctx, now, x)), "the id is gone")
                ctx.ensure(ctx.And(*[member(ctx, now, e) for e in old if e is not x] ) if False else True, "-")
                rest = [e for e in old]
                ctx.ensure(ctx.And(*[ctx.Or(ctx.eq(e, x), member(ctx, now, e)) for e in rest]), "every other id is still listed")
        return h
    return [(f"{meth},n={n}", mk(meth, field, n)) for meth, field in (("remove_edge", "ownEdges"), ("remove_cell", "ownCells")) for n in (0, 1, 3)]


@obligation("O09.3", ["C09"], ["forsys.edge:SmallEdge.__post_init__", "forsys.edge:SmallEdge.__del__", "forsys.edge:SmallEdge.replace_vertex"],
            "SmallEdge: construction registers the edge id on exactly its two end vertices (same vertex twice is rejected); __del__ unregisters it; "
            "replace_vertex moves the registration from the old end to the new one and leaves the other end alone")
def o09_3(tier):
    def h_ctor(ctx):
        E = cls(ctx, "forsys.edge", "SmallEdge")
        ids = [ctx.int("a"), ctx.int("b")]
        eid, other = ctx.int("eid"), ctx.int("other")
        ctx.assume(ctx.Not(ctx.eq(eid, other)), "pre")
        vs = mk_vertices(ctx, [(0.0, 0.0), (1.0, 0.0)], ids=ids)
        for v in vs:
            ctx.set(v, "ownEdges", [other])
        kept = []       # natively an unreferenced SmallEdge is finalised at once and unregisters itself (A-gc)
        exc = ctx.raises(lambda: kept.append(ctx.call(E, eid, vs[0], vs[1])), AssertionError)
        if exc is not None:
            ctx.ensure(ctx.eq(ids[0], ids[1]), "rejected only when both ends have the same id")
            return
        ctx.ensure(ctx.Not(ctx.eq(ids[0], ids[1])), "accepted only for two different ends")
        for v in vs:
            oe = ctx.list_of(ctx.get(v, "ownEdges"))
            ctx.ensure(len(oe) == 2 and ctx.eq(oe[0], other) and ctx.eq(oe[1], eid), "end vertex lists the new edge once, after its old entries")
        from .common import KEEP
        KEEP.extend(kept)

    def h_del(ctx):
        E = cls(ctx, "forsys.edge", "SmallEdge")
        vs = mk_vertices(ctx, [(0.0, 0.0), (1.0, 0.0), (2.0, 0.0)], ids=[4, 9, 6])
        e1 = ctx.call(E, 70, vs[0], vs[1])
        e2 = ctx.call(E, 71, vs[1], vs[2])
        ctx.callm(e1, "__del__")
        ctx.ensure(ctx.list_of(ctx.get(vs[0], "ownEdges")) == [] and ctx.list_of(ctx.get(vs[1], "ownEdges")) == [71] and ctx.list_of(ctx.get(vs[2], "ownEdges")) == [71],
                   "__del__ removes the edge id from its two ends and nothing else")
        ctx.callm(e1, "__del__")
        ctx.ensure(ctx.list_of(ctx.get(vs[1], "ownEdges")) == [71], "a second __del__ is harmless")
        if ctx.mode != "sym":
            ctx.set(e1, "verticesArray", [])      # keep CPython's own finaliser from running the same code again

    def h_replace(which):
        def h(ctx):
            E = cls(ctx, "forsys.edge", "SmallEdge")
            vs = mk_vertices(ctx, [(0.0, 0.0), (1.0, 0.0), (2.0, 0.0)], ids=[4, 9, 6])
            e1 = ctx.call(E, 70, vs[0], vs[1])
            e2 = ctx.call(E, 71, vs[1], vs[2]) if which == 1 else None
            old, keep = (vs[0], vs[1]) if which == 0 else (vs[1], vs[0])
            new = mk_vertices(ctx, [(5.0, 5.0)], ids=[33])[0]
            ctx.callm(e1, "replace_vertex", old, new)
            ends = [ctx.get(ctx.get(e1, "v1"), "id"), ctx.get(ctx.get(e1, "v2"), "id")]
            ctx.ensure(ends == ([33, 9] if which == 0 else [4, 33]), "the old end is replaced in place")
            ctx.ensure([ctx.get(x, "id") for x in ctx.list_of(ctx.get(e1, "verticesArray"))] == ends, "verticesArray mirrors v1/v2")
            ctx.ensure(70 not in ctx.list_of(ctx.get(old, "ownEdges")) and ctx.list_of(ctx.get(new, "ownEdges")) == [70], "registration moved to the new vertex")
            ctx.ensure(ctx.list_of(ctx.get(keep, "ownEdges")).count(70) == 1, "the other end still lists the edge once")
        return h
    return [("constructor", h_ctor), ("destructor", h_del), ("replace-first-end", h_replace(0)), ("replace-second-end", h_replace(1))]


@obligation("O09.7", ["C09", "C11"], ["forsys.cell:Cell.__post_init__", "forsys.cell:Cell.__del__", "forsys.cell:Cell.replace_vertex"],
            "Cell: construction registers the cell id on exactly the vertices of its cycle, __del__ unregisters it; replace_vertex puts the new vertex where the "
            "old one was (or just drops the old one if the new one is already in the cycle), registers the cell on the new vertex")
def o09_7(tier):
    def h_ctor(ctx):
        C = cls(ctx, "forsys.cell", "Cell")
        stub_center(ctx)
        vs = mk_vertices(ctx, [(0.0, 0.0), (1.0, 0.0), (1.0, 1.0), (0.0, 1.0), (9.0, 9.0)], ids=[4, 9, 6, 2, 8])
        c = ctx.call(C, 55, vs[:4])
        ctx.ensure(all(ctx.list_of(ctx.get(v, "ownCells")) == [55] for v in vs[:4]) and ctx.list_of(ctx.get(vs[4], "ownCells")) == [], "registered on exactly the cycle's vertices")
        ctx.callm(c, "__del__")
        ctx.ensure(all(ctx.list_of(ctx.get(v, "ownCells")) == [] for v in vs), "__del__ unregisters it")
        if ctx.mode != "sym":
            ctx.set(c, "vertices", [])

    def h_replace(new_in_cycle, n=4, at=1):
        def h(ctx):
            C = cls(ctx, "forsys.cell", "Cell")
            stub_center(ctx)
            ids = [4, 9, 6, 2, 7][:n] + [8]
            vs = mk_vertices(ctx, [(0.0, 0.0), (1.0, 0.0), (1.0, 1.0), (0.0, 1.0), (-1.0, 0.5)][:n] + [(9.0, 9.0)], ids=ids)
            c = ctx.call(C, 55, vs[:n])
            old = vs[at]
            new = vs[(at + 1) % n] if new_in_cycle else vs[n]
            ctx.callm(c, "replace_vertex", old, new)
            cyc = [ctx.get(v, "id") for v in ctx.list_of(ctx.get(c, "vertices"))]
            want = [i for i in ids[:n] if i != ids[at]] if new_in_cycle else [8 if i == ids[at] else i for i in ids[:n]]
            ctx.ensure(cyc == want, "cycle: new vertex at the old one's place / old one dropped (whatever the size of the cell)")
            ctx.ensure(ctx.list_of(ctx.get(new, "ownCells")).count(55) == 1, "the new vertex lists the cell exactly once")
            ctx.ensure(len(set(cyc)) == len(cyc), "no vertex repeated")
            if ctx.mode != "sym":
                ctx.callm(old, "remove_cell", 55)        # the caller's duty (join_two_vertices deletes the old vertex)
        return h
    out = [("constructor-destructor", h_ctor), ("replace,new-outside", h_replace(False)), ("replace,new-already-in-cycle", h_replace(True))]
    out += [(f"replace,n={n},at={at},{'new-already-in-cycle' if inc else 'new-outside'}", h_replace(inc, n, at)) for n in (3, 5) for at in (0, n - 1) for inc in (False, True)]
    return out


@obligation("O11.6", ["C11", "C09", "C07"], ["forsys.virtual_edges:get_unused_id"],
            "get_unused_id returns a key that is not in the dictionary (for arbitrary, also non-contiguous, integer keys)")
def o11_6(tier):
    def mk(n):
        def h(ctx):
            ve = ctx.module("forsys.virtual_edges")
            keys = [ctx.int(f"k{i}") for i in range(n)]
            ctx.distinct(keys)
            for kx in keys:
                ctx.assume(ctx.And(kx >= 0, kx <= n + 2), "pre: keys within a window that makes collisions with len(d)+i likely")
            d = ctx.dict([(kx, "value") for kx in keys])
            r = ctx.call(ctx.get(ve, "get_unused_id"), d)
            ctx.ensure(ctx.Not(member(ctx, keys, r)), "fresh key")
        return h
    return [(f"n={n}", mk(n)) for n in (0, 1, 2, 3, 4)]


def _wf(ctx, vertices, edges, cells, label):
    """mesh consistency, phrased over the three dictionaries as the repo returns them"""
    vd = dict(ctx.list_of(vertices))
    ed = dict(ctx.list_of(edges))
    cd = dict(ctx.list_of(cells))
    ends = {vid: [] for vid in vd}
    ok_ends = True
    for eid, e in ed.items():
        ctx.ensure(ctx.eq(ctx.get(e, "id"), eid), f"{label}: edge {eid} stored under its own id")
        for v in (ctx.get(e, "v1"), ctx.get(e, "v2")):
            vid = ctx.get(v, "id")
            if vid not in vd or vd[vid] is not v:
                ok_ends = False
            else:
                ends[vid].append(eid)
    ctx.ensure(ok_ends, f"{label}: every mesh edge joins two vertices of the vertex dictionary (the same objects)")
    for vid, v in vd.items():
        ctx.ensure(sorted(ctx.list_of(ctx.get(v, "ownEdges"))) == sorted(ends[vid]), f"{label}: vertex {vid} lists exactly the mesh edges ending at it")
        mine = sorted(cid for cid, c in cd.items() if any(w is v for w in ctx.list_of(ctx.get(c, "vertices"))))
        ctx.ensure(sorted(ctx.list_of(ctx.get(v, "ownCells"))) == mine, f"{label}: vertex {vid} lists exactly the cells whose cycle contains it")
    joined = {frozenset((ctx.get(ctx.get(e, "v1"), "id"), ctx.get(ctx.get(e, "v2"), "id"))) for e in ed.values()}
    for cid, c in cd.items():
        cyc = [ctx.get(w, "id") for w in ctx.list_of(ctx.get(c, "vertices"))]
        ctx.ensure(len(cyc) >= 3 and len(set(cyc)) == len(cyc), f"{label}: cell {cid} is a cycle of at least three distinct vertices")
        ctx.ensure(all(frozenset((a, b)) in joined for a, b in zip(cyc, cyc[1:] + cyc[:1])), f"{label}: consecutive vertices of cell {cid} are joined by a mesh edge")
        ctx.ensure(all(w in vd for w in cyc), f"{label}: cell {cid} uses vertices of the dictionary")
    pos = {vid: (ctx.get(v, "x"), ctx.get(v, "y")) for vid, v in vd.items()}
    cyc = {cid: [ctx.get(w, "id") for w in ctx.list_of(ctx.get(c, "vertices"))] for cid, c in cd.items()}
    pairs = sorted(sorted((ctx.get(ctx.get(e, "v1"), "id"), ctx.get(ctx.get(e, "v2"), "id"))) for e in ed.values())
    return pos, cyc, pairs          # plain data only: the harness keeps no reference to a mesh object


@obligation("O09.8", ["C09", "C11"], ["forsys.virtual_edges:generate_mesh", "forsys.virtual_edges:create_edges_new"],
            "generate_mesh as a whole on small tissues with symbolic coordinates: the returned mesh is consistent (back-references both ways, "
            "cell cycles joined by mesh edges), junctions and interface end points keep id and position, every long interface has ne+1 points "
            "taken in order from its own points, short ones are copied, and a second pass with the same ne changes nothing", tier="Pn")
def o09_8(tier):
    from .shapes import SHAPES, vertex_ids

    def two_cells(k):
        """two cells glued along one interface: three interfaces join the same two junctions P, Q, all with k interior points"""
        P, Q = 40, 41
        sh, a, b = [300 + j for j in range(k)], [400 + j for j in range(k)], [500 + j for j in range(k)]
        cycles = {8: [P] + a + [Q] + sh[::-1], 2: [P] + sh + [Q] + b[::-1]}
        return cycles, dict(internal=[], external=[[P] + sh + [Q], [P] + a + [Q], [P] + b + [Q]], detached=[])

    def with_detached(k):
        """tri_star plus a cell that touches nothing (no junction on it): the resampling has no interface to keep for it"""
        cycles, info = SHAPES["tri_star"](k)
        cycles = dict(cycles)
        cycles[66] = [601, 602, 603, 604]
        return cycles, dict(info, detached=[66])
    LOCAL = {"two_cells": two_cells, "tri_star+detached": with_detached}

    def mk(shape, k, ne):
        def h(ctx):
            cycles, info = LOCAL[shape](k) if shape in LOCAL else SHAPES[shape](k)
            coords = {vid: (ctx.real(f"x{vid}"), ctx.real(f"y{vid}")) for vid in vertex_ids(cycles)}
            m = mk_mesh(ctx, coords, cycles)
            gm = ctx.get(ctx.module("forsys.virtual_edges"), "generate_mesh")
            v1, e1, c1, be1 = ctx.list_of(ctx.call(gm, m.vertices, m.edges, m.cells, ne=ne, replace_short_edges=False))
            pos, cyc, pairs = _wf(ctx, v1, e1, c1, "first pass")
            paths = info["internal"] + info["external"]
            got = [ctx.list_of(p) for p in ctx.list_of(be1)]
            ctx.ensure(len(got) == len(paths), "one resampled interface per interface of the tissue")
            for p in paths:
                want = min(len(p), ne + 1)
                hit = [g for g in got if (g[0], g[-1]) in ((p[0], p[-1]), (p[-1], p[0])) and set(g) <= set(p) and len(g) == want]
                ctx.ensure(len(hit) == 1, f"interface {p[0]}..{p[-1]} ({len(p)} points): resampled once, to {want} of its own points")
                if len(hit) != 1:
                    continue
                g = hit[0] if hit[0][0] == p[0] else hit[0][::-1]
                idx = [p.index(x) for x in g]
                ctx.ensure(idx == sorted(idx) and len(set(idx)) == len(idx), f"interface {p[0]}..{p[-1]}: its points in their original order")
            keep = {p[0] for p in paths} | {p[-1] for p in paths}
            for vid in sorted(keep):
                ctx.ensure(vid in pos and ctx.And(ctx.eq(pos[vid][0], coords[vid][0]), ctx.eq(pos[vid][1], coords[vid][1])),
                           f"junction / end point {vid} keeps id and position")
            detached = info.get("detached", [])
            ctx.ensure(sorted(cyc) == sorted(c for c in cycles if c not in detached), "no cell with a junction is lost; a cell touching nothing is dropped as a whole")
            ctx.ensure(not any(v in pos for c in detached for v in cycles[c]), "nothing of a dropped cell is left behind")
            # second pass: nothing changes
            v2, e2, c2, be2 = ctx.list_of(ctx.call(gm, v1, e1, c1, ne=ne, replace_short_edges=False))
            pos2, cyc2, pairs2 = _wf(ctx, v2, e2, c2, "second pass")
            ctx.ensure(sorted(pos2) == sorted(pos), "second pass: same vertices")
            ctx.ensure(cyc2 == cyc, "second pass: same cell cycles")
            ctx.ensure(pairs2 == pairs, "second pass: same mesh edges")
        return h
    fam = [("tri_star", 3, 2), ("tri_star_ear", 2, 2), ("double_y", 4, 3), ("two_cells", 4, 2), ("tri_star+detached", 2, 2)] if tier == "quick" else \
          [("tri_star", 3, 2), ("two_cells", 4, 2), ("two_cells", 2, 3), ("tri_star+detached", 2, 2), ("tri_star", 6, 4), ("tri_star_ear", 2, 2), ("tri_star_ear", 4, 3), ("tri_star_two_ears", 3, 2), ("double_y", 4, 3),
           ("four_fold", 3, 2), ("border_fan", 3, 2), ("tri_star_ear~v2", 3, 2), ("double_y~v1", 3, 2)]
    return [(f"{s},k={k},ne={ne}", mk(s, k, ne)) for s, k, ne in fam]
