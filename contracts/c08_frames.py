"""C08 (C07) - decomposition into interfaces: create_edges_new / get_partition / get_border_edge (virtual_edges.py),
Frame.__post_init__ and its lookups (frames.py), BigEdge.__post_init__ (edge.py)."""
import itertools
from fvc.registry import obligation
from .common import cls, mk_vertices
from .c02_matrix import build
from .shapes import SHAPES, same_path

VE = "forsys.virtual_edges:"


@obligation("O08.2", ["C08", "C07"], [VE + "create_edges_new", VE + "get_partition"],
            "per cell: a cycle with junctions at positions p_0<...<p_k-1 yields exactly the k paths cycle[p_i..p_i+1] (inclusive, cyclic), "
            "nothing for a cycle without junction - for symbolic (arbitrary, distinct) vertex ids; exhaustive over all junction patterns of cycles of length 3..7 (thorough: ..9)",
            tier="Pn")
def o08_2(tier):
    def mk(n, patterns):
        def h(ctx):
            V = cls(ctx, "forsys.vertex", "Vertex")
            C = cls(ctx, "forsys.cell", "Cell")
            ve = ctx.module("forsys.virtual_edges")
            ids = [ctx.int(f"id{i}") for i in range(n)]
            ctx.distinct(ids)
            for flags in patterns:
                vs = []
                for i in range(n):
                    v = ctx.alloc(V, id=ids[i], x=0.0, y=0.0, ownEdges=[900 + i, 901 + i] + ([950 + i] if flags[i] else []), ownCells=[1], own_big_edges=[])
                    vs.append(v)
                cell = ctx.alloc(C, id=1, vertices=vs)
                vd = ctx.dict()
                for i in range(n):
                    if ctx.mode == "sym":
                        ctx.it.dict_set(vd, ids[i], vs[i])
                    else:
                        vd[ids[i]] = vs[i]
                got = [ctx.list_of(e) for e in ctx.list_of(ctx.call(ctx.get(ve, "create_edges_new"), vd, ctx.dict([(1, cell)])))]
                if ctx.mode != "sym":
                    ctx.set(cell, "vertices", [])      # nothing for CPython's finaliser of the hand-made Cell to unregister
                pos = [i for i in range(n) if flags[i]]
                want = []
                for a, p in enumerate(pos):
                    q = pos[(a + 1) % len(pos)]
                    path = [ids[(p + t) % n] for t in range(((q - p) % n or n) + 1)]
                    want.append(path)
                # de-duplication may drop a path that equals another one or its reverse (a 2-junction cycle with equal halves cannot occur with distinct ids)
                ctx.ensure(len(got) == len(want), f"{flags}: one path per junction of the cycle")
                for w in want:
                    ctx.ensure(ctx.Or(*[ctx.And(len(g) == len(w), ctx.And(*[ctx.eq(a, b) for a, b in zip(g, w)])) for g in got]) if got else False,
                               f"{flags}: path starting at position {ids.index(w[0])} is produced")
        return h
    out = []
    for n in (range(3, 8) if tier == "quick" else range(3, 10)):
        pats = list(itertools.product([False, True], repeat=n))
        chunk = 16
        for c in range(0, len(pats), chunk):
            out.append((f"n={n},patterns={c}-{min(c + chunk, len(pats)) - 1}", mk(n, pats[c:c + chunk])))
    return out


@obligation("O08.3", ["C08", "C07"], [VE + "create_edges_new"],
            "an interface listed by both of its cells (once per direction) is kept once; first occurrence wins", tier="Pn")
def o08_3(tier):
    def h(ctx):
        V = cls(ctx, "forsys.vertex", "Vertex")
        C = cls(ctx, "forsys.cell", "Cell")
        ve = ctx.module("forsys.virtual_edges")
        ids = [ctx.int(f"id{i}") for i in range(8)]
        ctx.distinct(ids)
        # two quadrilaterals sharing the path 0-1-2 ; junctions at 0 and 2
        deg = {0: 3, 2: 3}
        vs = [ctx.alloc(V, id=ids[i], x=0.0, y=0.0, ownEdges=list(range(deg.get(i, 2))), ownCells=[], own_big_edges=[]) for i in range(8)]
        vd = ctx.dict()
        for i in range(8):
            if ctx.mode == "sym":
                ctx.it.dict_set(vd, ids[i], vs[i])
            else:
                vd[ids[i]] = vs[i]
        c1 = ctx.alloc(C, id=1, vertices=[vs[0], vs[1], vs[2], vs[3], vs[4]])
        c2 = ctx.alloc(C, id=2, vertices=[vs[2], vs[1], vs[0], vs[5], vs[6], vs[7]])
        got = [ctx.list_of(e) for e in ctx.list_of(ctx.call(ctx.get(ve, "create_edges_new"), vd, ctx.dict([(1, c1), (2, c2)])))]
        if ctx.mode != "sym":
            ctx.set(c1, "vertices", [])
            ctx.set(c2, "vertices", [])
        ctx.ensure(len(got) == 3, "shared interface listed once: 3 interfaces in total")
        ctx.ensure(ctx.And(*[ctx.eq(a, b) for a, b in zip(got[0], [ids[0], ids[1], ids[2]])]) and len(got[0]) == 3, "first occurrence (first cell's direction) is the one kept")
    return [("two-cells-shared-path", h)]


@obligation("O08.4", ["C08", "C07", "C14", "C04"], ["forsys.frames:Frame.__post_init__", "forsys.edge:BigEdge.__post_init__", VE + "get_border_edge",
                                            "forsys.frames:Frame.get_external_edges_ids", "forsys.frames:Frame.get_big_edge_by_cells", "forsys.frames:Frame.get_big_edges"],
            "frame construction on concrete topologies: interfaces = the maximal junction-to-junction paths, each once; the three copies of the "
            "internal/external predicate agree and equal the statement's; internal interfaces separate exactly two cells; mesh-edge lists follow the path; "
            "lookup by the two cells returns the interface", tier="Pn")
def o08_4(tier):
    def mk(shape, k):
        def h(ctx):
            m, fr, cycles, info, _ = build(ctx, shape, k)
            bel = [ctx.list_of(e) for e in ctx.list_of(ctx.get(fr, "big_edges_list"))]
            want = info["internal"] + info["external"]
            ctx.ensure(len(bel) == len(want), "number of interfaces")
            for w in want:
                ctx.ensure(sum(1 for e in bel if same_path(e, w)) == 1, f"path {w[0]}..{w[-1]} listed exactly once (either direction)")
            bes = ctx.get(fr, "big_edges")
            ext_ids = ctx.list_of(ctx.callm(fr, "get_external_edges_ids"))
            internal_objs = ctx.list_of(ctx.get(fr, "internal_big_edges"))
            internal_ids = [ctx.get(b, "big_edge_id") for b in internal_objs]
            ibv = [ctx.list_of(e) for e in ctx.list_of(ctx.get(fr, "internal_big_edges_vertices"))]
            ctx.ensure(ibv == [bel[i] for i in internal_ids], "internal_big_edges and internal_big_edges_vertices are the same interfaces in the same order")
            ctx.ensure(internal_ids == sorted(internal_ids), "internal interfaces in frame order")
            non_ext = [b for b in ctx.list_of(ctx.callm(fr, "get_big_edges", False))]
            ctx.ensure([ctx.get(b, "big_edge_id") for b in non_ext] == internal_ids, "get_big_edges(use_all=False) = internal interfaces")
            for i, e in enumerate(bel):
                be = ctx.item(bes, i)
                is_int = any(same_path(e, w) for w in info["internal"])
                ctx.ensure(ctx.get(be, "big_edge_id") == i and ctx.list_of(ctx.callm(be, "get_vertices_ids")) == e, f"big_edges[{i}] wraps big_edges_list[{i}]")
                ctx.ensure(ctx.get(be, "external") == (not is_int), f"interface {i}: BigEdge.external matches the statement's predicate")
                ctx.ensure((i in ext_ids) == (not is_int) and (i in internal_ids) == is_int, f"interface {i}: frame-level classification agrees")
                want_edges = [m.edge_of[(min(a, b), max(a, b))] for a, b in zip(e, e[1:])]
                ctx.ensure(ctx.list_of(ctx.get(be, "edges")) == want_edges, f"interface {i}: its mesh edges, in path order")
                if is_int:
                    key = [w for w in info["internal"] if same_path(w, e)][0]
                    c1, c2 = info["cells_of"][tuple(key)]
                    ctx.ensure(sorted(ctx.list_of(ctx.get(be, "own_cells"))) == sorted([c1, c2]), f"internal interface {i} separates exactly its two cells")
                    if len(e) > 2:
                        first = ctx.list_of(ctx.get(be, "own_cells"))[0]
                        cyc = cycles[first]
                        dbl = cyc + cyc
                        fwd = any(dbl[s:s + len(e)] == e for s in range(len(cyc)))
                        ctx.ensure(fwd, f"internal interface {i} runs in the stored direction of its first listed cell (the convention the pressure row's sign rule relies on)")
                        got = ctx.callm(fr, "get_big_edge_by_cells", c1, c2)
                        ctx.ensure(ctx.get(got, "big_edge_id") == i, f"lookup by cells ({c1},{c2}) returns interface {i}")
                        got = ctx.callm(fr, "get_big_edge_by_cells", c2, c1)
                        ctx.ensure(ctx.get(got, "big_edge_id") == i, f"lookup by cells ({c2},{c1}) returns interface {i}")
        return h
    from .shapes import BASE_SHAPES
    out = [(f"{s},k={k}", mk(s, k)) for s in BASE_SHAPES for k in ((0, 2) if tier == "quick" else (0, 1, 2, 5, 15))]
    out += [(f"{s},k=1", mk(s, 1)) for s in SHAPES if "~v" in s and (tier != "quick" or s.endswith(("~v1", "~v2")))]
    return out


def column(ctx, df, name):
    if ctx.mode == "sym":
        return list(df.columns[name])
    return df[name].tolist()


@obligation("O08.5", ["C08", "C10"], ["forsys.frames:Frame.get_tensions", "forsys.frames:Frame.get_gt_tensions", "forsys.frames:Frame.get_pressures",
                                     "forsys.frames:Frame.get_external_edges_ids"],
            "result tables: get_tensions() lists exactly the internal interfaces, in frame order, each with its own stored tension and reference value; "
            "with_border=True lists every interface; get_pressures() lists every cell with its own pressure", tier="Pn")
def o08_5(tier):
    def mk(shape):
        def h(ctx):
            m, fr, cycles, info, _ = build(ctx, shape, 1)
            tens, gts = {}, {}
            for beid, be in ctx.list_of(ctx.get(fr, "big_edges")):
                tens[beid], gts[beid] = ctx.real(f"T{beid}"), ctx.real(f"G{beid}")
                ctx.set(be, "tension", tens[beid])
                ctx.set(be, "gt", gts[beid])
            pres = {}
            for cid in cycles:
                pres[cid] = ctx.real(f"P{cid}")
                ctx.set(m.c[cid], "pressure", pres[cid])
            internal_ids = [ctx.get(b, "big_edge_id") for b in ctx.list_of(ctx.get(fr, "internal_big_edges"))]
            for with_border, ids in ((False, internal_ids), (True, sorted(tens))):
                df = ctx.callm(fr, "get_tensions", with_border)
                ctx.ensure([int(x) for x in column(ctx, df, "id")] == ids, f"with_border={with_border}: ids listed = {'all' if with_border else 'internal'} interfaces in order")
                ctx.ensure(ctx.And(*[ctx.close(a, tens[i]) for a, i in zip(column(ctx, df, "stress"), ids)]), f"with_border={with_border}: each row carries that interface's tension")
                ctx.ensure(ctx.And(*[ctx.close(a, gts[i]) for a, i in zip(column(ctx, df, "gt"), ids)]), f"with_border={with_border}: and its reference value")
            g = ctx.callm(fr, "get_gt_tensions", False)
            ctx.ensure([int(x) for x in column(ctx, g, "id")] == internal_ids, "get_gt_tensions: internal interfaces in order")
            p = ctx.callm(fr, "get_pressures")
            ctx.ensure([int(x) for x in column(ctx, p, "id")] == list(cycles), "get_pressures: every cell, in dictionary order")
            ctx.ensure(ctx.And(*[ctx.close(a, pres[c]) for a, c in zip(column(ctx, p, "pressure"), cycles)]), "each cell with its own pressure")
        return h
    return [(s, mk(s)) for s in ("tri_star", "border_fan", "tri_star_ear~v2")]
