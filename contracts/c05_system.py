"""C05 (C01, C03) - the augmented system: ForceMatrix.add_mean_one / add_mean_one_before (fmatrix.py) for symbolic
matrices of concrete shape, and GeneralMatrix.add_lagrange_multiplier (general_matrix.py) for C04."""
from fvc.registry import obligation
from .common import cls


def sym_matrix(ctx, name, r, c):
    rows = [[ctx.real(f"{name}_{i}_{j}") for j in range(c)] for i in range(r)]
    if ctx.mode == "sym":
        from fvc import npmodel
        return npmodel.asarray(rows) if r and c else npmodel.zeros((r, c)), rows
    np_ = ctx.module("numpy")
    return np_.array(rows, dtype=float).reshape(r, c), rows


def fm_with_matrix(ctx, M):
    FM = cls(ctx, "forsys.fmatrix", "ForceMatrix")
    return ctx.alloc(FM, matrix=M, externals_to_use=[])


def rows_of(ctx, A):
    return [ctx.list_of(r) for r in ctx.list_of(A)]


SHAPES = [(2, 3), (4, 5), (6, 5), (4, 4), (2, 1)]


@obligation("O05.1", ["C05", "C01", "C03"], ["forsys.fmatrix:ForceMatrix.add_mean_one"],
            "add_mean_one: [[M, 1],[1^T, 0]] with right-hand side [b; number of unknowns]", tier="Pn")
def o05_1(tier):
    def mk(r, c):
        def h(ctx):
            M, m = sym_matrix(ctx, "m", r, c)
            B, b = sym_matrix(ctx, "b", r, 1)
            fm = fm_with_matrix(ctx, M)
            A, bb = ctx.list_of(ctx.callm(fm, "add_mean_one", B))
            A, bb = rows_of(ctx, A), rows_of(ctx, bb)
            ctx.ensure(len(A) == r + 1 and all(len(x) == c + 1 for x in A), "shape (r+1) x (c+1)")
            ctx.ensure(ctx.And(*[ctx.close(A[i][j], m[i][j]) for i in range(r) for j in range(c)]), "upper-left block is the force-balance matrix")
            ctx.ensure(ctx.And(*[ctx.close(A[r][j], 1) for j in range(c)]), "last row: coefficient 1 for every tension")
            ctx.ensure(ctx.zero(A[r][c]), "last row: 0 for the multiplier")
            ctx.ensure(ctx.And(*[ctx.close(A[i][c], 1) for i in range(r)]), "last column: the multiplier enters every force-balance equation with 1")
            ctx.ensure(len(bb) == r + 1 and all(len(x) == 1 for x in bb), "rhs shape (r+1) x 1")
            ctx.ensure(ctx.And(*[ctx.close(bb[i][0], b[i][0]) for i in range(r)]), "rhs keeps b")
            ctx.ensure(ctx.close(bb[r][0], c), "rhs of the sum row = number of unknowns (mean one)")
        return h
    return [(f"{r}x{c}", mk(r, c)) for r, c in SHAPES]


@obligation("O05.2", ["C05"], ["forsys.fmatrix:ForceMatrix.add_mean_one_before"],
            "add_mean_one_before: normal equations bordered by the sum constraint [[M^T M, 1],[1^T, 0]], rhs [M^T b; number of unknowns]", tier="Pn")
def o05_2(tier):
    def mk(r, c):
        def h(ctx):
            M, m = sym_matrix(ctx, "m", r, c)
            B, b = sym_matrix(ctx, "b", r, 1)
            fm = fm_with_matrix(ctx, M)
            A, bb = ctx.list_of(ctx.callm(fm, "add_mean_one_before", B))
            A, bb = rows_of(ctx, A), rows_of(ctx, bb)
            ctx.ensure(len(A) == c + 1 and all(len(x) == c + 1 for x in A), "shape (c+1) x (c+1)")
            for i in range(c):
                for j in range(c):
                    ctx.ensure(ctx.close(A[i][j], sum(m[k][i] * m[k][j] for k in range(r))), f"({i},{j}) = (M^T M)[{i},{j}]")
            ctx.ensure(ctx.And(*[ctx.close(A[c][j], 1) for j in range(c)] + [ctx.close(A[i][c], 1) for i in range(c)]), "border of ones")
            ctx.ensure(ctx.zero(A[c][c]), "corner 0")
            ctx.ensure(ctx.And(*[ctx.close(bb[i][0], sum(m[k][i] * b[k][0] for k in range(r))) for i in range(c)]), "rhs = M^T b")
            ctx.ensure(ctx.close(bb[c][0], c), "rhs of the constraint = number of unknowns")
        return h
    return [(f"{r}x{c}", mk(r, c)) for r, c in SHAPES[:4]]


@obligation("O04.6", ["C04"], ["forsys.general_matrix:GeneralMatrix.add_lagrange_multiplier"],
            "add_lagrange_multiplier: [[N, 1],[1^T, 0]] with rhs [v; constraint] (zero-sum gauge of the pressures)", tier="Pn")
def o04_6(tier):
    def mk(n):
        def h(ctx):
            N, nn = sym_matrix(ctx, "n", n, n)
            if ctx.mode == "sym":
                from fvc import npmodel
                v = [ctx.real(f"v{i}") for i in range(n)]
                V = npmodel.asarray(v)
            else:
                v = [ctx.real(f"v{i}") for i in range(n)]
                V = ctx.module("numpy").array(v)
            GM = cls(ctx, "forsys.general_matrix", "GeneralMatrix")
            g = ctx.alloc(GM)
            kk = ctx.real("k")
            A, bb = ctx.list_of(ctx.callm(g, "add_lagrange_multiplier", N, V, kk))
            A, bb = rows_of(ctx, A), ctx.list_of(bb)
            ctx.ensure(len(A) == n + 1 and all(len(x) == n + 1 for x in A), "shape (n+1) x (n+1)")
            ctx.ensure(ctx.And(*[ctx.close(A[i][j], nn[i][j]) for i in range(n) for j in range(n)]), "upper-left block unchanged")
            ctx.ensure(ctx.And(*[ctx.close(A[n][j], 1) for j in range(n)] + [ctx.close(A[i][n], 1) for i in range(n)]), "border of ones")
            ctx.ensure(ctx.zero(A[n][n]), "corner 0")
            ctx.ensure(len(bb) == n + 1 and ctx.And(*[ctx.close(bb[i], v[i]) for i in range(n)]), "rhs keeps v")
            ctx.ensure(ctx.close(bb[n], kk), "last rhs entry = the constraint value (0 for the pressures)")
        return h
    return [(f"n={n}", mk(n)) for n in (1, 2, 4, 7)]
