"""C02 (and through it C01, C06, C07) - interface tangents: forsys/edge.py versor functions and the
dispatch of forsys/virtual_edges.py:calculate_circle_center.

A-fit (assumed contract on the circle fit): if the interface points lie on one circle, the fit returns
that circle's centre.  It enters as a stub of calculate_circle_center returning the symbolic centre
(cx, cy) under the precondition that every point is at the same distance from it.
"""
from fvc.registry import obligation
from fvc import interp as I
from .common import mk_vertices, mk_small_edges, mk_bigedge, dot, cross

U = "forsys.edge:BigEdge."
UNITS = [U + "get_straight_edge_versor_from_vid", U + "get_vector_from_vertex", U + "get_versor_from_vertex",
         U + "get_vertex_object_by_id", U + "get_vertices_ids", "forsys.virtual_edges:calculate_circle_center"]


def arc(ctx, n, on_circle=True, first_id=0, beid=0, moved=False):
    """n symbolic points; if on_circle: all at the same distance from a symbolic centre which the circle fit is
    assumed to return (A-fit) - provided it is handed exactly the interface's points at their CURRENT positions (checked at the call).
    moved: the interface is constructed somewhere else and its vertices are then moved in place to the points
    (as TimeSeries does when it subtracts the centre of mass, or Frame.filter_edges when it smooths)"""
    pts = [(ctx.real(f"x{i}"), ctx.real(f"y{i}")) for i in range(n)]
    cx = cy = None
    if on_circle:
        cx, cy = ctx.real("cx"), ctx.real("cy")
        r2 = (pts[0][0] - cx) * (pts[0][0] - cx) + (pts[0][1] - cy) * (pts[0][1] - cy)
        ctx.assume(r2 > 0, "pre")
        for p in pts[1:]:
            ctx.assume(ctx.close((p[0] - cx) * (p[0] - cx) + (p[1] - cy) * (p[1] - cy), r2), "A-fit:on-circle")
        def fit(it, a, k):
            given = ctx.list_of(a[0])
            ctx.ensure(len(given) == n and ctx.And(*[ctx.And(ctx.close(ctx.get(v, "x"), p[0]), ctx.close(ctx.get(v, "y"), p[1])) for v, p in zip(given, pts)]),
                       "the circle is fitted through the interface's points at their current positions")
            return (cx, cy)
        ctx.stub("forsys.virtual_edges:calculate_circle_center", fit,
                 "A-fit: the circle fit returns the centre of the circle the interface points lie on")

        # the same assumed contract one level down, for code that reaches the fitting back ends by another route than
        # calculate_circle_center (unreached on the current tree, where the stub above intercepts the call)
        def coords_ok(xs, ys):
            xs, ys = ctx.list_of(xs), ctx.list_of(ys)
            ctx.ensure(len(xs) == n and len(ys) == n and ctx.And(*[ctx.And(ctx.close(x, p[0]), ctx.close(y, p[1])) for x, y, p in zip(xs, ys, pts)]),
                       "the circle is fitted through the interface's points at their current positions")

        def leaf_dlite(it, a, k):
            coords_ok(a[0], a[1])
            return [cx, cy]

        def leaf_taubin(it, a, k):
            pairs = [ctx.list_of(q) for q in ctx.list_of(a[0])]
            coords_ok([q[0] for q in pairs], [q[1] for q in pairs])
            return (cx, cy, 1.0, 0.0)
        ctx.stub("forsys.virtual_edges:dlite_circle_method", leaf_dlite, "A-fit (scipy.optimize.leastsq), same contract at the back end")
        ctx.stub("circle_fit.taubinSVD", leaf_taubin, "A-fit (circle_fit.taubinSVD), same contract at the back end")
    if moved:
        ox, oy = ctx.real("ox"), ctx.real("oy")
        vs = mk_vertices(ctx, [(p[0] + ox, p[1] + oy) for p in pts], ids=[first_id + i for i in range(n)])
    else:
        vs = mk_vertices(ctx, pts, ids=[first_id + i for i in range(n)])
    es = mk_small_edges(ctx, vs, first_id)
    be = mk_bigedge(ctx, beid, vs)
    if moved:
        for v, p in zip(vs, pts):
            ctx.set(v, "x", p[0])
            ctx.set(v, "y", p[1])
    return be, vs, pts, (cx, cy)


def distinct_pts(ctx, p, q):
    ctx.assume(ctx.Or(ctx.Not(ctx.close(p[0], q[0])), ctx.Not(ctx.close(p[1], q[1]))), "pre")


@obligation("O02.1", ["C02", "C01", "C07"], UNITS[:1] + UNITS[3:5],
            "straight versor from an end vertex is the vector to the neighbouring point; an interior vertex raises")
def o02_1(tier):
    def mk(n, pos):
        def h(ctx):
            be, vs, pts, _ = arc(ctx, n, on_circle=False, first_id=10)
            vid = 10 + pos
            if pos in (0, n - 1):
                r = ctx.list_of(ctx.callm(be, "get_straight_edge_versor_from_vid", vid))
                P = pts[pos]
                Q = pts[1] if pos == 0 else pts[n - 2]
                ctx.ensure(ctx.close(r[0], Q[0] - P[0]), "x component = Q.x - P.x")
                ctx.ensure(ctx.close(r[1], Q[1] - P[1]), "y component = Q.y - P.y")
            else:
                exc = ctx.raises(lambda: ctx.callm(be, "get_straight_edge_versor_from_vid", vid))
                ctx.ensure(exc is not None, "interior vertex is rejected with an exception")
        return h
    out = []
    for n in (2, 3, 5):
        for pos in sorted({0, n - 1, 1 if n > 2 else 0}):
            out.append((f"n={n},pos={pos}", mk(n, pos)))
    return out


def _axis_between(ctx, t, d):
    """class of KF-C02-sign-forcing: a coordinate axis separates the (either way oriented) tangent from the first
    segment, i.e. the component signs of t agree with those of d (0 counted as +) in one component and disagree
    in the other"""
    sx = ctx.ite(d[0] >= 0, 1, -1)
    sy = ctx.ite(d[1] >= 0, 1, -1)
    agree = ctx.And(t[0] * sx >= 0, t[1] * sy >= 0)
    oppose = ctx.And(t[0] * sx <= 0, t[1] * sy <= 0)
    return ctx.Not(ctx.Or(agree, oppose))


@obligation("O02.3a", ["C02", "C01", "C06", "C10"], UNITS[1:2] + UNITS[:1],
            "circular interface (>=3 points): the vector at an end junction is parallel to the circle's tangent there and points along the first segment",
            known={"axis-between": "KF-C02-sign-forcing"})
def o02_3a(tier):
    def mk(n, at_end, fit, klass, moved=False):
        def h(ctx):
            be, vs, pts, (cx, cy) = arc(ctx, n, moved=moved)
            P = pts[-1] if at_end else pts[0]
            Q = pts[-2] if at_end else pts[1]
            distinct_pts(ctx, P, Q)
            tx, ty = -(P[1] - cy), (P[0] - cx)
            d = (Q[0] - P[0], Q[1] - P[1])
            # the first segment is not perpendicular to the tangent (Q not antipodal to P)
            ctx.assume(ctx.Not(ctx.zero(tx * d[0] + ty * d[1])), "pre")
            between = _axis_between(ctx, (tx, ty), d)
            ctx.assume(between if klass else ctx.Not(between), "pre:class")
            vid = n - 1 if at_end else 0
            res = ctx.list_of(ctx.callm(be, "get_vector_from_vertex", vid, fit_method=fit))
            ctx.ensure(ctx.zero(res[0] * ty - res[1] * tx), "parallel to the tangent rot90(P-C)")
            ctx.ensure(ctx.gt(res[0] * d[0] + res[1] * d[1], 0), "points along the first segment")
            ctx.ensure(ctx.close(res[0] * res[0] + res[1] * res[1], tx * tx + ty * ty), "length = radius (not rescaled)")
        return h
    out = [(f"n={n},{'last' if e else 'first'},{fit}", mk(n, e, fit, False))
           for n in ((3, 4) if tier == "quick" else (3, 4, 5)) for e in (False, True) for fit in ("dlite", "taubinSVD")
           if tier != "quick" or n == 3 or fit == "dlite"]
    out.append(("axis-between", mk(3, False, "dlite", True)))
    out += [(f"n=3,{'last' if e else 'first'},{fit},vertices-moved-after-construction", mk(3, e, fit, False, moved=True)) for e, fit in ((False, "dlite"), (True, "taubinSVD"))]

    def h_twice(ctx):
        # frame condition / no memo: a second call with the other fit method uses THAT fit's centre (C10: results are a function of the last call's arguments)
        n = 3
        pts = [(ctx.real(f"x{i}"), ctx.real(f"y{i}")) for i in range(n)]
        c1, c2 = (ctx.real("c1x"), ctx.real("c1y")), (ctx.real("c2x"), ctx.real("c2y"))

        def centre(it, a, k):
            return c1 if k.get("method", a[1] if len(a) > 1 else "dlite") == "dlite" else c2
        ctx.stub("forsys.virtual_edges:calculate_circle_center", centre, "A-fit: each fit method returns its own centre")
        vs = mk_vertices(ctx, pts)
        mk_small_edges(ctx, vs)
        be = mk_bigedge(ctx, 0, vs)
        P, Q = pts[0], pts[1]
        distinct_pts(ctx, P, Q)
        d = (Q[0] - P[0], Q[1] - P[1])
        for c in (c1, c2):
            t = (-(P[1] - c[1]), P[0] - c[0])
            ctx.assume(ctx.Not(ctx.zero(t[0] * d[0] + t[1] * d[1])), "pre")
            ctx.assume(ctx.Not(_axis_between(ctx, t, d)), "pre:class")
        first = ctx.list_of(ctx.callm(be, "get_vector_from_vertex", 0, fit_method="dlite"))
        second = ctx.list_of(ctx.callm(be, "get_vector_from_vertex", 0, fit_method="taubinSVD"))
        t2 = (-(P[1] - c2[1]), P[0] - c2[0])
        ctx.ensure(ctx.zero(second[0] * t2[1] - second[1] * t2[0]), "second call: parallel to the tangent of the SECOND fit")
        ctx.ensure(ctx.close(second[0] * second[0] + second[1] * second[1], t2[0] * t2[0] + t2[1] * t2[1]), "second call: length from the SECOND fit's centre")
        again = ctx.list_of(ctx.callm(be, "get_vector_from_vertex", 0, fit_method="dlite"))
        ctx.ensure(ctx.And(ctx.close(again[0], first[0]), ctx.close(again[1], first[1])), "third call with the first method reproduces the first result")
    out.append(("repeated-calls-other-fit-method", h_twice))
    return out


@obligation("O02.3b", ["C02", "C01", "C06"], UNITS[1:2] + UNITS[:1],
            "two-point interface: the vector at either end is the segment to the other end (no circle fit involved)")
def o02_3b(tier):
    def mk(at_end):
        def h(ctx):
            be, vs, pts, _ = arc(ctx, 2, on_circle=False)
            P, Q = (pts[1], pts[0]) if at_end else (pts[0], pts[1])
            distinct_pts(ctx, P, Q)
            res = ctx.list_of(ctx.callm(be, "get_vector_from_vertex", 1 if at_end else 0))
            ctx.ensure(ctx.zero(cross(res, (Q[0] - P[0], Q[1] - P[1]))), "parallel to the segment")
            ctx.ensure(ctx.gt(dot(res, (Q[0] - P[0], Q[1] - P[1])), 0), "points from the junction to the other end")
        return h
    return [("first", mk(False)), ("last", mk(True))]


@obligation("O02.4", ["C02", "C01", "C06"], UNITS[2:3],
            "get_versor_from_vertex is the unit vector of whatever get_vector_from_vertex returns (modular: callee by contract)")
def o02_4(tier):
    def h(ctx):
        be, vs, pts, _ = arc(ctx, 3, on_circle=False)
        vx, vy = ctx.real("vx"), ctx.real("vy")
        ctx.assume(ctx.Or(ctx.Not(ctx.zero(vx)), ctx.Not(ctx.zero(vy))), "pre")     # O02.3a/b: non-zero, oriented
        np_ = ctx.module("numpy") if ctx.mode != "sym" else None

        def vec(it, a, k):
            if np_ is not None:
                return np_.array((vx, vy))
            from fvc import npmodel
            return npmodel.NDArr([vx, vy], (2,))
        ctx.stub("forsys.edge:BigEdge.get_vector_from_vertex", vec, "callee contract proved as O02.3a / O02.3b")
        if ctx.mode != "sym":
            ctx.apply_stubs = True
            ctx.stub("forsys.edge:BigEdge.get_vector_from_vertex", vec)
        res = ctx.list_of(ctx.callm(be, "get_versor_from_vertex", 0))
        ctx.ensure(ctx.close(res[0] * res[0] + res[1] * res[1], 1), "unit length")
        ctx.ensure(ctx.zero(res[0] * vy - res[1] * vx), "parallel to the vector")
        ctx.ensure(ctx.gt(res[0] * vx + res[1] * vy, 0), "same orientation as the vector")
    return [("any-vector", h)]


@obligation("O02.5", ["C02", "C01"], UNITS[5:6],
            "calculate_circle_center dispatch: dlite / taubinSVD (dlite for <3 points or on FloatingPointError) / centroid otherwise")
def o02_5(tier):
    def mk(n, method, taubin_raises):
        def h(ctx):
            pts = [(ctx.real(f"x{i}"), ctx.real(f"y{i}")) for i in range(n)]
            vs = mk_vertices(ctx, pts)
            if ctx.mode != "sym":
                return      # which back end ran is not observable natively; the symbolic run decides it
            dl = (ctx.real("dlx"), ctx.real("dly"))
            tb = (ctx.real("tbx"), ctx.real("tby"))
            calls = []

            def dlite(it, a, k):
                calls.append("dlite")
                return list(dl)

            def taubin(it, a, k):
                calls.append("taubin")
                if taubin_raises:
                    raise I.IRaise(FloatingPointError("taubin"))
                return (tb[0], tb[1], 1.0, 0.0)
            ctx.stub("forsys.virtual_edges:dlite_circle_method", dlite, "A-fit (scipy.optimize.leastsq)")
            ctx.stub("circle_fit.taubinSVD", taubin, "A-fit (circle_fit.taubinSVD)")
            ve = ctx.module("forsys.virtual_edges")
            r = ctx.call(ctx.get(ve, "calculate_circle_center"), vs, method=method)
            r = ctx.list_of(r)
            if method == "dlite" or (method == "taubinSVD" and (n < 3 or taubin_raises)):
                want = dl
                ctx.ensure(calls[-1] == "dlite", "dlite back end used")
            elif method == "taubinSVD":
                want = tb
                ctx.ensure(calls == ["taubin"], "taubinSVD back end used")
            else:
                want = (sum(p[0] for p in pts) / n, sum(p[1] for p in pts) / n)
                ctx.ensure(calls == [], "no fit for the centroid method")
            ctx.ensure(ctx.And(ctx.close(r[0], want[0]), ctx.close(r[1], want[1])), "returns that back end's centre")
        return h
    out = []
    for n in (2, 3, 6):
        for method in ("dlite", "taubinSVD", "mean"):
            out.append((f"n={n},{method}", mk(n, method, False)))
    out.append(("n=4,taubinSVD,FloatingPointError", mk(4, "taubinSVD", True)))
    return out
